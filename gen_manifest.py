#!/usr/bin/env python3
"""Regenerates MANIFEST.json from the table below (kept by hand; one entry per property)."""
import json, subprocess, sys

CHECKS = {
 "C01": dict(level="other", tech="path-sensitive wire-effect analysis over SSA; Encode/Decode terms compared atom by atom (mirror rule)", ref="§4 C01",
   text="Structural theorem: for all 170 codec types the flattened Encode and Decode wire terms are mirror images (kind, number type, byte order, length expression, repetition bound to the same prefix, nested type, same receiver field, same table/key, lossless value paths). Behavioural round trip follows only with the stdlib axioms, hence 'other'.",
   note="Trusted: go/ssa, encoding/binary / bytes.Buffer / io.ReadFull axioms (DESIGN §7). Body==nil skip arm of the four length-computing frames is outside the property's domain and only listed."),
 "C02": dict(level="other", tech="wire-layout extraction from SSA effect terms compared with a frozen schema table (golden/golden.json)", ref="§4 C02",
   text="Translation-validation shape: layout extracted from Encode and independently from Decode equals the frozen rendering of the pinned generator output, field by field, for every type. The .pdsl schemas are absent from the repository, so the oracle is that frozen table; therefore 'other'.",
   note="Trusted: golden/golden.json as rendering of the pinned schema (audited, DESIGN §3.3); stdlib axioms; primitives' renderings are covered by C03/C13/C18."),
 "C03": dict(level="proof", tech="effect analysis: byte order of every encoding/binary atom is a syntactic constant; unit-order, order-purity and twin-flip rules", ref="§4 C03",
   text="Every multi-byte number passes through an encoding/binary atom whose ByteOrder is a syntactic constant; B1 checks each atom of each message against the unit's declared order, B2 order-purity of every primitive (generic body and all instantiations), B3 that each F/FLE twin differs only by flipped orders.",
   note="Trusted: ByteOrder semantics of encoding/binary; go/ssa. Declared order per unit is the property statement."),
 "C04": dict(level="proof", tech="marker-relative offset analysis (affine domain over buf.Len() observations) on every frame Encode path", ref="§4 C04",
   text="On every success path of each length-computing frame: the patched value is the difference of two Len() observations delimiting exactly the body atoms, the patched range is exactly the placeholder's bytes (same type and order, fresh Bytes()), the placeholder is constant and the stale length never reaches the wire; markers are symbolic, so it holds for every prior buffer state.",
   note="Trusted: bytes.Buffer Len()/Bytes() relative to the unread region; Bytes() valid until the next append."),
 "C05": dict(level="other", tech="effect-order and span analysis of the checksum call on every frame Encode path; service/assertion type check", ref="§4 C05",
   text="Span, order, placement and plumbing of the frame checksum are proven for every body and buffer history (K1-K5); the numeric correctness of the algorithm is delegated to C14, hence 'other'.",
   note="Assumes the registry in its start-up configuration (checked statically: no non-test module code mutates it outside init); registered services satisfy C14."),
 "C06": dict(level="proof", tech="effect classification of every buffer use on all Encode paths (append-only), marker-dependence and receiver-store analysis", ref="§4 C06",
   text="A1 append-only, A2 no dependence on prior buffer length/content, A3 only computed fields or nil-materialised parts are stored and no package state is written – on every path of every Encode with module callees inlined.",
   note="Trusted: stdlib model for bytes.Buffer; Len()/Bytes() relative to the unread region."),
 "C07": dict(level="proof", tech="mirror of read atoms against write atoms plus classification of every buffer use on all Decode paths and reader primitives", ref="§4 C07",
   text="Each read atom consumes exactly what its opposite write atom produces; every buffer use in decode-reachable code is an exact consuming atom, an observer or a nested Decode.",
   note="Relative to the encoding/binary / io.ReadFull axioms (DESIGN §7)."),
 "C08": dict(level="other", tech="value-path (provenance) analysis against a lossless-operation allow-list, plus mirror and strip/pad agreement", ref="§4 C08",
   text="Decode loses no wire information structurally: mirror, lossless value paths on both sides, strip byte/side equals pad byte/side, list order preserved, only computed fields may differ. Value semantics of the allow-listed stdlib operations are axioms, hence 'other'.",
   note="Trusted: bytes.TrimLeft/TrimRight for an ASCII cutset, encoding/binary bit preservation."),
 "C09": dict(level="proof", tech="enumeration and discharge of every panic site, loop-bound and recursion analysis on all Decode paths", ref="§4 C09",
   text="Every instruction that can panic on a decode path is enumerated and discharged by a dominating guard or whole-program fact; loops are counted and input-bounded; no recursion, goroutines or foreign locks.",
   note="Relative to the no-panic entries of the stdlib model; 64-bit int. Unbounded allocation is C10; error propagation is C11."),
 "C10": dict(level="proof", tech="taint analysis: wire-derived values to allocation sizes (and to the choice of a size-class pool), with dominance-based sanitisers (comparison with buf.Len(), min)", ref="§4 C10",
   text="No allocation size on any decode path (or in any reader primitive instantiation) derives from a wire value without being bounded by the bytes present; no pool asked for memory there is selected by a wire value; every wire-counted loop consumes input on each completed iteration.",
   note="The constant factor (element size) and allocator behaviour are reported, not judged."),
 "C11": dict(level="proof", tech="path-sensitive error-discipline analysis: every failing atom must end in a provably non-nil error", ref="§4 C11",
   text="On every path of every Decode, reader primitive and lookup on which a read fails, comes back short, a nested Decode fails or a key is unknown, the function returns a non-nil error; with C07 every strict prefix of a valid encoding is rejected.",
   note="Relative to the stdlib axioms (binary.Read/io.ReadFull fail on short input; Buffer.Read reports a short count)."),
 "C12": dict(level="other", tech="extraction of table registrations from init functions compared with the frozen tables; path analysis of lookups and of both uses", ref="§4 C12",
   text="Exhaustive over the 18 finite tables (226 keys) and the key-independent miss path; oracle is the frozen table, hence 'other'.",
   note="Trusted: golden/golden.json tables are the pinned discriminator assignments."),
 "C13": dict(level="other", tech="symbolic-parameter effect analysis of the fixed-text primitives (affine byte counts, cut/pad shape, boundary-scan strip idiom) per bool valuation", ref="§4 C13",
   text="Byte count, cut, pad side, pad/strip byte agreement and parameter forwarding are decided for every width, pad byte, side and value; the value semantics of bytes.Repeat / slicing are axioms, hence 'other'.",
   note="Trusted: bytes.Repeat length, slice semantics."),
 "C14": dict(level="other", tech="effect analysis of each Calc (read-only, deterministic, whole input) plus wrap-aware interval analysis and mod-256 congruence rule", ref="§4 C14",
   text="Non-consumption, determinism, whole-input coverage, result range [0,255] and absence of sign-extension/overflow effects are decided for every input; the CRC-16 constants (polynomial, init, reflection) are a value-level fact that is not decided, hence 'other'.",
   note="Not decided: numerical equality of the CRC-16 bit loop with CRC-16/MODBUS. Trusted: hash/crc32."),
 "C15": dict(level="proof", tech="must-assign and old-state-dependence analysis on all Decode success paths (provenance terms free of the receiver's initial content)", ref="§4 C15",
   text="Every receiver field is assigned (or decoded into) on every success path, nothing stored or branched on derives from the receiver's previous content except the nil test of a nested pointer part, lists start from fresh slices.",
   note="Trusted: go/ssa; distinct provenance terms denote distinct locations."),
 "C16": dict(level="proof", tech="alias-taint analysis (Bytes/Next sources, copying operations as sanitisers) plus unsafe/reflect-header ban", ref="§4 C16",
   text="No value aliasing the buffer reaches a return value or a lasting store on any decode path or primitive; no unsafe; encode never replaces or leaks the buffer.",
   note="Trusted: aliasing entries of the stdlib model."),
 "C17": dict(level="proof", tech="enumeration and discharge of every panic site on all Encode paths (nil guards, bounds, assertion, loops)", ref="§4 C17",
   text="Every dereference of a receiver-held pointer/interface is dominated by a nil guard or materialisation; slices, indices, Repeat counts and the patch are within bounds; the only unchecked assertion is discharged by the registered service type.",
   note="Relative to the stdlib model; buffer growth failure (OOM) not modelled; nil list elements and typed-nil interfaces are outside the property."),
 "C18": dict(level="proof", tech="dominance of every narrowing T(len(x)) prefix by an exact overflow guard; failing-guard paths must return non-nil errors through all inlined callers", ref="§4 C18",
   text="Every length-prefix write from a narrowing conversion is dominated by a round-trip or exact max-compare guard, and every path on which a guard fails returns a non-nil error in the primitive and in every Encode reaching it.",
   note="64-bit int."),
 "C19": dict(level="proof", tech="lockset / critical-section analysis over all paths of every function touching the registry map", ref="§4 C19",
   text="Every access to the registry map happens under the mutex of the same object (exclusive for writes), every acquisition is released on every exit, each operation is one critical section, the map never escapes, the registry pointer is assigned once: data-race freedom and linearizability follow for all interleavings.",
   note="Trusted: sync.RWMutex; Algorithm() of a service is pure. Schedules are not explored; the verdict is the classical consequence of the lock discipline."),
 "C20": dict(level="proof", tech="global-state effect analysis over the call graph (CHA quick, VTA thorough) from every Encode/Decode/lookup/primitive", ref="§4 C20",
   text="No function reachable from the codecs writes package-level state, starts goroutines or uses channels/pools; package state read on codec paths is written only by start-up functions or is the lock-protected registry; factories return fresh objects.",
   note="Relative to the stdlib model's thread-safety entries; schedules are not explored."),
}

NOT_YET = {
}

def main():
    props = [json.loads(l) for l in open("properties.jsonl")]
    checks, na = [], []
    for p in props:
        pid = p["id"]
        if pid in CHECKS:
            c = CHECKS[pid]
            checks.append({
                "property_id": pid,
                "quick_cmd": f"./check.sh {pid} quick",
                "thorough_cmd": f"./check.sh {pid} thorough",
                "evidence_file": f"/verif/evidence/{pid}.json",
                "replay_cmd_template": "./check.sh --replay {path}",
                "engine": "fpcheck",
                "level_claimed": {"category": c["level"], "text": c["text"], "design_ref": "DESIGN.md " + c["ref"]},
                "level_note": c["note"],
                "technique": c["tech"],
            })
        else:
            na.append({"property_id": pid, "reason": NOT_YET.get(pid, "static check not built yet in this revision (see DESIGN.md §4 for the planned rule); not claimed until it runs clean")})
    try:
        fixes = subprocess.check_output(["git", "-C", "/repo", "log", "--format=%h %s", "--grep=^fix:"], text=True).strip().splitlines()
    except Exception:
        fixes = []
    m = {
        "version": 1,
        "setup_cmd": "./setup.sh",
        "hooks": {
            "guard": "verif",
            "enable": "none needed: the analyser reads /repo's source; no instrumentation is compiled in (go build -tags verif is analysed in the thorough tier only to confirm it changes nothing)",
            "baseline_off_cmd": "cd /repo && go test -mod=mod -vet=off -count=1 ./...",
            "source_commits": [f.split()[0] for f in fixes],
            "add_only": True,
        },
        "engines": [{"name": "fpcheck", "path": "/verif/checker", "serves_properties": sorted(CHECKS), "kind_free_text": "custom static analyser on go/packages + go/ssa (x/tools v0.50.0, vendored): path-sensitive effect/provenance analysis, taint, lockset, interval and golden-table rules"}],
        "checks": checks,
        "not_applicable": na,
        "notes": "Technique family: static analysis only. source_commits lists the 'fix:' commits made to /repo for genuine defects (see known_findings.json); there are no hook commits.",
    }
    json.dump(m, open("MANIFEST.json", "w"), indent=1)
    print("MANIFEST.json:", len(checks), "checks,", len(na), "not applicable")

if __name__ == "__main__":
    main()
