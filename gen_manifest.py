#!/usr/bin/env python3
"""Regenerates MANIFEST.json from the table below (kept by hand; one entry per property)."""
import json, subprocess, sys

CHECKS = {
 "C01": dict(level="other", tech="path-sensitive wire-effect analysis over SSA; Encode/Decode terms compared atom by atom (mirror rule)", ref="§4 C01",
   text="Structural theorem: for all 170 codec types the flattened Encode and Decode wire terms are mirror images (kind, number type, byte order, length expression, repetition bound to the same prefix, nested type, same receiver field, same table/key, lossless value paths). Behavioural round trip follows only with the stdlib axioms, hence 'other'.",
   note="Trusted: go/ssa, encoding/binary / bytes.Buffer / io.ReadFull axioms (DESIGN §7). Body==nil skip arm of the four length-computing frames is outside the property's domain and only listed."),
 "C02": dict(level="other", tech="wire-layout extraction from SSA effect terms compared with a frozen schema table (golden/golden.json)", ref="§4 C02",
   text="Translation-validation shape: layout extracted from Encode and independently from Decode equals the frozen rendering of the pinned generator output, field by field, for every type. The .pdsl schemas are absent from the repository, so the oracle is that frozen table; therefore 'other'.",
   note="Trusted: golden/golden.json as rendering of the pinned schema (audited, DESIGN §3.3); stdlib axioms; primitives' renderings are covered by C03/C13/C18."),
 "C03": dict(level="proof", tech="effect analysis: byte order of every encoding/binary atom is a syntactic constant; unit-order, order-purity and twin-flip rules", ref="§4 C03",
   text="Every multi-byte number passes through an encoding/binary atom whose ByteOrder is a syntactic constant; B1 checks each atom of each message against the unit's declared order, B2 order-purity of every primitive (generic body and all instantiations), B3 that each F/FLE twin differs only by flipped orders.",
   note="Trusted: ByteOrder semantics of encoding/binary; go/ssa. Declared order per unit is the property statement."),
}

NOT_YET = {
}

def main():
    props = [json.loads(l) for l in open("properties.jsonl")]
    checks, na = [], []
    for p in props:
        pid = p["id"]
        if pid in CHECKS:
            c = CHECKS[pid]
            checks.append({
                "property_id": pid,
                "quick_cmd": f"./check.sh {pid} quick",
                "thorough_cmd": f"./check.sh {pid} thorough",
                "evidence_file": f"/verif/evidence/{pid}.json",
                "replay_cmd_template": "./check.sh --replay {path}",
                "engine": "fpcheck",
                "level_claimed": {"category": c["level"], "text": c["text"], "design_ref": "DESIGN.md " + c["ref"]},
                "level_note": c["note"],
                "technique": c["tech"],
            })
        else:
            na.append({"property_id": pid, "reason": NOT_YET.get(pid, "static check not built yet in this revision (see DESIGN.md §4 for the planned rule); not claimed until it runs clean")})
    try:
        fixes = subprocess.check_output(["git", "-C", "/repo", "log", "--format=%h %s", "--grep=^fix:"], text=True).strip().splitlines()
    except Exception:
        fixes = []
    m = {
        "version": 1,
        "setup_cmd": "./setup.sh",
        "hooks": {
            "guard": "verif",
            "enable": "none needed: the analyser reads /repo's source; no instrumentation is compiled in (go build -tags verif is analysed in the thorough tier only to confirm it changes nothing)",
            "baseline_off_cmd": "cd /repo && go test -mod=mod -vet=off -count=1 ./...",
            "source_commits": [f.split()[0] for f in fixes],
            "add_only": True,
        },
        "engines": [{"name": "fpcheck", "path": "/verif/checker", "serves_properties": sorted(CHECKS), "kind_free_text": "custom static analyser on go/packages + go/ssa (x/tools v0.50.0, vendored): path-sensitive effect/provenance analysis, taint, lockset, interval and golden-table rules"}],
        "checks": checks,
        "not_applicable": na,
        "notes": "Technique family: static analysis only. source_commits lists the 'fix:' commits made to /repo for genuine defects (see known_findings.json); there are no hook commits.",
    }
    json.dump(m, open("MANIFEST.json", "w"), indent=1)
    print("MANIFEST.json:", len(checks), "checks,", len(na), "not applicable")

if __name__ == "__main__":
    main()
