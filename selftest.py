#!/usr/bin/env python3
"""Validates the checker both ways (DESIGN §9):
  * every mutant of mutants/corpus.py still builds and passes the repository's tests, and is reported by the
    checks named for it (the report must mention the mutated construct);
  * every behaviour-preserving refactor leaves all 20 checks silent;
  * the unchanged tree is silent.
Scratch copies live under $TMPDIR (default /tmp) only while a case runs. Nothing here is a registered check."""
import os, sys, subprocess, shutil, tempfile, json, re
from concurrent.futures import ThreadPoolExecutor
sys.path.insert(0, os.path.join(os.path.dirname(os.path.abspath(__file__)), "mutants"))
import corpus

VERIF = os.path.dirname(os.path.abspath(__file__))
REPO = os.environ.get("FPCHECK_REPO", "/repo")
GOENV = dict(os.environ, GOFLAGS="-mod=mod", GOPROXY="off")
GOENV.pop("GOWORK", None)

def run(cmd, cwd, env=None, timeout=600):
    p = subprocess.run(cmd, cwd=cwd, env=env or os.environ, stdout=subprocess.PIPE, stderr=subprocess.STDOUT, text=True, timeout=timeout)
    return p.returncode, p.stdout

def apply(root, edits):
    for e in edits:
        f, old, new = e[0], e[1], e[2]
        count = e[3] if len(e) > 3 else 1
        path = os.path.join(root, f)
        s = open(path).read()
        n = s.count(old)
        if count == 0:
            if n == 0:
                return f"{f}: pattern not found"
            s = s.replace(old, new)
        else:
            if n != count:
                return f"{f}: pattern occurs {n} times, expected {count}: {old[:60]!r}"
            s = s.replace(old, new)
        open(path, "w").write(s)
    return None

def case(c, is_mutant, skip_tests=False, skip_build=False):
    tmp = tempfile.mkdtemp(prefix="fpmut_", dir=os.environ.get("TMPDIR", "/tmp"))
    try:
        tree = os.path.join(tmp, "repo")
        subprocess.check_call(["rsync", "-a", "--exclude", ".git", REPO + "/", tree + "/"])
        err = None
        if c.get("base"):
            # the case starts from a kept behaviour-preserving refactoring (another correct spelling of the same code)
            rc, out = run(["git", "apply", "--whitespace=nowarn", os.path.join(VERIF, "refactors", c["base"], "patch.diff")], tree)
            if rc != 0:
                err = "base refactoring " + c["base"] + " does not apply: " + out[-200:]
        err = err or apply(tree, c.get("edits", []))
        if err:
            return c["id"], "BROKEN-CASE", err
        if not skip_build:
            rc, out = run(["go", "build", "./..."], tree, GOENV)
            if rc != 0:
                return c["id"], "BROKEN-CASE", "does not build: " + out[-400:]
        if not skip_tests:
            rc, out = run(["go", "test", "-vet=off", "-count=1", "./..."], tree, GOENV)
            if rc != 0:
                return c["id"], "BROKEN-CASE", "fails the repository's tests: " + out[-600:]
        ev = os.path.join(tmp, "ev")
        os.makedirs(ev)
        rc, out = run([os.environ.get("FPCHECK_BIN", os.path.join(VERIF, "bin", "fpcheck")), "-repo", tree, "-verif", VERIF, "-evidence", ev, "-property", "all", "-tier", "quick"], VERIF)
        fired = sorted(set(re.findall(r"^VIOLATION property=(C\d+)", out, re.M)))
        errors = re.findall(r"^CHECK-ERROR.*", out, re.M)
        if is_mutant:
            want = c["caught_by"]
            missing = [p for p in want if p not in fired]
            if errors:
                return c["id"], "CHECK-ERROR", "; ".join(errors)[:300]
            if missing:
                return c["id"], "MISSED", f"expected {want}, fired {fired}"
            if c.get("mention"):
                lines = [l for l in out.splitlines() if l.startswith("  ") and ":" in l]
                if not any(c["mention"] in l for l in lines):
                    return c["id"], "UNNAMED", f"fired {fired} but no report mentions {c['mention']!r}"
            return c["id"], "CAUGHT", f"by {fired}"
        else:
            if rc != 0 and not fired and not errors:
                errors = ["checker exited with %d: %s" % (rc, out[-300:].replace("\n", " | "))]  # a crash is not silence
            if fired or errors:
                detail = [l for l in out.splitlines() if l.startswith("  ") and ": " in l and "rule " not in l][:3]
                return c["id"], "FALSE-ALARM", f"fired {fired} {errors[:1]} " + " | ".join(detail)[:500]
            return c["id"], "SILENT", ""
    finally:
        shutil.rmtree(tmp, ignore_errors=True)

def canary(prop, jsonout):
    """Thorough tier: every rule of `prop` must fire on its canaries (mutants of the corpus that break prop).
    Applied to the current tree without building or running tests; a canary whose pattern no longer applies
    (the tree was edited) is skipped, not failed."""
    cases = [m for m in corpus.MUTANTS if prop in m["caught_by"]]
    out = []
    with ThreadPoolExecutor(max_workers=8) as ex:
        results = list(ex.map(lambda c: case(dict(c, caught_by=[prop], mention=None), True, skip_tests=True, skip_build=True), cases))
    for cid, status, detail in results:
        out.append(dict(id=cid, status=status, detail=detail[:200]))
    json.dump(out, open(jsonout, "w"), indent=1)
    return 0

def main():
    if len(sys.argv) >= 4 and sys.argv[1] == "--canary":
        return canary(sys.argv[2], sys.argv[3])
    only = sys.argv[1:]
    cases = [(m, True) for m in corpus.MUTANTS] + [(r, False) for r in corpus.REFACTORS] + [(dict(id="r00_unchanged_tree", edits=[]), False)]
    if only:
        cases = [(c, m) for c, m in cases if any(o in c["id"] for o in only)]
    with ThreadPoolExecutor(max_workers=8) as ex:
        results = list(ex.map(lambda cm: case(cm[0], cm[1]), cases))
    bad = 0
    for (cid, status, detail) in results:
        print(f"{status:12s} {cid:40s} {detail}")
        if status not in ("CAUGHT", "SILENT"):
            bad += 1
    print(f"selftest: {len(results)} cases, {bad} problems")
    json.dump([dict(id=r[0], status=r[1], detail=r[2]) for r in results], open(os.path.join(VERIF, "mutants", "last_selftest.json"), "w"), indent=1)
    return 1 if bad else 0

if __name__ == "__main__":
    sys.exit(main())
