#!/bin/sh
# keep_seed2.sh <round dir> <out tag> <property> <letterA> <letterB>
R="$1"; TAG="$2"; P="$3"
cd /verif
for ab in "A:$4" "B:$5"; do
  s="${ab%%:*}"; l="${ab##*:}"
  d="$R/out_$TAG/$s"
  [ -f "$d/patch.diff" ] || { echo "$P-$l: no patch"; continue; }
  grep -q "needs: -race" "$d/demo_test.go" 2>/dev/null && RACE=--race || RACE=
  python3 seeded/eval_seed.py "$d" --keep "$P-$l" --property "$P" $RACE > "$R/eval_${TAG}_$s.json" 2>&1
  python3 - "$R/eval_${TAG}_$s.json" "$P-$l" "$P" <<'PY'
import sys,json
t=open(sys.argv[1]).read()
try:
    r=json.loads(t[t.index("{"):t.rindex("}")+1])
    print(sys.argv[2], "valid=%s"%r.get("valid"), "fired=%s"%",".join(r.get("checks_fired",[])), "TARGET-CAUGHT" if sys.argv[3] in r.get("checks_fired",[]) else "TARGET-MISSED", r.get("check_errors"))
    if not r.get("valid"): print("   ", {k:r.get(k) for k in ["demo_passes_unpatched","applies","builds","suite_passes_patched","demo_fails_patched"]})
except Exception as e:
    print(sys.argv[2], "EVAL-ERROR", t[-300:])
PY
done
