#!/bin/sh
# keep_refactor.sh <round dir> <id, e.g. y1>: evaluates out_<id>/R1..R4 and keeps each as refactors/<id>-Rk
R="$1"; I="$2"
cd /verif
for k in 1 2 3 4; do
  d="$R/out_$I/R$k"
  [ -f "$d/patch.diff" ] || { echo "$I-R$k: no patch"; continue; }
  ( python3 refactors/eval_refactor.py "$d" --keep "$I-R$k" > "$R/evalr_${I}_R$k.json" 2>&1
  python3 - "$R/evalr_${I}_R$k.json" "$I-R$k" <<'PY'
import sys,json
t=open(sys.argv[1]).read()
try:
    r=json.loads(t[t.index("{"):t.rindex("}")+1])
    print(sys.argv[2], "SILENT" if r.get("silent") else "ALARM", "valid=%s"%bool(r.get("applies") and r.get("builds") and r.get("suite_passes")), ",".join(r.get("checks_fired") or []), r.get("check_errors") or "")
    if not r.get("silent"):
        for l in (r.get("first_reports") or [])[:4]: print("     ", l[:330])
except Exception as e:
    print(sys.argv[2], "EVAL-ERROR", t[-300:])
PY
  ) &
done
wait
