#!/bin/sh
# MANIFEST.setup_cmd: build the analyser offline from files under /verif only.
set -e
cd "$(dirname "$0")"
./build.sh
mkdir -p evidence
echo "setup ok: $(ls -la bin/fpcheck | awk '{print $5}') bytes"
