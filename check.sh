#!/bin/sh
# ./check.sh <property> [quick|thorough]   |   ./check.sh --replay <violation file>
# Analyses /repo's current working tree statically; exit 0 held, 1 violation, 2 check could not run.
cd "$(dirname "$0")"
[ -x bin/fpcheck ] || ./build.sh || exit 2
REPO="${FPCHECK_REPO:-/repo}"
# evidence/<id>.json describes /repo only: a run against another tree (a scratch copy with a seeded change, say)
# writes its evidence and violation files elsewhere
EV=""
if [ "$REPO" != "/repo" ]; then
  EV="-evidence ${TMPDIR:-/tmp}/fpcheck-evidence-scratch"
fi
if [ "$1" = "--replay" ]; then
  exec ./bin/fpcheck -repo "$REPO" -verif "$(pwd)" $EV -replay "$2"
fi
TIER="${2:-${VERIF_TIER:-quick}}"
if [ "$TIER" = "thorough" ]; then
  # canaries: each rule of the property must fire on the mutants of mutants/corpus.py that break it
  CAN="$(mktemp "${TMPDIR:-/tmp}/fpcanary.XXXXXX")"
  FPCHECK_REPO="$REPO" python3 selftest.py --canary "$1" "$CAN" >/dev/null 2>&1 || echo '[]' > "$CAN"
  ./bin/fpcheck -repo "$REPO" -verif "$(pwd)" $EV -property "$1" -tier thorough -canary "$CAN"
  rc=$?
  rm -f "$CAN"
  exit $rc
fi
exec ./bin/fpcheck -repo "$REPO" -verif "$(pwd)" $EV -property "$1" -tier "$TIER"
