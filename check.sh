#!/bin/sh
# ./check.sh <property> [quick|thorough]   |   ./check.sh --replay <violation file>
# Analyses /repo's current working tree statically; exit 0 held, 1 violation, 2 check could not run.
cd "$(dirname "$0")"
[ -x bin/fpcheck ] || ./build.sh || exit 2
REPO="${FPCHECK_REPO:-/repo}"
if [ "$1" = "--replay" ]; then
  exec ./bin/fpcheck -repo "$REPO" -verif "$(pwd)" -replay "$2"
fi
exec ./bin/fpcheck -repo "$REPO" -verif "$(pwd)" -property "$1" -tier "${2:-${VERIF_TIER:-quick}}"
