package main

import (
	"go/token"
	"fmt"
	"go/types"
	"sort"
	"strings"

	"golang.org/x/tools/go/callgraph"
	"golang.org/x/tools/go/callgraph/cha"
	"golang.org/x/tools/go/callgraph/vta"
	"golang.org/x/tools/go/ssa"
)

// ---------------------------------------------------------------------------
// C19 – lockset / critical sections of the checksum registry

type guardedState struct {
	Struct   *types.Named
	MuField  int
	MapField int
	MuName   string
	MapName  string
	// copy-on-write variant: the map is immutable and published through a sync/atomic.Pointer field; the mutex
	// serialises writers only
	COW bool
}

// findGuarded: struct types of the module that pair a sync mutex with a map.
func (a *Analysis) findGuarded() []*guardedState {
	var out []*guardedState
	for _, pk := range a.P.Pkgs {
		scope := pk.Types.Scope()
		for _, n := range scope.Names() {
			tn, ok := scope.Lookup(n).(*types.TypeName)
			if !ok {
				continue
			}
			named, ok := tn.Type().(*types.Named)
			if !ok {
				continue
			}
			st, ok := named.Underlying().(*types.Struct)
			if !ok {
				continue
			}
			g := &guardedState{Struct: named, MuField: -1, MapField: -1}
			for i := 0; i < st.NumFields(); i++ {
				ft := st.Field(i).Type()
				if s := types.TypeString(ft, nil); s == "sync.RWMutex" || s == "sync.Mutex" {
					g.MuField, g.MuName = i, st.Field(i).Name()
				}
				if _, ok := ft.Underlying().(*types.Map); ok {
					g.MapField, g.MapName = i, st.Field(i).Name()
				}
				if strings.HasPrefix(types.TypeString(ft, nil), "sync/atomic.Pointer[map[") && g.MapField < 0 {
					g.MapField, g.MapName, g.COW = i, st.Field(i).Name(), true
				}
			}
			if g.MuField >= 0 && g.MapField >= 0 {
				out = append(out, g)
			}
		}
	}
	return out
}

// fieldOfStruct: v is (the address of / the content of) field idx of a struct of type named; returns the base object key.
func fieldBase(v *Val, named *types.Named, idx int) (string, bool) {
	v = stripCT(v)
	if v == nil {
		return "", false
	}
	if v.Op == "init" {
		v = v.Args[0]
	}
	if v.Op != "field" || v.ID != idx {
		return "", false
	}
	base := v.Args[0]
	if base.Type != nil {
		if p, ok := base.Type.Underlying().(*types.Pointer); ok {
			if n, ok := p.Elem().(*types.Named); ok && n == named {
				return base.Key(), true
			}
		}
	}
	return "", false
}

func (a *Analysis) CheckC19(rep *Report) {
	rep.Explanation = "Protected state: the map field of the registry struct; lock: the RWMutex field of the same struct value. For every function of the module that touches the map (found through all FieldAddr instructions on that field; entry points analysed with their helpers inlined) and for every path: Q1 each access happens while the mutex of the same base object is held – exclusively for writes (map update, delete, replacing the map), at least shared for reads (lookup, len, range); Q2 every acquisition is released on every exit by the matching method; Q3 all accesses of one operation lie in a single critical section (the exists-check and the insert of a registration are one section); Q4 the map value never leaves a section (returned, stored elsewhere); Q5 the registry pointer is assigned only by its initialiser and neither the struct nor its mutex is ever copied. One RWMutex, every operation one critical section, writers exclusive => data-race-free and linearizable (linearisation point inside the section) for any number of goroutines and any interleaving. Should the registry be re-spelt as copy-on-write (an immutable map behind a sync/atomic.Pointer field, the mutex serialising writers only), the rules for that discipline apply instead: W1 the pointer is replaced only under the writers' mutex of the same object and only by a map made by the operation itself; W2 a table obtained from the pointer is never written; W3 load, check and publish of a writer are one critical section; W4 nothing is written after publication; R1 an operation outside the mutex looks at a single snapshot; Q2/Q4/Q5 as above (linearisation points: the atomic Store of a writer, the atomic Load of a reader)."
	rep.Trusted = append(trustedBase(), "sync.RWMutex gives mutual exclusion / shared access as documented", "Algorithm() of a registered service is a pure method")
	rep.Exhaustive = true
	gs := a.findGuarded()
	rep.Floor("guarded_structs", len(gs), 1)
	naccess, nfuncs := 0, 0
	for _, g := range gs {
		// functions that touch the map field
		touch := map[*ssa.Function]bool{}
		for fn := range a.P.AllFuncs {
			if !a.P.InModule(fn) || fn.Blocks == nil || a.P.IsTestFile(fn.Pos()) {
				continue
			}
			for _, b := range fn.Blocks {
				for _, in := range b.Instrs {
					switch in := in.(type) {
					case *ssa.FieldAddr:
						if pt, ok := in.X.Type().Underlying().(*types.Pointer); ok {
							if n, ok := pt.Elem().(*types.Named); ok && n == g.Struct && in.Field == g.MapField {
								touch[fn] = true
								if g.COW {
									// the atomic variable is used only as the receiver of its own methods (never copied, its
									// address never kept)
									for _, ref := range *in.Referrers() {
										okUse := false
										if c, isCall := ref.(ssa.CallInstruction); isCall {
											if callee := c.Common().StaticCallee(); callee != nil && len(c.Common().Args) > 0 && c.Common().Args[0] == ssa.Value(in) && strings.HasPrefix(fullName(callee), "(*sync/atomic.Pointer[") {
												okUse = true
											}
										}
										if _, isDbg := ref.(*ssa.DebugRef); isDbg {
											okUse = true
										}
										rep.Ob("Q5-no-copy", FuncName(fn)+":atomic", okUse, a.P.Pos(in.Pos()), "the atomic pointer of the registry is used other than through its own methods (copied, or its address kept)")
									}
								}
							}
						}
					case *ssa.UnOp:
						// Q5: copying the struct or its mutex
						if n, ok := in.Type().(*types.Named); ok && in.Op.String() == "*" {
							if n == g.Struct {
								rep.Ob("Q5-no-copy", FuncName(fn)+":struct", false, a.P.Pos(in.Pos()), "the registry struct (with its mutex) is copied")
							}
						}
						if s := types.TypeString(in.Type(), nil); (s == "sync.RWMutex" || s == "sync.Mutex") && a.P.InModule(fn) {
							rep.Ob("Q5-no-copy", FuncName(fn)+":mutex", false, a.P.Pos(in.Pos()), "a mutex value is copied")
						}
					}
				}
			}
		}
		// entry points: touching functions without static in-module callers that also touch (helpers are covered through inlining)
		callers := map[*ssa.Function][]*ssa.Function{}
		for fn := range a.P.AllFuncs {
			if !a.P.InModule(fn) || fn.Blocks == nil || a.P.IsTestFile(fn.Pos()) {
				continue
			}
			for _, b := range fn.Blocks {
				for _, in := range b.Instrs {
					if c, ok := in.(ssa.CallInstruction); ok {
						if callee := c.Common().StaticCallee(); callee != nil && touch[callee] {
							callers[callee] = append(callers[callee], fn)
						}
					}
				}
			}
		}
		// entry points: climb from each touching function to the exported (or uncalled) functions through which it is reached
		allCallers := map[*ssa.Function][]*ssa.Function{}
		for fn := range a.P.AllFuncs {
			if !a.P.InModule(fn) || fn.Blocks == nil || a.P.IsTestFile(fn.Pos()) {
				continue
			}
			for _, b := range fn.Blocks {
				for _, in := range b.Instrs {
					if c, ok := in.(ssa.CallInstruction); ok {
						if callee := c.Common().StaticCallee(); callee != nil && a.P.InModule(callee) {
							allCallers[callee] = append(allCallers[callee], fn)
						}
					}
				}
			}
		}
		var roots []*ssa.Function
		visited := map[*ssa.Function]bool{}
		var climb func(fn *ssa.Function)
		climb = func(fn *ssa.Function) {
			if visited[fn] {
				return
			}
			visited[fn] = true
			if fn.Parent() != nil {
				// a function literal (e.g. the body handed to a withLock helper) runs as part of the function it is written in
				climb(fn.Parent())
				return
			}
			exported := fn.Object() != nil && fn.Object().Exported() && fn.Signature.Recv() == nil
			if exported || len(allCallers[fn]) == 0 || isInitFunc(fn) {
				if !isInitFunc(fn) {
					roots = append(roots, fn)
				}
				return
			}
			for _, c := range allCallers[fn] {
				climb(c)
			}
		}
		for fn := range touch {
			climb(fn)
		}
		sort.Slice(roots, func(i, j int) bool { return roots[i].String() < roots[j].String() })
		seen := map[*ssa.Function]bool{}
		for _, fn := range roots {
			if seen[fn] {
				continue
			}
			seen[fn] = true
			nfuncs++
			name := FuncName(fn)
			paths, err := a.engineFor(fn).AnalyzeRoot(fn, nil)
			if !rep.Ob("Q0-analysable", name, err == nil, a.P.Pos(fn.Pos()), fmt.Sprint(err)) {
				continue
			}
			for _, p := range paths {
				if g.COW {
					naccess += a.cowDiscipline(rep, g, name, fn, p)
				} else {
					naccess += a.lockDiscipline(rep, g, name, fn, p)
				}
			}
		}
		for fn := range touch {
			if !seen[fn] {
				rep.Notes = append(rep.Notes, "helper "+FuncName(fn)+" is analysed through its callers")
			}
		}
		rep.Sample(map[string]interface{}{"struct": g.Struct.Obj().Name(), "mutex": g.MuName, "map": g.MapName, "operations": len(seen)})
	}
	// Q5: the registry pointer(s)
	s := a.newSafety()
	for _, pk := range a.P.Pkgs {
		sp := a.P.SSAPkgs[pk.PkgPath]
		for _, m := range sp.Members {
			gl, ok := m.(*ssa.Global)
			if !ok {
				continue
			}
			for _, g := range gs {
				if pt, ok := gl.Type().(*types.Pointer).Elem().Underlying().(*types.Pointer); ok {
					if n, ok := pt.Elem().(*types.Named); ok && n == g.Struct {
						rep.Ob("Q5-pointer-assigned-once", gl.Name(), s.globalsNonNil[gl], a.P.Pos(gl.Pos()), "the registry pointer is assigned outside its initialiser (operations could lock one object and touch another)")
					}
				}
			}
		}
	}
	rep.Counts["map_accesses_on_paths"] = naccess
	rep.Counts["operations"] = nfuncs
	rep.Floor("operations", nfuncs, 4)
	rep.Floor("map_accesses_on_paths", naccess, 6)
}

// lockDiscipline walks one path with a lock-state machine; returns the number of accesses seen.
func (a *Analysis) lockDiscipline(rep *Report, g *guardedState, name string, fn *ssa.Function, p *Path) int {
	// the ways through the path: an ALT (the outcomes of an inlined callee that differ in nothing the caller sees – a
	// `put` that returns early when the entry exists and stores otherwise) is one of its arms, not all of them in a row
	type lin struct {
		events []*Event
		inLoop map[*Event]bool
	}
	lins := []lin{{nil, map[*Event]bool{}}}
	var expand func(evs []*Event, loop bool)
	expand = func(evs []*Event, loop bool) {
		for _, e := range evs {
			if e.Kind == EvAlt && len(e.Iter) > 1 && len(lins)*len(e.Iter) <= 64 {
				base := lins
				var out []lin
				for _, arm := range e.Iter {
					lins = nil
					for _, b := range base {
						il := map[*Event]bool{}
						for k, v := range b.inLoop {
							il[k] = v
						}
						lins = append(lins, lin{append(append([]*Event{}, b.events...), e), il})
					}
					for i := range lins {
						lins[i].inLoop[e] = loop
					}
					expand(arm.Events, loop)
					out = append(out, lins...)
				}
				lins = out
				continue
			}
			for i := range lins {
				lins[i].events = append(lins[i].events, e)
				lins[i].inLoop[e] = loop
			}
			for _, arm := range e.Iter {
				expand(arm.Events, loop || e.Kind == EvRep)
			}
		}
	}
	expand(p.Events, false)
	n := 0
	for _, l := range lins {
		if k := a.lockDisciplineLin(rep, g, name, fn, p, l.events, l.inLoop); k > n {
			n = k
		}
	}
	return n
}

func (a *Analysis) lockDisciplineLin(rep *Report, g *guardedState, name string, fn *ssa.Function, p *Path, events []*Event, inLoop map[*Event]bool) int {
	held := map[string]string{} // mutex base -> "W" | "R"
	sections := 0               // critical sections that contained an access
	curHasAccess := false
	n := 0
	pos := a.P.Pos(fn.Pos())
	mapVals := func(v *Val) bool { // v is the map itself (not an element)
		_, ok := fieldBase(v, g.Struct, g.MapField)
		return ok && stripCT(v).Op == "init"
	}
	access := func(e *Event, base string, write bool, what string) {
		n++
		h := held[base]
		ok := h == "W" || (!write && h == "R")
		need := "the lock"
		if write {
			need = "the exclusive lock"
		}
		rep.Ob("Q1-access-under-lock", name+":"+what, ok, a.P.Pos(e.Pos), fmt.Sprintf("%s of the registry map without holding %s of the same object (held: %q)", what, need, h))
		if ok {
			if !curHasAccess {
				sections++
				curHasAccess = true
			}
		} else {
			sections++ // an unprotected access is its own "section"
		}
	}
	// Q7: an operation names one entry: the key it looks up is the key it inserts or deletes (the same expression – two
	// calls of the service's Algorithm() count as the same, C14 H0 has them constant). A check made under one spelling
	// of the name and an insert under another lets two registrations of one name both succeed.
	firstKey, firstKeyAt := "", ""
	keyed := func(e *Event) {
		if len(e.Args) == 0 || e.Args[0] == nil || (e.Mode != "lookup" && e.Mode != "update" && e.Mode != "delete" && e.Mode != "index") {
			return
		}
		k := stableKey(stripCT(e.Args[0]).Pretty())
		if firstKey == "" {
			firstKey, firstKeyAt = k, a.P.Pos(e.Pos)
			return
		}
		rep.Ob("Q7-one-key-per-operation", name+":"+e.Mode, k == firstKey, a.P.Pos(e.Pos), "the operation accesses the registry under "+k+" here and under "+firstKey+" at "+firstKeyAt+": what it checks is not what it changes")
	}
	extraWritten := false
	for _, e := range events {
		switch e.Kind {
		case EvLock:
			base, ok := fieldBase(e.Recv, g.Struct, g.MuField)
			if !ok {
				continue
			}
			private := false // a registry object made on this path: nobody else can see it yet (a constructor filling it)
			if r := addrRoot(stripCT(e.Recv)); r != nil && r.Op == "alloc" {
				private = true
			}
			if inLoop[e] && !private && (e.Mode == "Lock" || e.Mode == "RLock") {
				// a section per iteration (one lock per partition, say): the operation as a whole is not one atomic step
				rep.Ob("Q3-single-critical-section", name+":loop", false, a.P.Pos(e.Pos), "the mutex is taken inside a loop: the operation consists of one critical section per iteration, and other operations can run between them")
			}
			switch e.Mode {
			case "Lock":
				rep.Ob("Q2-balanced", name+":Lock", held[base] == "", a.P.Pos(e.Pos), "Lock while already holding the mutex (self-deadlock)")
				held[base] = "W"
				curHasAccess = false
			case "RLock":
				rep.Ob("Q2-balanced", name+":RLock", held[base] == "", a.P.Pos(e.Pos), "RLock while already holding the mutex")
				held[base] = "R"
				curHasAccess = false
			case "Unlock":
				rep.Ob("Q2-balanced", name+":Unlock", held[base] == "W", a.P.Pos(e.Pos), fmt.Sprintf("Unlock without a matching Lock (held: %q)", held[base]))
				delete(held, base)
			case "RUnlock":
				rep.Ob("Q2-balanced", name+":RUnlock", held[base] == "R", a.P.Pos(e.Pos), fmt.Sprintf("RUnlock without a matching RLock (held: %q)", held[base]))
				delete(held, base)
			default:
				rep.Ob("Q2-balanced", name+":"+e.Mode, false, a.P.Pos(e.Pos), "conditional lock acquisition "+e.Mode+" is outside the discipline")
			}
		case EvAtomic:
			// a second piece of registry state beside the guarded map (a look-up memo, a version word …): what an
			// operation answers then depends on two things that are not updated together
			if e.Mode != "Once.Do" {
				rep.Ob("Q6-no-state-beside-the-map", name+":"+e.Mode, false, a.P.Pos(e.Pos), "the operation "+e.Mode+"s an atomic word ("+valOrNil(e.Recv)+") beside the mutex-guarded map: the map and the word are not changed in one step, so a look-up can answer from a state no sequential order produces")
			}
		case EvMapRead:
			if base, ok := fieldBase(e.Recv, g.Struct, g.MapField); ok {
				access(e, base, false, "read("+e.Mode+")")
				keyed(e)
			}
		case EvMapWrite:
			if base, ok := fieldBase(e.Recv, g.Struct, g.MapField); ok {
				access(e, base, true, "write("+e.Mode+")")
				keyed(e)
			}
		case EvCall:
			// a concurrent container or pool of package sync / sync/atomic used by a registry operation (a sync.Map of
			// recently looked-up services, say) is a second piece of registry state, exactly like an atomic word
			if why := syncStateCall(e); why != "" {
				// A side table is consistent with the map exactly when every change of it is made in the critical section
				// that reads or changes the map entry it mirrors: entries are added while at least the shared lock is held
				// (no writer can come between the map read and the fill), and taken out only under the exclusive lock.
				// Reading it needs no lock (a hit is an entry the map held when it was filled and that no completed
				// removal has taken out).
				mode := ""
				for _, h := range held {
					if h == "W" || mode == "" {
						mode = h
					}
				}
				okCall := false
				switch e.Callee.Name() {
				case "Load", "Range":
					okCall = strings.Contains(why, "sync.Map")
				case "Store", "LoadOrStore", "Swap", "CompareAndSwap":
					okCall = strings.Contains(why, "sync.Map") && mode != ""
				case "Delete", "LoadAndDelete", "Clear", "CompareAndDelete":
					okCall = strings.Contains(why, "sync.Map") && mode == "W"
				}
				rep.Ob("Q6-no-state-beside-the-map", name+":"+why, okCall, a.P.Pos(e.Pos), fmt.Sprintf("the operation calls %s (lock held: %q) – registry state beside the mutex-guarded map that is not changed in the same critical section as the map: a look-up can answer from a state no sequential order produces", why, mode))
			}
		case EvStore:
			if base, ok := fieldBase(e.Dst, g.Struct, g.MapField); ok && stripCT(e.Dst).Op == "field" {
				access(e, base, true, "replace-map")
			}
			// any other field of the registry object written by an operation is shared state too: only under the exclusive lock
			if fb, fname, ok := otherRegistryField(e.Dst, g); ok {
				h := held[fb]
				rep.Ob("Q6-no-state-beside-the-map", name+":store:"+fname, h == "W", a.P.Pos(e.Pos), fmt.Sprintf("the operation writes the registry field %s without holding the exclusive lock of the same object (held: %q)", fname, h))
				extraWritten = true
			}
			if e.Src != nil && mapEscapes(e.Src, mapVals) {
				if _, own := fieldBase(e.Dst, g.Struct, g.MapField); !own {
					rep.Ob("Q4-map-does-not-escape", name+":store", false, a.P.Pos(e.Pos), "the registry map itself is stored into "+e.Dst.Pretty())
				}
			}
		}
	}
	for i, r := range p.Ret {
		if mapEscapes(r, mapVals) {
			rep.Ob("Q4-map-does-not-escape", fmt.Sprintf("%s:ret%d", name, i), false, pos, "the registry map itself is returned: callers can touch it without the lock")
		}
	}
	// a mutable field beside the map that an operation consults (a "last hit" kept in plain fields): every mention must
	// lie inside the critical section, i.e. the path does nothing before it takes the lock
	if fname := a.mentionsMutableRegistryField(p, g); fname != "" || extraWritten {
		first := ""
		for _, e := range events {
			if e.Kind == EvPanicSite || e.Kind == EvLoadGlobal {
				continue
			}
			if e.Kind == EvLock {
				if _, ok := fieldBase(e.Recv, g.Struct, g.MuField); ok && (e.Mode == "Lock" || e.Mode == "RLock") {
					first = "lock"
				}
			}
			break
		}
		if fname != "" {
			rep.Ob("Q6-no-state-beside-the-map", name+":reads:"+fname, first == "lock", pos, "the operation consults the registry field "+fname+", which operations also write, and does not take the lock first: it can see that field and the map in a combination no sequential order produces")
		}
	}
	if !p.Panic {
		var still []string
		for b, h := range held {
			still = append(still, h+" on "+b)
		}
		rep.Ob("Q2-released-on-exit", name, len(held) == 0, pos, "function can return while still holding "+strings.Join(still, ", "))
	}
	if n > 0 {
		rep.Ob("Q3-single-critical-section", name, sections <= 1, pos, fmt.Sprintf("the accesses of one operation are spread over %d critical sections: another goroutine can interleave between them (check-then-act)", sections))
	}
	return n
}

// cowDiscipline walks one path of an operation on a copy-on-write registry: the table is an immutable map behind an
// atomic pointer. W1 the pointer is replaced only while the writers' mutex of the same object is held exclusively (or
// on an object made on this path, which nobody else can see yet), and what is published is a map made on this path;
// W2 a map obtained from the pointer is never written; W3 an operation that publishes decides on a table it loaded
// inside the same critical section (load, check and publish are one section); W4 a map is not written after it was
// published; R1 an operation that does not hold the mutex looks at one snapshot only (a single Load); Q2 locks are
// balanced and released; Q4 neither the pointer's target nor a loaded table leaves the operation other than by Store.
func (a *Analysis) cowDiscipline(rep *Report, g *guardedState, name string, fn *ssa.Function, p *Path) int {
	held := map[string]string{}
	n, sections, loadsOutside, publishes := 0, 0, 0, 0
	curHasAccess := false
	pos := a.P.Pos(fn.Pos())
	tableOf := func(v *Val) (string, bool) { // v is the address of the atomic field
		v = stripCT(v)
		if v == nil || v.Op != "field" {
			return "", false
		}
		return fieldBase(v, g.Struct, g.MapField)
	}
	fromTable := func(v *Val) bool { // v derives from a Load of the table
		return v != nil && v.Contains(func(x *Val) bool {
			if x.Op != "atomicload" || len(x.Args) == 0 {
				return false
			}
			_, ok := tableOf(x.Args[0])
			return ok
		})
	}
	loadedMap := func(v *Val) bool { // the published map itself (or the pointer to it), not an element
		v = stripCT(v)
		if v == nil {
			return false
		}
		if v.Op == "init" && len(v.Args) == 1 {
			v = stripCT(v.Args[0])
		}
		if v.Op != "atomicload" || len(v.Args) == 0 {
			return false
		}
		_, ok := tableOf(v.Args[0])
		return ok
	}
	inSection := func(base string) {
		if held[base] != "" {
			if !curHasAccess {
				sections++
				curHasAccess = true
			}
		}
	}
	published := map[string]bool{}
	var events []*Event
	walkEvents(p.Events, func(e *Event, _ int) { events = append(events, e) })
	for _, e := range events {
		switch e.Kind {
		case EvLock:
			base, ok := fieldBase(e.Recv, g.Struct, g.MuField)
			if !ok {
				continue
			}
			switch e.Mode {
			case "Lock":
				rep.Ob("Q2-balanced", name+":Lock", held[base] == "", a.P.Pos(e.Pos), "Lock while already holding the mutex (self-deadlock)")
				held[base] = "W"
				curHasAccess = false
			case "RLock":
				rep.Ob("Q2-balanced", name+":RLock", held[base] == "", a.P.Pos(e.Pos), "RLock while already holding the mutex")
				held[base] = "R"
				curHasAccess = false
			case "Unlock":
				rep.Ob("Q2-balanced", name+":Unlock", held[base] == "W", a.P.Pos(e.Pos), fmt.Sprintf("Unlock without a matching Lock (held: %q)", held[base]))
				delete(held, base)
			case "RUnlock":
				rep.Ob("Q2-balanced", name+":RUnlock", held[base] == "R", a.P.Pos(e.Pos), fmt.Sprintf("RUnlock without a matching RLock (held: %q)", held[base]))
				delete(held, base)
			default:
				rep.Ob("Q2-balanced", name+":"+e.Mode, false, a.P.Pos(e.Pos), "conditional lock acquisition "+e.Mode+" is outside the discipline")
			}
		case EvAtomic:
			base, ok := tableOf(e.Recv)
			if !ok {
				continue
			}
			n++
			private := false // the registry object itself was made on this path
			if r := addrRoot(stripCT(e.Recv)); r != nil && r.Op == "alloc" {
				private = true
			}
			if e.Mode == "Load" {
				if held[base] == "" && !private {
					loadsOutside++
				}
				inSection(base)
				rep.Ob("W1-table-read-atomically", name+":Load", true, "", "")
				continue
			}
			publishes++
			rep.Ob("W1-publish-under-writer-lock", name+":"+e.Mode, held[base] == "W" || private, a.P.Pos(e.Pos),
				fmt.Sprintf("the table is replaced without holding the writers' mutex of the same object exclusively (held: %q): two writers can each publish a copy that lacks the other's update", held[base]))
			inSection(base)
			// what is published: the address of a variable of this path holding a map made on this path
			fresh := false
			var mk *Val
			if src := stripCT(e.Src); src != nil && src.Op == "alloc" {
				if me, has := p.Mem[src.Key()]; has {
					if m := stripCT(me.V); m != nil && m.Op == "makemap" {
						fresh, mk = true, m
					}
				}
			}
			rep.Ob("W1-publishes-private-copy", name+":"+e.Mode, fresh, a.P.Pos(e.Pos), "what is published is not a map made by this operation (a table others may still hold, or hold later, would be shared mutable state): "+valOrNil(e.Src))
			if mk != nil {
				published[mk.Key()] = true
			}
		case EvMapRead:
			if fromTable(e.Recv) {
				n++
			}
		case EvMapWrite:
			if fromTable(e.Recv) {
				n++
				rep.Ob("W2-published-table-immutable", name+":write("+e.Mode+")", false, a.P.Pos(e.Pos), "a table obtained from the atomic pointer is written in place: readers index it without any lock")
			} else if r := stripCT(e.Recv); r != nil && published[r.Key()] {
				rep.Ob("W4-no-write-after-publication", name+":write("+e.Mode+")", false, a.P.Pos(e.Pos), "the map is written after it has been published")
			} else {
				rep.Ob("W2-published-table-immutable", name+":write("+e.Mode+")", true, "", "")
			}
		case EvStore:
			if e.Src != nil && mapEscapes(e.Src, loadedMap) {
				rep.Ob("Q4-map-does-not-escape", name+":store", false, a.P.Pos(e.Pos), "a published table is stored into "+e.Dst.Pretty()+": it can then be written behind the readers' back")
			}
		}
	}
	for i, r := range p.Ret {
		if mapEscapes(r, loadedMap) {
			rep.Ob("Q4-map-does-not-escape", fmt.Sprintf("%s:ret%d", name, i), false, pos, "a published table is returned: callers can write it while readers index it")
		}
	}
	if !p.Panic {
		var still []string
		for b, h := range held {
			still = append(still, h+" on "+b)
		}
		rep.Ob("Q2-released-on-exit", name, len(held) == 0, pos, "function can return while still holding "+strings.Join(still, ", "))
	}
	if n > 0 {
		rep.Ob("R1-one-snapshot-per-operation", name, loadsOutside <= 1, pos, fmt.Sprintf("the operation loads the table %d times without holding the writers' mutex: its answer can mix two different states", loadsOutside))
		rep.Ob("Q3-single-critical-section", name, sections <= 1, pos, fmt.Sprintf("the table accesses of one operation are spread over %d critical sections: another writer can publish in between (check-then-act)", sections))
		if publishes > 0 {
			rep.Ob("W3-decides-on-the-table-it-replaces", name, loadsOutside == 0, pos, "the operation publishes a table derived from a snapshot it loaded outside the writers' critical section: an update published in between is lost")
		}
	}
	return n
}

// ---------------------------------------------------------------------------
// C20 – no hidden shared mutable state

// derivedFromGlobal computes, per function, the SSA values that point into memory reachable from a package-level variable.
func globalDerived(fn *ssa.Function, inModule func(*ssa.Global) bool) map[ssa.Value]*ssa.Global {
	return globalDerivedWith(fn, inModule, nil)
}

// globalDerivedWith: as globalDerived; the result of a call of a function in retDerived (a module function that hands
// out memory reachable from a package-level variable: `return table[:n]`) is derived from that variable too.
func globalDerivedWith(fn *ssa.Function, inModule func(*ssa.Global) bool, retDerived map[*ssa.Function]*ssa.Global) map[ssa.Value]*ssa.Global {
	d, _ := globalDerivedHolds(fn, inModule, retDerived)
	return d
}

// carriesRefs: a record or array value (not itself a reference) that contains references: copying it copies the
// references, not what they point to (`l := blankPadded` shares blankPadded.pad's array).
func carriesRefs(t types.Type) bool {
	switch u := t.Underlying().(type) {
	case *types.Struct:
		for i := 0; i < u.NumFields(); i++ {
			if isRefType(u.Field(i).Type()) || carriesRefs(u.Field(i).Type()) {
				return true
			}
		}
	case *types.Array:
		return isRefType(u.Elem()) || carriesRefs(u.Elem())
	}
	return false
}

// globalDerivedHolds: d as globalDerivedWith; holds are addresses of *local* memory (a local variable, a field or element
// of one) into which references derived from a package-level variable were stored – a copy of a package-level record
// that has a slice, map or pointer field. Writing that local memory is harmless; writing through a reference loaded
// from it writes the package-level variable's memory.
func globalDerivedHolds(fn *ssa.Function, inModule func(*ssa.Global) bool, retDerived map[*ssa.Function]*ssa.Global) (map[ssa.Value]*ssa.Global, map[ssa.Value]*ssa.Global) {
	d := map[ssa.Value]*ssa.Global{}
	carrier := map[ssa.Value]*ssa.Global{}
	holds := map[ssa.Value]*ssa.Global{}
	changed := true
	localRoot := func(v ssa.Value) ssa.Value {
		for {
			switch x := v.(type) {
			case *ssa.Alloc:
				return x
			case *ssa.FieldAddr:
				v = x.X
			case *ssa.IndexAddr:
				if _, isPtr := x.X.Type().Underlying().(*types.Pointer); !isPtr {
					return nil
				}
				v = x.X
			default:
				return nil
			}
		}
	}
	for changed {
		changed = false
		set := func(v ssa.Value, g *ssa.Global) {
			if _, ok := d[v]; !ok && g != nil {
				d[v] = g
				changed = true
			}
		}
		setIn := func(m map[ssa.Value]*ssa.Global, v ssa.Value, g *ssa.Global) {
			if _, ok := m[v]; !ok && g != nil {
				m[v] = g
				changed = true
			}
		}
		for _, b := range fn.Blocks {
			for _, in := range b.Instrs {
				switch in := in.(type) {
				case *ssa.Store:
					g, ok := d[in.Val]
					if !ok {
						g, ok = carrier[in.Val]
					}
					if ok {
						if _, already := d[in.Addr]; !already {
							if root := localRoot(in.Addr); root != nil {
								setIn(holds, root, g)
								setIn(holds, in.Addr, g)
							}
						}
					}
				case *ssa.Field:
					if g, ok := carrier[in.X]; ok {
						if isRefType(in.Type()) {
							set(in, g)
						} else if carriesRefs(in.Type()) {
							setIn(carrier, in, g)
						}
					}
				case *ssa.UnOp:
					if in.Op.String() == "*" {
						if g, ok := in.X.(*ssa.Global); ok && inModule(g) {
							if isRefType(in.Type()) {
								set(in, g)
							} else if carriesRefs(in.Type()) {
								setIn(carrier, in, g)
							}
						} else if g, ok := d[in.X]; ok {
							if isRefType(in.Type()) {
								set(in, g)
							} else if carriesRefs(in.Type()) {
								setIn(carrier, in, g)
							}
						} else if g, ok := holds[in.X]; ok {
							if isRefType(in.Type()) {
								set(in, g)
							} else if carriesRefs(in.Type()) {
								setIn(carrier, in, g)
							}
						}
					}
				case *ssa.FieldAddr:
					if g, ok := in.X.(*ssa.Global); ok && inModule(g) {
						set(in, g)
					} else if g, ok := d[in.X]; ok {
						set(in, g)
					} else if g, ok := holds[in.X]; ok {
						setIn(holds, in, g)
					}
				case *ssa.IndexAddr:
					if g, ok := in.X.(*ssa.Global); ok && inModule(g) {
						set(in, g)
					} else if g, ok := d[in.X]; ok {
						set(in, g)
					} else if g, ok := holds[in.X]; ok {
						setIn(holds, in, g)
					}
				case *ssa.Slice:
					if g, ok := in.X.(*ssa.Global); ok && inModule(g) {
						set(in, g)
					} else if g, ok := d[in.X]; ok {
						set(in, g)
					}
				case *ssa.Phi:
					for _, e := range in.Edges {
						if g, ok := d[e]; ok {
							set(in, g)
						}
					}
				case *ssa.ChangeType:
					if g, ok := d[in.X]; ok {
						set(in, g)
					}
				case *ssa.Lookup:
					if g, ok := d[in.X]; ok && isRefType(in.Type()) {
						set(in, g)
					}
				case *ssa.Extract:
					if g, ok := d[in.Tuple]; ok && isRefType(in.Type()) {
						set(in, g)
					}
				case *ssa.Call:
					if callee := in.Call.StaticCallee(); callee != nil && retDerived != nil {
						if g, ok := retDerived[callee]; ok && isRefType(in.Type()) {
							set(in, g)
						}
					}
				}
			}
		}
	}
	return d, holds
}

// returnsGlobalDerived: the module functions some result of which points into memory reachable from a package-level
// variable (fixpoint over calls of such functions).
func (a *Analysis) returnsGlobalDerived(inModule func(*ssa.Global) bool) map[*ssa.Function]*ssa.Global {
	out := map[*ssa.Function]*ssa.Global{}
	for changed := true; changed; {
		changed = false
		for fn := range a.P.AllFuncs {
			if !a.P.InModule(fn) || fn.Blocks == nil || a.P.IsTestFile(fn.Pos()) || out[fn] != nil {
				continue
			}
			d := globalDerivedWith(fn, inModule, out)
			if len(d) == 0 {
				continue
			}
			for _, b := range fn.Blocks {
				for _, in := range b.Instrs {
					ret, ok := in.(*ssa.Return)
					if !ok {
						continue
					}
					for _, r := range ret.Results {
						if g, has := d[r]; has && out[fn] == nil {
							out[fn] = g
							changed = true
						}
					}
				}
			}
		}
	}
	return out
}

func isRefType(t types.Type) bool {
	switch u := t.Underlying().(type) {
	case *types.Pointer, *types.Map, *types.Slice, *types.Chan:
		return true
	case *types.Tuple:
		for i := 0; i < u.Len(); i++ {
			if isRefType(u.At(i).Type()) {
				return true
			}
		}
	}
	return false
}

type globalWrite struct {
	g    *ssa.Global
	fn   *ssa.Function
	in   ssa.Instruction
	what string
}

// isTableShape: an array or slice of numbers (a lookup table), not a buffer, message or pool.
func isTableShape(t types.Type) bool {
	var el types.Type
	switch u := t.Underlying().(type) {
	case *types.Array:
		el = u.Elem()
	case *types.Slice:
		el = u.Elem()
	default:
		return false
	}
	b, ok := el.Underlying().(*types.Basic)
	return ok && b.Info()&types.IsNumeric != 0
}

// onlyIndexedForReading: outside start-up code every use of the package-level variable g is an element read
// (g[i] as a value) or len(g).
func (a *Analysis) onlyIndexedForReading(g *ssa.Global, startupOnly func(*ssa.Function) bool) bool {
	readOnlyUse := func(v ssa.Value) bool {
		// v is the loaded array/slice value, or the address of an element
		refs := v.Referrers()
		if refs == nil {
			return false
		}
		for _, r := range *refs {
			switch u := r.(type) {
			case *ssa.DebugRef:
			case *ssa.Index: // array value indexed: a copy of the element
			case *ssa.IndexAddr:
				for _, r2 := range *u.Referrers() {
					switch l := r2.(type) {
					case *ssa.DebugRef:
					case *ssa.UnOp:
						if l.Op != token.MUL {
							return false
						}
					default:
						return false
					}
				}
			case *ssa.Call:
				if b, ok := u.Call.Value.(*ssa.Builtin); !ok || (b.Name() != "len" && b.Name() != "cap") {
					return false
				}
			default:
				return false
			}
		}
		return true
	}
	for fn := range a.P.AllFuncs {
		if !a.P.InModule(fn) || fn.Blocks == nil || a.P.IsTestFile(fn.Pos()) || startupOnly(fn) {
			continue
		}
		for _, b := range fn.Blocks {
			for _, in := range b.Instrs {
				for _, op := range in.Operands(nil) {
					if op == nil || *op != ssa.Value(g) {
						continue
					}
					switch u := in.(type) {
					case *ssa.UnOp: // load of the array / slice header
						if u.Op != token.MUL {
							return false
						}
						if _, isArr := u.Type().Underlying().(*types.Array); isArr {
							continue // an array loaded whole is a private copy: whatever is done with it stays with the caller
						}
						if !readOnlyUse(u) {
							return false
						}
					case *ssa.IndexAddr: // &g[i] on an array variable
						for _, r2 := range *u.Referrers() {
							switch l := r2.(type) {
							case *ssa.DebugRef:
							case *ssa.UnOp:
								if l.Op != token.MUL {
									return false
								}
							default:
								return false
							}
						}
					case *ssa.Return:
						// an accessor handing out the table's address: every caller only indexes it for reading
						if len(u.Results) != 1 || !a.accessorResultReadOnly(fn) {
							return false
						}
					default:
						return false
					}
				}
			}
		}
	}
	return true
}

// accessorResultReadOnly: fn is only ever called directly, and the pointer it returns is only indexed for reading (or
// copied whole) by every caller.
func (a *Analysis) accessorResultReadOnly(acc *ssa.Function) bool {
	loadOnly := func(v ssa.Value) bool {
		for _, r := range *v.Referrers() {
			switch l := r.(type) {
			case *ssa.DebugRef:
			case *ssa.UnOp:
				if l.Op != token.MUL {
					return false
				}
			default:
				return false
			}
		}
		return true
	}
	for fn := range a.P.AllFuncs {
		if !a.P.InModule(fn) || fn.Blocks == nil || a.P.IsTestFile(fn.Pos()) {
			continue
		}
		for _, b := range fn.Blocks {
			for _, in := range b.Instrs {
				for _, op := range in.Operands(nil) {
					if op == nil || *op != ssa.Value(acc) {
						continue
					}
					call, ok := in.(*ssa.Call)
					if !ok || call.Call.Value != ssa.Value(acc) {
						return false // the accessor as a value, deferred or spawned: its result is out of sight
					}
					refs := call.Referrers()
					if refs == nil {
						return false
					}
					for _, r := range *refs {
						switch u := r.(type) {
						case *ssa.DebugRef:
						case *ssa.IndexAddr:
							if u.X != ssa.Value(call) || !loadOnly(u) {
								return false
							}
						case *ssa.UnOp: // the whole array copied out
							if u.Op != token.MUL {
								return false
							}
							for _, r2 := range *u.Referrers() {
								switch r2.(type) {
								case *ssa.DebugRef, *ssa.Index:
								default:
									return false
								}
							}
						default:
							return false
						}
					}
				}
			}
		}
	}
	return true
}

// closureOutlivesMaker: the function literal fn is kept beyond the call that made it – returned, stored, put in a
// table, converted to an interface – rather than only handed down as an argument and run while its maker is still
// running (`c.locked(&c.mu, func() { … })`).
func closureOutlivesMaker(fn *ssa.Function) bool {
	par := fn.Parent()
	if par == nil {
		return false
	}
	for _, b := range par.Blocks {
		for _, in := range b.Instrs {
			mc, ok := in.(*ssa.MakeClosure)
			if !ok || mc.Fn != ssa.Value(fn) {
				continue
			}
			refs := mc.Referrers()
			if refs == nil {
				return true
			}
			for _, r := range *refs {
				switch u := r.(type) {
				case *ssa.DebugRef:
				case *ssa.Call:
					if u.Call.Value == ssa.Value(mc) {
						continue // called on the spot
					}
					// an argument of a call: runs (if at all) under that call – unless the callee is a registrar-like
					// function that keeps it; a function value kept by a callee shows up as that callee's own write
					continue
				case *ssa.Defer:
					continue
				default:
					return true
				}
			}
		}
	}
	return false
}

type capturedWrite struct {
	in   ssa.Instruction
	what string
}

// capturedWrites: the instructions of the function literal fn that write a variable it captured or memory reached
// through one (an element of a captured slice, an entry of a captured map, a field of a captured record).
func capturedWrites(fn *ssa.Function) []capturedWrite {
	d := map[ssa.Value]string{}
	for _, fv := range fn.FreeVars {
		d[fv] = fv.Name()
	}
	for changed := true; changed; {
		changed = false
		set := func(v ssa.Value, n string) {
			if _, ok := d[v]; !ok {
				d[v] = n
				changed = true
			}
		}
		for _, b := range fn.Blocks {
			for _, in := range b.Instrs {
				switch in := in.(type) {
				case *ssa.UnOp:
					if n, ok := d[in.X]; ok && in.Op.String() == "*" && isRefType(in.Type()) {
						set(in, n)
					}
				case *ssa.FieldAddr:
					if n, ok := d[in.X]; ok {
						set(in, n)
					}
				case *ssa.IndexAddr:
					if n, ok := d[in.X]; ok {
						set(in, n)
					}
				case *ssa.Slice:
					if n, ok := d[in.X]; ok {
						set(in, n)
					}
				case *ssa.Phi:
					for _, e := range in.Edges {
						if n, ok := d[e]; ok {
							set(in, n)
						}
					}
				}
			}
		}
	}
	var out []capturedWrite
	for _, b := range fn.Blocks {
		for _, in := range b.Instrs {
			switch in := in.(type) {
			case *ssa.Store:
				if n, ok := d[in.Addr]; ok {
					out = append(out, capturedWrite{in, "store to captured " + n})
				}
			case *ssa.MapUpdate:
				if n, ok := d[in.Map]; ok {
					out = append(out, capturedWrite{in, "map update of captured " + n})
				}
			case *ssa.Call:
				if bi, ok := in.Call.Value.(*ssa.Builtin); ok && (bi.Name() == "delete" || bi.Name() == "clear" || bi.Name() == "copy") && len(in.Call.Args) > 0 {
					if n, ok := d[in.Call.Args[0]]; ok {
						out = append(out, capturedWrite{in, bi.Name() + " on captured " + n})
					}
				}
			}
		}
	}
	return out
}

func usesGlobal(in ssa.Instruction, g *ssa.Global) bool {
	for _, op := range in.Operands(nil) {
		if op != nil && *op == ssa.Value(g) {
			return true
		}
	}
	return false
}

// globalFacts: the package-level variables of the module, every instruction that writes them (or memory reachable from
// them), their readers, and which functions are start-up code.
type globalFactsT struct {
	globals     []*ssa.Global
	writes      []globalWrite
	readers     map[*ssa.Global]map[*ssa.Function]bool
	startupOnly func(fn *ssa.Function) bool
	writersOf   map[*ssa.Global][]globalWrite
}

func (a *Analysis) globalFacts() *globalFactsT {
	a.gfOnce.Do(func() { a.gf = a.computeGlobalFacts() })
	return a.gf
}

// onceAssignment: the event is an assignment made by the body of a package-level sync.Once whose variables are read
// only after that Once's Do has returned (start-up state established on first use – see globalFacts): not a write of
// state that distinguishes one codec call from another.
func (a *Analysis) onceAssignment(e *Event) bool {
	return e != nil && e.Once && e.Fn != nil && a.globalFacts().startupOnly(e.Fn) && !isInitFunc(e.Fn) && e.Fn.Parent() != nil
}

// paramDerived: the values of fn that point into memory reachable from its parameter number pi.
func paramDerived(fn *ssa.Function, pi int) map[ssa.Value]bool {
	d, _ := paramDerivedDeep(fn, pi)
	return d
}

// paramDerivedDeep: d – the values that point into memory reachable from parameter pi; deep – those of them reached
// through at least one reference *loaded* from that memory (p.field[i], *p.ptr: memory the parameter's target refers
// to, not the target itself).
func paramDerivedDeep(fn *ssa.Function, pi int) (map[ssa.Value]bool, map[ssa.Value]bool) {
	d := map[ssa.Value]bool{}
	deep := map[ssa.Value]bool{}
	if pi >= len(fn.Params) {
		return d, deep
	}
	d[fn.Params[pi]] = true
	for changed := true; changed; {
		changed = false
		set := func(v ssa.Value, from ssa.Value, loaded bool) {
			if !d[v] {
				d[v] = true
				changed = true
			}
			if (loaded || deep[from]) && !deep[v] {
				deep[v] = true
				changed = true
			}
		}
		for _, b := range fn.Blocks {
			for _, in := range b.Instrs {
				switch in := in.(type) {
				case *ssa.UnOp:
					if in.Op.String() == "*" && d[in.X] && isRefType(in.Type()) {
						set(in, in.X, true)
					}
				case *ssa.FieldAddr:
					if d[in.X] {
						set(in, in.X, false)
					}
				case *ssa.IndexAddr:
					if d[in.X] {
						set(in, in.X, false)
					}
				case *ssa.Slice:
					if d[in.X] {
						set(in, in.X, false)
					}
				case *ssa.Phi:
					for _, e := range in.Edges {
						if d[e] {
							set(in, e, false)
						}
					}
				case *ssa.ChangeType:
					if d[in.X] {
						set(in, in.X, false)
					}
				case *ssa.Lookup:
					if d[in.X] && isRefType(in.Type()) {
						set(in, in.X, true)
					}
				case *ssa.Extract:
					if d[in.Tuple] && isRefType(in.Type()) {
						set(in, in.Tuple, false)
					}
				}
			}
		}
	}
	return d, deep
}

// writesThroughParams: for every module function, the parameters through which it (or a module function it hands the
// memory on to) writes: stores, map updates, delete/clear/copy into memory reachable from the parameter.
func (a *Analysis) writesThroughParams() map[*ssa.Function]map[int]bool {
	out, _ := a.writesThroughParamsDeep()
	return out
}

type calleeRef struct {
	fn  *ssa.Function
	off int // index of the callee parameter that receives argument 0 of the call (1 for methods called through an interface)
}

// possibleCallees: the static callee of a call, or – for a call of a function value or through an interface – the
// module functions the VTA call graph resolves the site to.
func (a *Analysis) possibleCallees(c ssa.CallInstruction) []calleeRef {
	cc := c.Common()
	if callee := cc.StaticCallee(); callee != nil {
		return []calleeRef{{callee, 0}}
	}
	if _, isBuiltin := cc.Value.(*ssa.Builtin); isBuiltin {
		return nil
	}
	// dynamic: the callees the VTA call graph gives this site (the function values and receiver types that can flow
	// there), module functions only
	cg := a.vtaGraph()
	fn := c.Parent()
	var out []calleeRef
	off := 0
	if cc.IsInvoke() {
		off = 1
	}
	if n := cg.Nodes[fn]; n != nil {
		seen := map[*ssa.Function]bool{}
		for _, e := range n.Out {
			if e.Site != c || e.Callee == nil || e.Callee.Func == nil {
				continue
			}
			cf := e.Callee.Func
			if seen[cf] || !a.P.InModule(cf) || cf.Blocks == nil {
				continue
			}
			seen[cf] = true
			out = append(out, calleeRef{cf, off})
		}
	}
	sort.Slice(out, func(i, j int) bool { return out[i].fn.String() < out[j].fn.String() })
	return out
}

func (a *Analysis) vtaGraph() *callgraph.Graph {
	a.dynCalleeOnce.Do(func() {
		a.vta = vta.CallGraph(a.P.AllFuncs, cha.CallGraph(a.P.Prog))
	})
	return a.vta
}

// writesThroughParamsDeep: any – as writesThroughParams; deep – the parameters through which the function writes memory
// it reached by loading a reference out of the parameter's target (`l.pad[i] = c` for a parameter l *layout).
func (a *Analysis) writesThroughParamsDeep() (map[*ssa.Function]map[int]bool, map[*ssa.Function]map[int]bool) {
	out := map[*ssa.Function]map[int]bool{}
	outDeep := map[*ssa.Function]map[int]bool{}
	var fns []*ssa.Function
	for fn := range a.P.AllFuncs {
		if a.P.InModule(fn) && fn.Blocks != nil && !a.P.IsTestFile(fn.Pos()) {
			fns = append(fns, fn)
		}
	}
	sort.Slice(fns, func(i, j int) bool { return fns[i].String() < fns[j].String() })
	derived := map[*ssa.Function][]map[ssa.Value]bool{}
	deepOf := map[*ssa.Function][]map[ssa.Value]bool{}
	for _, fn := range fns {
		for pi, p := range fn.Params {
			var d, dp map[ssa.Value]bool
			if isRefType(p.Type()) {
				d, dp = paramDerivedDeep(fn, pi)
			}
			derived[fn] = append(derived[fn], d)
			deepOf[fn] = append(deepOf[fn], dp)
		}
	}
	for changed := true; changed; {
		changed = false
		for _, fn := range fns {
			for pi, d := range derived[fn] {
				if d == nil || (out[fn][pi] && outDeep[fn][pi]) {
					continue
				}
				dp := deepOf[fn][pi]
				w, wd := false, false
				for _, b := range fn.Blocks {
					for _, in := range b.Instrs {
						switch in := in.(type) {
						case *ssa.Store:
							if d[in.Addr] {
								w = true
								wd = wd || dp[in.Addr]
							}
						case *ssa.MapUpdate:
							if d[in.Map] {
								w = true
								wd = wd || dp[in.Map]
							}
						}
						c, isCall := in.(ssa.CallInstruction)
						if !isCall {
							continue
						}
						if bi, ok := c.Common().Value.(*ssa.Builtin); ok {
							if (bi.Name() == "delete" || bi.Name() == "clear" || bi.Name() == "copy") && len(c.Common().Args) > 0 && d[c.Common().Args[0]] {
								w = true
								// the slice or map handed to the builtin is itself a reference loaded from somewhere: its
								// elements are one level further than the reference
								wd = wd || dp[c.Common().Args[0]]
							}
							continue
						}
						for _, cr := range a.possibleCallees(c) {
							for ai, arg := range c.Common().Args {
								if !d[arg] {
									continue
								}
								if out[cr.fn][ai+cr.off] {
									w = true
									wd = wd || dp[arg]
								}
								if outDeep[cr.fn][ai+cr.off] {
									w, wd = true, true
								}
							}
						}
					}
				}
				if w && !out[fn][pi] {
					if out[fn] == nil {
						out[fn] = map[int]bool{}
					}
					out[fn][pi] = true
					changed = true
				}
				if wd && !outDeep[fn][pi] {
					if outDeep[fn] == nil {
						outDeep[fn] = map[int]bool{}
					}
					outDeep[fn][pi] = true
					changed = true
				}
			}
		}
	}
	return out, outDeep
}

func (a *Analysis) computeGlobalFacts() *globalFactsT {
	inModule := func(g *ssa.Global) bool { return g.Pkg != nil && strings.HasPrefix(g.Pkg.Pkg.Path(), modulePath) }
	// V1
	var globals []*ssa.Global
	for _, pk := range a.P.Pkgs {
		sp := a.P.SSAPkgs[pk.PkgPath]
		for _, m := range sp.Members {
			if g, ok := m.(*ssa.Global); ok && !a.P.IsTestFile(g.Pos()) && !strings.HasPrefix(g.Name(), "init$") {
				globals = append(globals, g)
			}
		}
	}
	sort.Slice(globals, func(i, j int) bool { return globals[i].String() < globals[j].String() })
	var writes []globalWrite
	readers := map[*ssa.Global]map[*ssa.Function]bool{}
	users := map[*ssa.Global]map[*ssa.Function]bool{}
	wtp, wtpDeep := a.writesThroughParamsDeep()
	retDerived := a.returnsGlobalDerived(inModule)
	for fn := range a.P.AllFuncs {
		if !a.P.InModule(fn) || fn.Blocks == nil || a.P.IsTestFile(fn.Pos()) {
			continue
		}
		d, holds := globalDerivedHolds(fn, inModule, retDerived)
		for _, b := range fn.Blocks {
			for _, in := range b.Instrs {
				// memory of a package-level variable handed to a function that writes through that parameter (a method on
				// the variable's address, say); the callee may be a function value or an interface method (every module
				// function that fits is considered). A local copy of a package-level record handed to a function that
				// writes through a reference it loads from the copy (`opt(&l)` with `l.pad[i] = c` inside) likewise.
				if c, ok := in.(ssa.CallInstruction); ok {
					for _, cr := range a.possibleCallees(c) {
						callee := cr.fn
						if wtp[callee] == nil {
							continue
						}
						for ai, arg := range c.Common().Args {
							if wtp[callee][ai+cr.off] {
								if g, isG := arg.(*ssa.Global); isG && inModule(g) {
									writes = append(writes, globalWrite{g, fn, in, "write through " + callee.Name()})
									continue
								} else if g, has := d[arg]; has {
									writes = append(writes, globalWrite{g, fn, in, "write through " + callee.Name()})
									continue
								}
							}
							if wtpDeep[callee][ai+cr.off] {
								if g, has := holds[arg]; has {
									writes = append(writes, globalWrite{g, fn, in, "write through " + callee.Name() + " (a copy of the record shares what its fields refer to)"})
								}
							}
						}
					}
				}
				switch in := in.(type) {
				case *ssa.Store:
					if g, ok := in.Addr.(*ssa.Global); ok && inModule(g) {
						writes = append(writes, globalWrite{g, fn, in, "assign"})
					} else if g, ok := d[in.Addr]; ok {
						writes = append(writes, globalWrite{g, fn, in, "store through"})
					}
				case *ssa.MapUpdate:
					if g, ok := d[in.Map]; ok {
						writes = append(writes, globalWrite{g, fn, in, "map update"})
					}
				case *ssa.Call:
					if bi, ok := in.Call.Value.(*ssa.Builtin); ok && (bi.Name() == "delete" || bi.Name() == "clear" || bi.Name() == "copy") && len(in.Call.Args) > 0 {
						if g, ok := d[in.Call.Args[0]]; ok {
							writes = append(writes, globalWrite{g, fn, in, bi.Name()})
						}
					}
					// append onto a slice of shared storage writes the appended elements into that storage whenever the slice
					// has capacity left (table[:n] of a longer table) – unless the capacity was cut with a three-index slice
					if bi, ok := in.Call.Value.(*ssa.Builtin); ok && bi.Name() == "append" && len(in.Call.Args) > 0 {
						if g, ok := d[in.Call.Args[0]]; ok {
							capCut := false
							if sl, isSl := in.Call.Args[0].(*ssa.Slice); isSl && sl.Max != nil {
								capCut = true
							}
							if !capCut {
								writes = append(writes, globalWrite{g, fn, in, "append into spare capacity"})
							}
						}
					}
				case *ssa.UnOp:
					if g, ok := in.X.(*ssa.Global); ok && inModule(g) && in.Op.String() == "*" {
						if readers[g] == nil {
							readers[g] = map[*ssa.Function]bool{}
						}
						readers[g][fn] = true
					}
				}
				if _, dbg := in.(*ssa.DebugRef); !dbg {
					for _, op := range in.Operands(nil) {
						if op == nil {
							continue
						}
						if g, ok := (*op).(*ssa.Global); ok && inModule(g) {
							if users[g] == nil {
								users[g] = map[*ssa.Function]bool{}
							}
							users[g][fn] = true
						}
					}
				}
			}
		}
	}
	// static callers of each module function (non-test)
	callersOf := map[*ssa.Function][]*ssa.Function{}
	for fn := range a.P.AllFuncs {
		if !a.P.InModule(fn) || fn.Blocks == nil || a.P.IsTestFile(fn.Pos()) {
			continue
		}
		for _, b := range fn.Blocks {
			for _, in := range b.Instrs {
				if c, ok := in.(ssa.CallInstruction); ok {
					if callee := c.Common().StaticCallee(); callee != nil {
						callersOf[callee] = append(callersOf[callee], fn)
					}
				}
			}
		}
	}
	// a function literal run under a package-level sync.Once whose assignments are read only after that Once's Do has
	// returned (in the same function, on every way to the read): the variable is written once, before every read, with
	// the ordering sync.Once guarantees – start-up state established on first use
	bodies := onceBodies(a.P)
	onceGuarded := func(fn *ssa.Function) bool {
		once := bodies[fn]
		if once == nil {
			return false
		}
		for _, w := range writes {
			if w.fn != fn {
				continue
			}
			if w.what != "assign" && w.what != "store through" {
				return false // (a table filled element by element in the once body is as good as one assigned whole)
			}
			for rfn := range users[w.g] {
				if rfn == fn {
					continue // the body runs alone under the Once: what it reads is what it wrote
				}
				var dos []ssa.Instruction
				for _, b := range rfn.Blocks {
					for _, in := range b.Instrs {
						if c, ok := in.(ssa.CallInstruction); ok && isOnceDo(c, once, fn) {
							dos = append(dos, in)
						}
					}
				}
				for _, b := range rfn.Blocks {
					for _, in := range b.Instrs {
						// every use of the variable – a load, the address of an element, the address handed on
						if _, dbg := in.(*ssa.DebugRef); dbg || !usesGlobal(in, w.g) {
							continue
						}
						ld := in
						covered := false
						for _, do := range dos {
							if do.Block().Dominates(ld.Block()) && (do.Block() != ld.Block() || instrIndex(do) < instrIndex(ld)) {
								covered = true
							}
						}
						if !covered {
							return false
						}
					}
				}
			}
			// no other function assigns the variable (an exported registrar nobody in the module calls – kept for
			// applications, to be used during their start-up – is not a run-time writer here, as below)
			for _, w2 := range writes {
				if w2.g == w.g && w2.fn != fn {
					if len(callersOf[w2.fn]) == 0 && w2.fn.Object() != nil && w2.fn.Object().Exported() && w2.what != "assign" {
						continue
					}
					return false
				}
			}
		}
		return true
	}
	var startupOnlyRec func(fn *ssa.Function, visiting map[*ssa.Function]bool) bool
	startupOnlyRec = func(fn *ssa.Function, visiting map[*ssa.Function]bool) bool {
		if isInitFunc(fn) {
			return true
		}
		if onceGuarded(fn) {
			return true
		}
		cs := callersOf[fn]
		if len(cs) == 0 {
			// nobody in the module calls it (an exported registrar kept for applications): not a run-time writer here
			return fn.Object() != nil && fn.Object().Exported()
		}
		if visiting[fn] {
			return true // a cycle of callers adds no caller of its own
		}
		visiting[fn] = true
		defer delete(visiting, fn)
		for _, c := range cs {
			// a caller that is itself start-up only: an initialiser, or a forwarding function (an exported registrar that
			// hands on to a method of a table object, say) that in turn only start-up code – or nobody – calls
			if isInitFunc(c) {
				continue
			}
			if len(callersOf[c]) == 0 {
				// nobody calls the caller: an exported function that only forwards to this one is the same API under
				// another name (kept for applications' start-up); anything else that nobody calls statically – an
				// Encode method, a primitive – is run-time code
				if c.Object() != nil && c.Object().Exported() && forwardsTo(c, fn) {
					continue
				}
				return false
			}
			if !startupOnlyRec(c, visiting) {
				return false
			}
		}
		return true
	}
	startupOnly := func(fn *ssa.Function) bool { return startupOnlyRec(fn, map[*ssa.Function]bool{}) }
	writersOf := map[*ssa.Global][]globalWrite{}
	for _, w := range writes {
		writersOf[w.g] = append(writersOf[w.g], w)
	}
	return &globalFactsT{globals: globals, writes: writes, readers: readers, startupOnly: startupOnly, writersOf: writersOf}
}

// immutableTable: g is a package-level table of numbers written by start-up code only and otherwise only indexed for
// reading – a constant of the program for every codec call.
func (a *Analysis) immutableTable(g *ssa.Global) bool {
	et := g.Type().(*types.Pointer).Elem()
	if !isTableShape(et) {
		return false
	}
	gf := a.globalFacts()
	for _, w := range gf.writersOf[g] {
		if !gf.startupOnly(w.fn) {
			return false
		}
	}
	return a.onlyIndexedForReading(g, gf.startupOnly)
}

func (a *Analysis) CheckC20(rep *Report, tier string) {
	rep.Explanation = "V1: every package-level variable of the module is enumerated together with every instruction that writes it or memory reachable from it (stores, map updates, deletes through values derived from the variable), and the writing functions are classified. V2: no function reachable in the call graph (VTA over a CHA seed) from any Encode/Decode method, table lookup or codec primitive contains such a write, starts a goroutine, touches a channel or sync.Pool; package state may be read only if all its writers are start-up functions (package initialisers, init, registrars called only from init) or – for the checksum registry – under its read lock (C19). V3: every registered factory returns a fresh allocation (no shared body object). V4: no package-level variable holds a buffer or a message. With the library model's thread-safety entries, calls on disjoint objects then share no mutable memory: race-free and equal to the sequential results for every interleaving."
	rep.Trusted = append(trustedBase(), "standard-library functions reachable from the codecs (encoding/binary, bytes, io, fmt, errors, hash/crc32, sync) are safe when called concurrently on disjoint arguments")
	rep.Exhaustive = true
	gf := a.globalFacts()
	globals, readers, startupOnly, writersOf, writes := gf.globals, gf.readers, gf.startupOnly, gf.writersOf, gf.writes
	inModule := func(g *ssa.Global) bool { return g.Pkg != nil && strings.HasPrefix(g.Pkg.Pkg.Path(), modulePath) }
	_, _ = readers, writes
	guarded := a.findGuarded()
	isRegistry := func(g *ssa.Global) bool {
		if pt, ok := g.Type().(*types.Pointer).Elem().Underlying().(*types.Pointer); ok {
			if n, ok := pt.Elem().(*types.Named); ok {
				for _, gs := range guarded {
					if gs.Struct == n {
						return true
					}
				}
			}
		}
		return false
	}
	for _, g := range globals {
		name := shortPkg(g.Pkg.Pkg.Path()) + "." + g.Name()
		et := g.Type().(*types.Pointer).Elem()
		// V4
		bad := isBufferType(et) || a.U.TypeOf(et) != nil
		if p, ok := et.Underlying().(*types.Pointer); ok {
			bad = bad || isBufferType(et) || a.U.TypeOf(p.Elem()) != nil
		}
		if n, ok := et.(*types.Named); ok && n.Obj().Pkg() != nil && n.Obj().Pkg().Path() == "bytes" && n.Obj().Name() == "Buffer" {
			bad = true
		}
		if n, ok := et.(*types.Named); ok && n.Obj().Pkg() != nil && n.Obj().Pkg().Path() == "sync" && n.Obj().Name() == "Pool" {
			bad = true
		}
		if _, isArr := et.Underlying().(*types.Array); isArr {
			bad = true // a package-level scratch array
		}
		if sl, isSl := et.Underlying().(*types.Slice); isSl {
			if b, ok := sl.Elem().Underlying().(*types.Basic); ok && b.Kind() == types.Uint8 {
				bad = true // a package-level scratch byte slice
			}
		}
		if bad && isTableShape(et) {
			// a lookup table: written by start-up code only and, everywhere else, only indexed for reading (never
			// sliced, appended to, passed on or stored through – nothing that could hand out or modify its storage)
			startupWriters := true
			for _, w := range writersOf[g] {
				if !startupOnly(w.fn) {
					startupWriters = false
				}
			}
			if startupWriters && a.onlyIndexedForReading(g, startupOnly) {
				bad = false
			}
		}
		rep.Ob("V4-no-shared-buffer-or-message", name, !bad, a.P.Pos(g.Pos()), "package-level variable of type "+typeStr(et)+" can be shared between concurrent calls")
		// V1 writers
		allStartup := true
		var ws []string
		for _, w := range writersOf[g] {
			if !startupOnly(w.fn) {
				allStartup = false
			}
			ws = append(ws, fmt.Sprintf("%s in %s", w.what, FuncName(w.fn)))
		}
		sort.Strings(ws)
		if isRegistry(g) {
			rep.Ob("V1-writers-classified", name, true, "", "")
			rep.Notes = append(rep.Notes, name+": registry, writers "+strings.Join(dedupe(ws), "; ")+" (mutual exclusion is C19)")
		} else {
			rep.Ob("V1-writers-are-startup-only", name, allStartup, a.P.Pos(g.Pos()), "package-level state is written after start-up: "+strings.Join(dedupe(ws), "; "))
		}
		if len(rep.Samples) < 5 {
			rep.Sample(map[string]interface{}{"global": name, "type": typeStr(et), "writers": dedupe(ws)})
		}
	}
	rep.Floor("package_level_variables", len(globals), goldenFloor("tables", 18)+1)

	// V2: reachability
	var cg *callgraph.Graph
	cgKind := "CHA"
	// (CHA resolves a call of a func() value – e.g. the body handed to a withLock helper – to every function of that
	// signature in the program, package initialisers included; VTA follows the values that actually flow there)
	_ = tier
	cg = a.vtaGraph()
	cgKind = "VTA"
	var roots []*ssa.Function
	for _, ct := range a.U.Types {
		roots = append(roots, ct.Encode, ct.Decode)
	}
	for _, t := range a.U.Tables {
		roots = append(roots, t.Lookups...)
	}
	insts := a.instancesOf()
	for _, f := range a.U.Prims {
		roots = append(roots, f)
		roots = append(roots, insts[f]...)
	}
	for _, svc := range a.U.Services {
		roots = append(roots, svc.Calc)
	}
	for _, t := range a.U.Tables {
		for _, r := range t.Regs {
			if r.Closure != nil {
				roots = append(roots, r.Closure)
			}
		}
	}
	reach := map[*ssa.Function]bool{}
	var work []*ssa.Function
	for _, r := range roots {
		if r != nil && !reach[r] {
			reach[r] = true
			work = append(work, r)
		}
	}
	for len(work) > 0 {
		fn := work[len(work)-1]
		work = work[:len(work)-1]
		if !a.P.InModule(fn) {
			continue // the library model covers what lies beyond
		}
		n := cg.Nodes[fn]
		if n == nil {
			continue
		}
		for _, e := range n.Out {
			c := e.Callee.Func
			if !reach[c] {
				reach[c] = true
				work = append(work, c)
			}
		}
	}
	nreach := 0
	for fn := range reach {
		if !a.P.InModule(fn) || fn.Blocks == nil {
			continue
		}
		nreach++
		name := FuncName(fn)
		// V6: a function literal made outside the codec calls (by start-up code, kept in a package-level variable or a
		// table) and run inside them: what it captured lives as long as the program and is shared by every call – it
		// may read it, not write it
		maker := fn.Parent()
		for maker != nil && maker.Parent() != nil {
			maker = maker.Parent()
		}
		if fn.Parent() != nil && len(fn.FreeVars) > 0 && !reach[fn.Parent()] && maker != nil && !reach[maker] && startupOnly(maker) && closureOutlivesMaker(fn) {
			for _, w := range capturedWrites(fn) {
				rep.Ob("V6-no-write-to-captured-state", name+":"+w.what, false, a.P.Pos(w.in.Pos()), fmt.Sprintf("%s: the function literal was made by %s, outside any codec call, so the variable is shared by every call that runs it", w.what, FuncName(fn.Parent())))
			}
		}
		for _, w := range writes {
			if w.fn == fn {
				gname := shortPkg(w.g.Pkg.Pkg.Path()) + "." + w.g.Name()
				rep.Ob("V2-no-write-on-codec-paths", name+":"+gname, false, a.P.Pos(w.in.Pos()), fmt.Sprintf("%s of package-level %s in a function reachable from Encode/Decode (%s call graph)", w.what, gname, cgKind))
			}
		}
		for _, b := range fn.Blocks {
			for _, in := range b.Instrs {
				switch in := in.(type) {
				case *ssa.Go:
					rep.Ob("V2-no-goroutines-or-channels", name+":go", false, a.P.Pos(in.Pos()), "codec path starts a goroutine")
				case *ssa.Send, *ssa.Select, *ssa.MakeChan:
					rep.Ob("V2-no-goroutines-or-channels", name+":chan", false, a.P.Pos(in.Pos()), "codec path uses a channel")
				case *ssa.UnOp:
					if in.Op.String() == "<-" {
						rep.Ob("V2-no-goroutines-or-channels", name+":recv", false, a.P.Pos(in.Pos()), "codec path receives from a channel")
					}
					if g, ok := in.X.(*ssa.Global); ok && inModule(g) && in.Op.String() == "*" {
						gname := shortPkg(g.Pkg.Pkg.Path()) + "." + g.Name()
						ok := isRegistry(g)
						if !ok {
							ok = true
							for _, w := range writersOf[g] {
								if !startupOnly(w.fn) {
									ok = false
								}
							}
						}
						rep.Ob("V2-reads-only-startup-state", name+":"+gname, ok, a.P.Pos(in.Pos()), "codec path reads "+gname+", which is written after start-up")
					}
				case *ssa.Call:
					if c := in.Call.StaticCallee(); c != nil && strings.HasPrefix(fullName(c), "(*sync.Pool)") {
						rep.Ob("V2-no-pool", name+":pool", false, a.P.Pos(in.Pos()), "codec path uses a sync.Pool: objects can be shared between calls")
					}
					// shared words: a codec path may atomically load the registry's published table (C19), nothing else
					if c := in.Call.StaticCallee(); c != nil && c.Pkg == nil && c.Object() != nil && c.Object().Pkg() != nil && c.Object().Pkg().Path() == "sync/atomic" ||
						c != nil && c.Pkg != nil && c.Pkg.Pkg.Path() == "sync/atomic" {
						okAtomic := false
						if strings.HasSuffix(fullName(c), ".Load") && len(in.Call.Args) > 0 {
							if fa, isFA := in.Call.Args[0].(*ssa.FieldAddr); isFA {
								if pt, isP := fa.X.Type().Underlying().(*types.Pointer); isP {
									if n, isN := pt.Elem().(*types.Named); isN {
										for _, gs := range guarded {
											if gs.Struct == n && gs.COW && gs.MapField == fa.Field {
												okAtomic = true
											}
										}
									}
								}
							}
						}
						rep.Ob("V2-no-atomics-on-codec-paths", name+":"+fullName(c), okAtomic, a.P.Pos(in.Pos()), "codec path uses "+fullName(c)+": a shared word written or read outside the registry's published table is state shared between calls")
					}
				}
			}
		}
		rep.Ob("V2-function-clean", name, true, "", "")
	}
	rep.Counts["reachable_module_functions"] = nreach
	rep.Floor("reachable_module_functions", nreach, 400)
	rep.Notes = append(rep.Notes, "call graph: "+cgKind)
	// shared singletons: registered checksum services must not be written by Calc (any goroutine may be inside it)
	for _, svc := range a.U.Services {
		paths, err := a.engineFor(svc.Calc).AnalyzeRoot(svc.Calc, nil)
		name := svc.Type.Obj().Name()
		if !rep.Ob("V5-service-analysable", name, err == nil, a.P.Pos(svc.Calc.Pos()), fmt.Sprint(err)) {
			continue
		}
		clean := true
		for _, p := range paths {
			walkEvents(p.Events, func(e *Event, _ int) {
				if e.Kind == EvStore {
					if r := addrRoot(e.Dst); r != nil && r.Op == "param" && r.ID == 0 {
						clean = false
						rep.Ob("V5-shared-service-immutable", name, false, a.P.Pos(e.Pos), "Calc writes into the registered service object, which all goroutines share: "+e.Dst.Pretty())
					}
				}
			})
		}
		if clean {
			rep.Ob("V5-shared-service-immutable", name, true, "", "")
		}
	}
	// V3
	for _, t := range a.U.Tables {
		for _, r := range t.Regs {
			if r.Closure != nil {
				// (a factory found by evaluating the start-up code may wrap a constructor function it captured – a
				// constant of the program, not state)
				capturesNothing := len(r.Closure.FreeVars) == 0 || (r.At.IsValid() && !r.CapturesState)
				rep.Ob("V3-factory-captures-nothing", t.Name+"["+r.Key+"]", capturesNothing, a.P.Pos(r.Pos()), "registered factory closes over variables of its environment (state shared between calls)")
			}
			rep.Ob("V3-factory-fresh", t.Name+"["+r.Key+"]", r.Fresh, a.P.Pos(r.Pos()), "factory returns a shared (or nil) object instead of a fresh allocation")
		}
	}
	// exported registrars are start-up only by use: no non-init caller in the module
	for _, t := range a.U.Tables {
		for _, reg := range t.Registrar {
			rep.Ob("V1-registrar-called-from-init-only", FuncName(reg), startupOnly(reg), a.P.Pos(reg.Pos()), "a table registrar is called outside init: the table is mutated while codecs may be reading it")
		}
	}
}

func dedupe(s []string) []string {
	var out []string
	for i, x := range s {
		if i == 0 || x != s[i-1] {
			out = append(out, x)
		}
	}
	return out
}

// mapEscapes: the map value itself (not an element looked up in it, nor its length) occurs in v.
func mapEscapes(v *Val, isMap func(*Val) bool) bool {
	if v == nil {
		return false
	}
	if isMap(v) {
		return true
	}
	switch v.Op {
	case "lookup", "lookupok", "len", "calc", "binop":
		return false
	case "unknown":
		// a key or value obtained by ranging over the map: an element, not the map
		if v.Name == "next-key" || v.Name == "next-val" || v.Name == "next-ok" {
			return false
		}
	case "makeslice":
		return false // a fresh slice sized by the map's length
	case "call":
		// a copy made by the library: the result shares nothing with its argument
		if v.Name == "maps.Clone" || v.Name == "maps.Keys" || v.Name == "maps.Values" || v.Name == "slices.Collect" || v.Name == "slices.Sorted" {
			return false
		}
	}
	for _, a := range v.Args {
		if mapEscapes(a, isMap) {
			return true
		}
	}
	return false
}


// syncStateCall: the event is a call of a method or function of package sync or sync/atomic (other than the mutex and
// Once operations the engine models as LOCK / ATOMIC events); returns its name.
func syncStateCall(e *Event) string {
	if e.Callee == nil || e.Callee.Pkg == nil && e.Callee.Object() == nil {
		return ""
	}
	obj := e.Callee.Object()
	if obj == nil || obj.Pkg() == nil {
		return ""
	}
	switch obj.Pkg().Path() {
	case "sync", "sync/atomic":
		return FuncName(e.Callee)
	}
	return ""
}

// otherRegistryField: addr is a field of the registry struct other than its mutex and its map.
func otherRegistryField(addr *Val, g *guardedState) (base string, name string, ok bool) {
	v := stripCT(addr)
	for v != nil && (v.Op == "index" || v.Op == "slice") {
		v = stripCT(v.Args[0])
	}
	if v == nil || v.Op != "field" || v.ID == g.MapField || v.ID == g.MuField || len(v.Args) == 0 {
		return "", "", false
	}
	b := v.Args[0]
	if b.Type == nil {
		return "", "", false
	}
	p, isP := b.Type.Underlying().(*types.Pointer)
	if !isP {
		return "", "", false
	}
	if n, isN := p.Elem().(*types.Named); !isN || n != g.Struct {
		return "", "", false
	}
	if r := addrRoot(b); r != nil && r.Op == "alloc" {
		return "", "", false // an object made on this path: nobody else sees it yet
	}
	return b.Key(), v.Name, true
}

// mentionsMutableRegistryField: a value of the path (result, condition, event operand) reads a field of the registry
// struct other than mutex and map that some non-start-up function of the module stores to.
func (a *Analysis) mentionsMutableRegistryField(p *Path, g *guardedState) string {
	mut := a.mutableRegistryFields(g)
	if len(mut) == 0 {
		return ""
	}
	found := ""
	look := func(v *Val) {
		if v == nil || found != "" {
			return
		}
		v.Walk(func(x *Val) bool {
			if found != "" {
				return false
			}
			if x.Op == "init" && len(x.Args) == 1 {
				if f := stripCT(x.Args[0]); f != nil && f.Op == "field" && mut[f.ID] && len(f.Args) > 0 && f.Args[0].Type != nil {
					if pt, ok := f.Args[0].Type.Underlying().(*types.Pointer); ok {
						if n, ok := pt.Elem().(*types.Named); ok && n == g.Struct {
							found = f.Name
							return false
						}
					}
				}
			}
			return true
		})
	}
	for _, r := range p.Ret {
		look(r)
	}
	for _, c := range p.Conds {
		look(c.V)
	}
	walkEvents(p.Events, func(e *Event, _ int) {
		look(e.Src)
		look(e.Recv)
		for _, x := range e.Args {
			look(x)
		}
	})
	return found
}

// mutableRegistryFields: indices of the registry struct's fields (other than mutex and map) that a function other than
// an init function stores to through a FieldAddr.
func (a *Analysis) mutableRegistryFields(g *guardedState) map[int]bool {
	out := map[int]bool{}
	for fn := range a.P.AllFuncs {
		if !a.P.InModule(fn) || fn.Blocks == nil || a.P.IsTestFile(fn.Pos()) || isInitFunc(fn) {
			continue
		}
		for _, b := range fn.Blocks {
			for _, in := range b.Instrs {
				fa, ok := in.(*ssa.FieldAddr)
				if !ok || fa.Field == g.MapField || fa.Field == g.MuField {
					continue
				}
				pt, ok := fa.X.Type().Underlying().(*types.Pointer)
				if !ok {
					continue
				}
				if n, ok := pt.Elem().(*types.Named); !ok || n != g.Struct {
					continue
				}
				for _, ref := range *fa.Referrers() {
					if st, ok := ref.(*ssa.Store); ok && st.Addr == fa {
						out[fa.Field] = true
					}
				}
			}
		}
	}
	return out
}

// forwardsTo: c does nothing but hand its arguments on to fn – one block, one call (of fn), no stores or other effects
// (an exported `RegistryXFactory(k, f)` whose body is `xTable.register(k, f)`).
func forwardsTo(c, fn *ssa.Function) bool {
	if c == nil || len(c.Blocks) != 1 {
		return false
	}
	calls := 0
	for _, in := range c.Blocks[0].Instrs {
		switch x := in.(type) {
		case ssa.CallInstruction:
			if _, isCall := x.(*ssa.Call); !isCall {
				return false // go / defer
			}
			if x.Common().StaticCallee() != fn {
				return false
			}
			calls++
		case *ssa.Store, *ssa.MapUpdate, *ssa.Send, *ssa.Panic:
			return false
		}
	}
	return calls == 1
}
