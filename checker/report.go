package main

import (
	"encoding/json"
	"fmt"
	"os"
	"path/filepath"
	"sort"
	"strings"
	"time"
)

type Violation struct {
	Property string                 `json:"property"`
	Rule     string                 `json:"rule"`
	Key      string                 `json:"key"` // rule + construct, never a line number
	Pos      string                 `json:"pos"`
	Msg      string                 `json:"message"`
	Detail   map[string]interface{} `json:"detail,omitempty"`
	Known    string                 `json:"known_finding,omitempty"`
	File     string                 `json:"-"`
}

type Report struct {
	Property    string
	Level       string
	Tier        string
	Seed        int
	Start       time.Time
	Obligations int
	Discharged  int
	ByRule      map[string][2]int // rule -> {obligations, discharged}
	Violations  []*Violation
	Samples     []interface{}
	Counts      map[string]int
	Notes       []string
	Trusted     []string
	Assumptions []string
	Explanation string
	Exhaustive  bool
	Fatal       []string // floors missed, load problems: the run cannot give a verdict
	seenV       map[string]bool
}

func NewReport(prop, level, tier string, seed int) *Report {
	return &Report{Property: prop, Level: level, Tier: tier, Seed: seed, Start: time.Now(), ByRule: map[string][2]int{}, Counts: map[string]int{}, seenV: map[string]bool{}}
}

// Ob records one obligation of `rule` about `construct`; when it does not hold, a violation.
func (r *Report) Ob(rule, construct string, ok bool, pos, msg string) bool {
	r.Obligations++
	c := r.ByRule[rule]
	c[0]++
	if ok {
		r.Discharged++
		c[1]++
	}
	r.ByRule[rule] = c
	if !ok {
		r.Violate(rule, construct, pos, msg, nil)
	}
	return ok
}

func (r *Report) Violate(rule, construct, pos, msg string, detail map[string]interface{}) {
	key := stableKey(rule + ":" + construct)
	if r.seenV[key] {
		return
	}
	r.seenV[key] = true
	r.Violations = append(r.Violations, &Violation{Property: r.Property, Rule: rule, Key: key, Pos: pos, Msg: msg, Detail: detail})
}

func (r *Report) Sample(s interface{}) {
	if len(r.Samples) < 12 {
		r.Samples = append(r.Samples, s)
	}
}

func (r *Report) Floor(what string, got, want int) {
	r.Counts[what] = got
	if got < want {
		r.Fatal = append(r.Fatal, fmt.Sprintf("floor: found %d %s, expected at least %d (a rule that matches nothing must not pass)", got, what, want))
	}
}

// ---------------------------------------------------------------------------

type KnownFindings struct {
	Findings []struct {
		Property string `json:"property"`
		Key      string `json:"key"`
		What     string `json:"what"`
	} `json:"findings"`
	Fixed []string `json:"fixed"`
}

func loadKnown(path string) (*KnownFindings, error) {
	kf := &KnownFindings{}
	b, err := os.ReadFile(path)
	if err != nil {
		if os.IsNotExist(err) {
			return kf, nil
		}
		return nil, err
	}
	if err := json.Unmarshal(b, kf); err != nil {
		return nil, fmt.Errorf("%s: %w", path, err)
	}
	return kf, nil
}

// Finish writes evidence and violation files and prints the verdict lines.
// Exit code: 0 held, 1 violation, 2 the check itself could not run.
func (r *Report) Finish(verifDir string, kf *KnownFindings, cmdline string) int {
	evDir := filepath.Join(verifDir, "evidence")
	if evidenceDir != "" {
		evDir = evidenceDir
	}
	vDir := filepath.Join(evDir, "violations")
	os.MkdirAll(vDir, 0o755)
	// stale replay files of this property
	if old, _ := filepath.Glob(filepath.Join(vDir, r.Property+"-*.json")); old != nil {
		for _, f := range old {
			os.Remove(f)
		}
	}
	// anchors that could not be resolved (instance floors missed) are a failure of the property's check on this tree:
	// a rule that matches nothing must not pass. They are reported as violations unless a specific violation already explains them.
	if len(r.Violations) == 0 {
		for _, f := range r.Fatal {
			if strings.HasPrefix(f, "floor:") {
				r.Violate("F0-anchors-resolved", strings.TrimPrefix(f, "floor: "), "-", "the constructs this property's rules are anchored in were not found: "+f, nil)
			}
		}
		if len(r.Violations) > 0 {
			var rest []string
			for _, f := range r.Fatal {
				if !strings.HasPrefix(f, "floor:") {
					rest = append(rest, f)
				}
			}
			r.Fatal = rest
		}
	}
	sort.SliceStable(r.Violations, func(i, j int) bool { return r.Violations[i].Key < r.Violations[j].Key })
	unlisted := 0
	var lines []string
	for i, v := range r.Violations {
		for _, k := range kf.Findings {
			if k.Property == r.Property && k.Key == v.Key {
				v.Known = k.What
			}
		}
		if v.Known != "" {
			lines = append(lines, fmt.Sprintf("KNOWN-FINDING: property=%s %s (%s at %s)", r.Property, v.Known, v.Key, v.Pos))
			continue
		}
		unlisted++
		v.File = filepath.Join(vDir, fmt.Sprintf("%s-%d.json", r.Property, i+1))
		b, _ := json.MarshalIndent(v, "", "  ")
		os.WriteFile(v.File, append(b, '\n'), 0o644)
		lines = append(lines, fmt.Sprintf("  %s  %s: %s", v.Pos, v.Key, v.Msg))
		lines = append(lines, fmt.Sprintf("VIOLATION property=%s replay=%s", r.Property, v.File))
	}
	// listed findings that no longer fire are fine (a fixed tree); nothing to print.

	cov := map[string]interface{}{
		"obligations":  r.Obligations,
		"discharged":   r.Discharged,
		"checker_cmd":  cmdline,
		"trusted_base": r.Trusted,
		"explanation":  r.Explanation,
		"samples":      r.Samples,
		"exhaustive":   r.Exhaustive,
		"counts":       r.Counts,
		"by_rule":      ruleTable(r.ByRule),
		"notes":        r.Notes,
	}
	if len(r.Samples) == 0 {
		cov["samples"] = []interface{}{"(no obligations were sampled)"}
	}
	ev := map[string]interface{}{
		"property_id": r.Property,
		"tier":        r.Tier,
		"seed":        r.Seed,
		"level":       r.Level,
		"coverage":    cov,
		"assumptions": nonNilStrings(r.Assumptions),
		"wall_s":      time.Since(r.Start).Seconds(),
		"violations":  unlisted,
	}
	if len(r.Fatal) > 0 {
		ev["fatal"] = r.Fatal
	}
	b, _ := json.MarshalIndent(ev, "", " ")
	if err := os.WriteFile(filepath.Join(evDir, r.Property+".json"), append(b, '\n'), 0o644); err != nil {
		fmt.Fprintln(os.Stderr, "cannot write evidence:", err)
		return 2
	}
	fmt.Printf("%s [%s] level=%s obligations=%d discharged=%d violations=%d known=%d wall=%.1fs\n", r.Property, r.Tier, r.Level, r.Obligations, r.Discharged, unlisted, len(r.Violations)-unlisted, time.Since(r.Start).Seconds())
	var rules []string
	for k := range r.ByRule {
		rules = append(rules, k)
	}
	sort.Strings(rules)
	for _, k := range rules {
		fmt.Printf("  rule %-28s %d/%d\n", k, r.ByRule[k][1], r.ByRule[k][0])
	}
	var cs []string
	for k, v := range r.Counts {
		cs = append(cs, fmt.Sprintf("%s=%d", k, v))
	}
	sort.Strings(cs)
	fmt.Println("  analysed:", strings.Join(cs, " "))
	for _, l := range lines {
		fmt.Println(l)
	}
	if unlisted > 0 {
		// a reported violation is the more specific verdict; instance floors missed because of it are only noted
		for _, f := range r.Fatal {
			fmt.Println("note:", f)
		}
		return 1
	}
	if len(r.Fatal) > 0 {
		for _, f := range r.Fatal {
			fmt.Println("CHECK-ERROR:", f)
		}
		return 2
	}
	return 0
}

func ruleTable(m map[string][2]int) map[string]string {
	out := map[string]string{}
	for k, v := range m {
		out[k] = fmt.Sprintf("%d/%d", v[1], v[0])
	}
	return out
}

func nonNilStrings(s []string) []string {
	if s == nil {
		return []string{}
	}
	return s
}

// stableKey removes run-specific numbering (event, loop and marker ids) from a violation key.
func stableKey(k string) string {
	var b strings.Builder
	for i := 0; i < len(k); i++ {
		c := k[i]
		b.WriteByte(c)
		if (c == '#' || c == '@') && i+1 < len(k) && k[i+1] >= '0' && k[i+1] <= '9' {
			j := i + 1
			for j < len(k) && k[j] >= '0' && k[j] <= '9' {
				j++
			}
			// keep small ordinals written by siteKey (name#n) – they follow a letter or ']' – drop ids that follow an op name
			if i > 0 && (isIdentEnd(k[i-1])) && isOrdinalContext(k, i) {
				b.WriteString(k[i+1 : j])
			}
			i = j - 1
		}
	}
	return b.String()
}

func isIdentEnd(c byte) bool {
	return c == ']' || c == ')' || (c >= 'a' && c <= 'z') || (c >= 'A' && c <= 'Z') || (c >= '0' && c <= '9')
}

// isOrdinalContext: "#n" that ends a site name (followed by end, '/', ':' or ' ') rather than naming a value (wire#12, loopvar#3:i, Len@4).
func isOrdinalContext(k string, i int) bool {
	if k[i] == '@' {
		return false
	}
	// the word before '#'
	j := i
	for j > 0 && (k[j-1] >= 'a' && k[j-1] <= 'z') {
		j--
	}
	switch k[j:i] {
	case "wire", "loopvar", "alloc", "make", "makeslice", "unknown", "short", "dyncall", "collect", "new", "calc", "buflen", "bufbytes", "REP":
		return false
	}
	return true
}
