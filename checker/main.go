package main

import (
	"flag"
	"fmt"
	"os"
	"sort"
	"strings"

	"golang.org/x/tools/go/ssa"
)

func main() {
	repo := flag.String("repo", "/repo", "repository root")
	dump := flag.String("dump", "", "dump paths of functions whose name contains this string")
	flag.Parse()
	p, err := Load(LoadOptions{Dir: *repo})
	if err != nil {
		fmt.Fprintln(os.Stderr, "LOAD ERROR:", err)
		os.Exit(2)
	}
	if *dump != "" {
		var fns []*ssa.Function
		for fn := range p.AllFuncs {
			if p.InModule(fn) && strings.Contains(fn.String(), *dump) && fn.Blocks != nil && !p.IsTestFile(fn.Pos()) {
				fns = append(fns, fn)
			}
		}
		sort.Slice(fns, func(i, j int) bool { return fns[i].String() < fns[j].String() })
		for _, fn := range fns {
			e := NewEngine(p)
			e.IsCodecMethod = func(f *ssa.Function) bool {
				return f != fn && f.Signature.Recv() != nil && (f.Name() == "Encode" || f.Name() == "Decode")
			}
			paths, err := e.AnalyzeRoot(fn, nil)
			fmt.Printf("=== %s (%d paths) err=%v\n", fn, len(paths), err)
			for i, pa := range paths {
				var cs []string
				for _, c := range pa.Conds {
					cs = append(cs, c.String())
				}
				fmt.Printf(" path %d: ret=%s panic=%v trunc=%q\n   conds: %s\n", i, prettyVals(pa.Ret), pa.Panic, pa.Trunc, strings.Join(cs, " && "))
				for _, ev := range pa.Events {
					fmt.Printf("   %s  @%s\n", ev, p.Pos(ev.Pos))
				}
			}
		}
	}
}
