package main

import (
	"encoding/json"
	"flag"
	"fmt"
	"os"
	"path/filepath"
	"sort"
	"strconv"
	"strings"

	"golang.org/x/tools/go/ssa"
)

type checkFn func(a *Analysis, rep *Report, tier string)

type propInfo struct {
	level string
	fn    checkFn
}

var props = map[string]propInfo{}

func register(id, level string, fn checkFn) { props[id] = propInfo{level, fn} }

func init() {
	register("C01", "other", func(a *Analysis, r *Report, t string) { a.CheckC01(r) })
	register("C02", "other", func(a *Analysis, r *Report, t string) { a.CheckC02(r) })
	register("C03", "proof", func(a *Analysis, r *Report, t string) { a.CheckC03(r, t) })
	register("C04", "proof", func(a *Analysis, r *Report, t string) { a.CheckC04(r) })
	register("C05", "other", func(a *Analysis, r *Report, t string) { a.CheckC05(r) })
	register("C06", "proof", func(a *Analysis, r *Report, t string) { a.CheckC06(r) })
	register("C07", "proof", func(a *Analysis, r *Report, t string) { a.CheckC07(r) })
	register("C08", "other", func(a *Analysis, r *Report, t string) { a.CheckC08(r) })
	register("C09", "proof", func(a *Analysis, r *Report, t string) { a.CheckC09(r) })
	register("C10", "proof", func(a *Analysis, r *Report, t string) { a.CheckC10(r) })
	register("C17", "proof", func(a *Analysis, r *Report, t string) { a.CheckC17(r) })
	register("C18", "proof", func(a *Analysis, r *Report, t string) { a.CheckC18(r) })
	register("C11", "proof", func(a *Analysis, r *Report, t string) { a.CheckC11(r) })
	register("C12", "other", func(a *Analysis, r *Report, t string) { a.CheckC12(r) })
	register("C19", "proof", func(a *Analysis, r *Report, t string) { a.CheckC19(r) })
	register("C20", "proof", func(a *Analysis, r *Report, t string) { a.CheckC20(r, t) })
	register("C13", "other", func(a *Analysis, r *Report, t string) { a.CheckC13(r) })
	register("C14", "other", func(a *Analysis, r *Report, t string) { a.CheckC14(r) })
	register("C15", "proof", func(a *Analysis, r *Report, t string) { a.CheckC15(r) })
	register("C16", "proof", func(a *Analysis, r *Report, t string) { a.CheckC16(r) })
}

func main() {
	repo := flag.String("repo", "/repo", "repository root (its current working tree is analysed)")
	verif := flag.String("verif", "/verif", "verification directory (golden tables, evidence, known findings)")
	prop := flag.String("property", "", "property id (C01..C20)")
	tier := flag.String("tier", "quick", "quick | thorough")
	dump := flag.String("dump", "", "debug: dump paths of functions whose name contains this string")
	layouts := flag.Bool("layouts", false, "debug: print extracted layouts of every codec type")
	emit := flag.Bool("emit-golden", false, "write golden/golden.json from the current tree (done once, by hand)")
	replay := flag.String("replay", "", "re-run the rule instance recorded in this violation file")
	evdir := flag.String("evidence", "", "directory for evidence files (default <verif>/evidence)")
	canary := flag.String("canary", "", "thorough tier: JSON results of the canary mutants (written by selftest.py --canary)")
	flag.Parse()
	evidenceDir = *evdir
	canaryFile = *canary
	goldenDir = filepath.Join(*verif, "golden")

	if *replay != "" {
		os.Exit(doReplay(*repo, *verif, *replay))
	}
	p, err := Load(LoadOptions{Dir: *repo})
	if err != nil {
		fmt.Fprintln(os.Stderr, "CHECK-ERROR: cannot load/type-check the repository:", err)
		os.Exit(2)
	}
	if *dump != "" {
		debugDump(p, *dump)
		return
	}
	var u *Universe
	func() {
		defer func() {
			if r := recover(); r != nil {
				err = fmt.Errorf("analyser panic during discovery: %v", r)
				if os.Getenv("FPCHECK_DEBUG") != "" {
					panic(r)
				}
			}
		}()
		u, err = Discover(p)
	}()
	if err != nil {
		// the tree compiles but its codecs, tables or services cannot be made out: nothing can be shown to hold on it –
		// for a prover that is a failure of every property asked about, reported as such (not an error of the check)
		if pi, ok := props[*prop]; ok && *dump == "" && !*layouts && !*emit {
			rep := NewReport(*prop, pi.level, *tier, 0)
			rep.Ob("X0-universe-discovered", "module", false, "-", "the module's codec types, tables and services could not be made out, so the property is not shown to hold: "+err.Error())
			kf, kerr := loadKnown(filepath.Join(*verif, "known_findings.json"))
			if kerr == nil {
				os.Exit(rep.Finish(*verif, kf, fmt.Sprintf("fpcheck -repo %s -property %s -tier %s", *repo, *prop, *tier)))
			}
		}
		fmt.Fprintln(os.Stderr, "CHECK-ERROR: universe discovery:", err)
		os.Exit(2)
	}
	a := NewAnalysis(p, u)
	if *layouts {
		debugLayouts(a)
		return
	}
	if *emit {
		if err := a.EmitGolden(filepath.Join(goldenDir, "golden.json")); err != nil {
			fmt.Fprintln(os.Stderr, "emit-golden:", err)
			os.Exit(2)
		}
		fmt.Println("wrote", filepath.Join(goldenDir, "golden.json"))
		return
	}
	if *prop == "all" {
		var ids []string
		for id := range props {
			ids = append(ids, id)
		}
		sort.Strings(ids)
		rc := 0
		for _, id := range ids {
			if c := runProperty(a, *verif, id, *tier); c > rc {
				rc = c
			}
		}
		os.Exit(rc)
	}
	os.Exit(runProperty(a, *verif, *prop, *tier))
}

var evidenceDir, canaryFile string

func runProperty(a *Analysis, verif, prop, tier string) int {
	pi, ok := props[prop]
	if !ok {
		fmt.Fprintf(os.Stderr, "CHECK-ERROR: unknown property %q\n", prop)
		return 2
	}
	seed, _ := strconv.Atoi(os.Getenv("VERIF_SEED"))
	rep := NewReport(prop, pi.level, tier, seed)
	rep.Notes = append(rep.Notes, "configuration: "+a.P.Config, "analysis is deterministic; VERIF_SEED is recorded but unused")
	kf, err := loadKnown(filepath.Join(verif, "known_findings.json"))
	if err != nil {
		fmt.Fprintln(os.Stderr, "CHECK-ERROR:", err)
		return 2
	}
	func() {
		defer func() {
			if r := recover(); r != nil {
				// the analysis of this tree did not complete: the property is not shown to hold on it
				rep.Ob("X0-analysis-completed", "analyser", false, "-", fmt.Sprintf("the analysis did not complete on this tree (internal error: %v): the property is not shown to hold", r))
				if os.Getenv("FPCHECK_DEBUG") != "" {
					panic(r)
				}
			}
		}()
		pi.fn(a, rep, tier)
		if tier == "thorough" {
			thoroughExtras(a, rep, prop, pi)
			canaryResults(rep)
		}
	}()
	cmd := fmt.Sprintf("fpcheck -repo %s -property %s -tier %s", a.P.RepoDir, prop, tier)
	return rep.Finish(verif, kf, cmd)
}

func doReplay(repo, verif, file string) int {
	base := filepath.Base(file)
	i := strings.Index(base, "-")
	if i < 0 {
		fmt.Fprintln(os.Stderr, "not a violation file:", file)
		return 2
	}
	prop := base[:i]
	b, err := os.ReadFile(file)
	if err != nil {
		fmt.Fprintln(os.Stderr, err)
		return 2
	}
	fmt.Printf("recorded violation:\n%s\nre-running %s on the current tree:\n", b, prop)
	p, err := Load(LoadOptions{Dir: repo})
	if err != nil {
		fmt.Fprintln(os.Stderr, "CHECK-ERROR:", err)
		return 2
	}
	u, err := Discover(p)
	if err != nil {
		fmt.Fprintln(os.Stderr, "CHECK-ERROR:", err)
		return 2
	}
	return runProperty(NewAnalysis(p, u), verif, prop, "quick")
}

func debugDump(p *Program, pat string) {
	u, _ := Discover(p)
	var fns []*ssa.Function
	for fn := range p.AllFuncs {
		if p.InModule(fn) && strings.Contains(fn.String(), pat) && fn.Blocks != nil && !p.IsTestFile(fn.Pos()) {
			fns = append(fns, fn)
		}
	}
	sort.Slice(fns, func(i, j int) bool { return fns[i].String() < fns[j].String() })
	for _, fn := range fns {
		e := NewEngine(p)
		e.IsCodecMethod = func(f *ssa.Function) bool { return f != fn && u != nil && u.IsCodecMethod(f) }
		paths, err := e.AnalyzeRoot(fn, nil)
		fmt.Printf("=== %s (%d paths) err=%v\n", fn, len(paths), err)
		for i, pa := range paths {
			fmt.Printf(" path %d [%s]: ret=%s\n   conds: %s\n", i, pathKind(pa), prettyVals(pa.Ret), condString(pa.Conds))
			for _, ev := range pa.Events {
				if ev.Kind == EvLoadGlobal {
					continue
				}
				fmt.Printf("   %s  @%s\n", ev, p.Pos(ev.Pos))
			}
		}
	}
}

func debugLayouts(a *Analysis) {
	u := a.U
	fmt.Printf("types=%d tables=%d prims=%d services=%d\n", len(u.Types), len(u.Tables), len(u.Prims), len(u.Services))
	nreg := 0
	for _, t := range u.Tables {
		nreg += len(t.Regs)
		fmt.Printf("table %s key=%s regs=%d registrar=%d lookups=%d other=%d\n", t.Name, t.KeyType, len(t.Regs), len(t.Registrar), len(t.Lookups), len(t.OtherRefs))
	}
	fmt.Println("registrations:", nreg)
	for _, s := range u.Services {
		fmt.Printf("service %s name=%q\n", s.Type.Obj().Name(), s.Name)
	}
	fmt.Println("registry startup assumption:", a.RegistryStartup, a.RegistryMutCall)
	for _, r := range a.AllResults() {
		fmt.Printf("== %s encPaths=%d decPaths=%d encOK=%d decOK=%d pruned=%d errs=%v %v\n", r.CT.Name, len(r.EncPaths), len(r.DecPaths), len(r.Enc), len(r.Dec), r.Pruned, r.EncErr, r.DecErr)
		for _, pl := range r.Enc {
			fmt.Printf("  ENC [%s] bodynil=%v\n      %s\n", pl.Conds, pl.BodyNil, pl.Layout.Canon())
		}
		for _, pl := range r.Dec {
			fmt.Printf("  DEC [%s]\n      %s\n", pl.Conds, pl.Layout.Canon())
		}
	}
}

// thoroughExtras: the second extractor and the additional build configurations (DESIGN §8).
func thoroughExtras(a *Analysis, rep *Report, prop string, pi propInfo) {
	if prop == "C01" || prop == "C02" || prop == "C07" || prop == "C08" {
		a.CrossCheckAST(rep)
	}
	base := map[string]bool{}
	for _, v := range rep.Violations {
		base[v.Key] = true
	}
	configs := []LoadOptions{
		{Dir: a.P.RepoDir, Tags: "verif"},
		{Dir: a.P.RepoDir, Tests: true},
		{Dir: a.P.RepoDir, Arch: "386"},
	}
	for _, opt := range configs {
		name := fmt.Sprintf("tags=%q tests=%v arch=%s", opt.Tags, opt.Tests, archOr(opt.Arch))
		p2, err := Load(opt)
		if err != nil {
			rep.Notes = append(rep.Notes, "configuration "+name+": cannot be loaded: "+err.Error())
			if opt.Arch == "" {
				rep.Ob("CFG-loads", name, false, "-", "build configuration cannot be loaded: "+err.Error())
			}
			continue
		}
		u2, err := Discover(p2)
		if err != nil {
			rep.Ob("CFG-loads", name, false, "-", "universe discovery failed: "+err.Error())
			continue
		}
		r2 := NewReport(prop, pi.level, "quick", 0)
		func() {
			defer func() {
				if r := recover(); r != nil {
					r2.Fatal = append(r2.Fatal, fmt.Sprint("analyser panic: ", r))
				}
			}()
			pi.fn(NewAnalysis(p2, u2), r2, "quick")
		}()
		extra := 0
		for _, v := range r2.Violations {
			if base[v.Key] {
				continue
			}
			extra++
			if opt.Arch != "" {
				rep.Notes = append(rep.Notes, fmt.Sprintf("configuration %s only: %s at %s: %s", name, v.Key, v.Pos, v.Msg))
				continue
			}
			rep.Violate("CFG["+name+"]:"+v.Rule, strings.TrimPrefix(v.Key, v.Rule+":"), v.Pos, "under build configuration "+name+": "+v.Msg, nil)
		}
		rep.Ob("CFG-same-verdict", name, extra == 0 || opt.Arch != "", "-", fmt.Sprintf("%d violations appear only under configuration %s", extra, name))
		rep.Notes = append(rep.Notes, fmt.Sprintf("configuration %s: obligations=%d discharged=%d violations=%d (default: %d/%d)", name, r2.Obligations, r2.Discharged, len(r2.Violations), rep.Discharged, rep.Obligations))
	}
}

// canaryResults folds the canary run into the report: a rule that does not fire on its canary makes the check itself broken.
func canaryResults(rep *Report) {
	if canaryFile == "" {
		return
	}
	b, err := os.ReadFile(canaryFile)
	if err != nil {
		rep.Notes = append(rep.Notes, "canaries: "+err.Error())
		return
	}
	var rs []struct{ ID, Status, Detail string }
	if err := json.Unmarshal(b, &rs); err != nil {
		rep.Notes = append(rep.Notes, "canaries: "+err.Error())
		return
	}
	ran, skipped := 0, 0
	for _, r := range rs {
		switch r.Status {
		case "CAUGHT", "UNNAMED":
			ran++
			rep.Ob("CANARY-fires", r.ID, true, "", "")
		case "BROKEN-CASE":
			skipped++ // the tree differs from the one the canary was written for
		default:
			ran++
			rep.Fatal = append(rep.Fatal, fmt.Sprintf("canary %s (%s): the check did not report a mutant that breaks the property: %s", r.ID, r.Status, r.Detail))
		}
	}
	rep.Counts["canaries_fired"] = ran
	rep.Counts["canaries_skipped"] = skipped
}
