package main

import (
	"os"
	"go/token"
	"go/constant"
	"fmt"
	"go/types"
	"sort"
	"strings"

	"golang.org/x/tools/go/ssa"
)

// mirrorProblems: disagreements between the Encode and Decode wire terms of a type (shared by C01, C07, C08).
func (a *Analysis) mirrorProblems(ct *CodecType) (problems []string, pos string) {
	tl := a.Layouts(ct)
	pos = a.P.Pos(ct.Decode.Pos())
	if len(tl.Problems) > 0 {
		return tl.Problems, pos
	}
	if tl.EncMain == nil || tl.DecMain == nil {
		return []string{"no success path"}, pos
	}
	enc, dec := tl.EncMain.Layout, tl.DecMain.Layout
	if len(enc.Fields) != len(dec.Fields) {
		problems = append(problems, fmt.Sprintf("Encode writes %d fields, Decode reads %d", len(enc.Fields), len(dec.Fields)))
	}
	for i := 0; i < min(len(enc.Fields), len(dec.Fields)); i++ {
		e2, d2 := *enc.Fields[i], *dec.Fields[i]
		dynFill(&e2, &d2)
		dynFill(&d2, &e2)
		if e2.Kind == "irregular" || d2.Kind == "irregular" {
			problems = append(problems, fmt.Sprintf("field %d not recognised: %s%s", i, e2.Note, d2.Note))
			pos = a.P.Pos(d2.Pos)
			continue
		}
		if e2.WireCanon() != d2.WireCanon() {
			problems = append(problems, fmt.Sprintf("field %d: written as %s, read as %s", i, e2.WireCanon(), d2.WireCanon()))
			pos = a.P.Pos(d2.Pos)
		}
		if e2.GoField != d2.GoField {
			problems = append(problems, fmt.Sprintf("field %d: written from %q, read into %q", i, e2.Name, d2.Name))
			pos = a.P.Pos(d2.Pos)
		}
	}
	for _, pl := range tl.R.Dec {
		if i, d := sameShape(tl.DecMain.Layout, pl.Layout, true); i >= 0 {
			problems = append(problems, fmt.Sprintf("decode paths disagree at field %d: %s", i, d))
		}
	}
	// a dynamic part is mirrored only if its table is unambiguous: two registrations of one key make the body type
	// that is built depend on initialisation order
	for _, f := range dec.Fields {
		if f.Kind == "dyn" {
			if dup := a.duplicateKeys(f.Table); dup != "" {
				problems = append(problems, "discriminator table "+f.Table+" registers "+dup+" more than once: which body decodes depends on init order")
			}
		}
	}
	return
}

func (a *Analysis) duplicateKeys(table string) string {
	t := a.tableByName(table)
	if t == nil {
		return ""
	}
	seen := map[string]bool{}
	for _, r := range t.Regs {
		if seen[r.Key] {
			return "key " + r.Key
		}
		seen[r.Key] = true
	}
	return ""
}

// readerPrims: primitives (generic origins and all their instantiations) with their analysed paths.
type primPaths struct {
	fn    *ssa.Function
	paths []*Path
	err   error
}

func (a *Analysis) allPrimPaths() []*primPaths {
	insts := a.instancesOf()
	var out []*primPaths
	for _, f := range a.U.Prims {
		fns := append([]*ssa.Function{f}, insts[f]...)
		for _, fn := range fns {
			if fn.Blocks == nil {
				continue
			}
			pp := &primPaths{fn: fn}
			pp.paths, pp.err = a.engineFor(fn).AnalyzeRoot(fn, nil)
			out = append(out, pp)
		}
	}
	return out
}

func hasEvent(paths []*Path, pred func(*Event) bool) bool {
	found := false
	for _, p := range paths {
		walkEvents(p.Events, func(e *Event, _ int) {
			if pred(e) {
				found = true
			}
		})
	}
	return found
}

func isRead(e *Event) bool  { return e.Kind == EvReadInt || e.Kind == EvReadBytes }
func isWrite(e *Event) bool { return e.Kind == EvWriteInt || e.Kind == EvWriteBytes || e.Kind == EvPatch }

// ---------------------------------------------------------------------------
// C07

func (a *Analysis) decodeBufferUse(rep *Report, rule, key string, paths []*Path) (n int) {
	for _, p := range paths {
		walkWithConds(p, func(e *Event, conds []Cond, _ []*Event) {
			if e.Kind != EvReadBytes || e.Mode != "Next" {
				return
			}
			// the short outcome of an unguarded Next is a path of its own: exact consumption then means that path fails
			ok := !e.Failed || pathKind(p) == "err"
			rep.Ob(rule, key+":Next@"+siteKey(e), ok, a.P.Pos(e.Pos), "buf.Next("+e.Size.Pretty()+") takes however many bytes are left (up to that many); nothing establishes that exactly that many were available, before or after")
		})
		walkEvents(p.Events, func(e *Event, _ int) {
			if e.Buf == nil && e.Kind != EvObj {
				return
			}
			epos := a.P.Pos(e.Pos)
			switch e.Kind {
			case EvReadInt:
				n++
				_, ok := fixedSize(e.IntType)
				rep.Ob(rule, key+":READ_INT:"+typeStr(e.IntType), ok, epos, "number read without a fixed size")
			case EvReadBytes:
				n++
				if e.Mode == "Next" {
					return // judged above, with the conditions in force
				}
				rep.Ob(rule, key+":READ_BYTES:"+e.Mode, e.Mode == "ReadFull" || e.Mode == "Read", epos, "bytes consumed through "+e.Mode)
			case EvLen, EvBytes:
				n++
				rep.Ob(rule, key+":observer", true, epos, "")
			case EvObj:
				n++
				rep.Ob(rule, key+":nested", e.Dir == "Decode", epos, "decoding calls "+e.Dir+" on a nested part")
			case EvWriteInt, EvWriteBytes, EvPatch:
				n++
				rep.Ob(rule, key+":"+e.Kind.String(), false, epos, "decoding writes to the buffer: "+e.String())
			case EvBufOther:
				n++
				rep.Ob(rule, key+":"+e.Mode, observerMethods[e.Mode], epos, "decoding uses the buffer through "+e.Mode+": the number of bytes consumed is not tied to the encoder's atoms")
			case EvCalc:
				n++
				rep.Ob(rule, key+":calc", true, epos, "")
			}
		})
	}
	return
}

func (a *Analysis) CheckC07(rep *Report) {
	rep.Explanation = "S1/S3: the Decode wire term of every type mirrors the Encode term atom by atom (same number of atoms, each read consuming exactly the bytes its opposite write produces: the fixed size of the number type, a constant N, or the value of the bound prefix). S2: on every path of every Decode – module callees inlined, and every reader primitive separately in its generic body and all instantiations – each use of the buffer is a consuming atom with an exact length (binary.Read of a fixed-size number, io.ReadFull into a slice of the expected length, (*Buffer).Read whose count is checked – see C11), an observer, or a nested Decode; nothing skips, peeks, rewinds or writes. By induction over the term the decoder consumes exactly the encoder's bytes and never inspects what follows. S3: in the library's generic bodies, with type parameters identified by position, the set of wire renderings of the reader primitives equals that of the writer primitives (a list reader that takes its element prefix in the count's type has no writer)."
	rep.Trusted = trustedBase()
	rep.Exhaustive = true
	nev := 0
	for _, ct := range a.U.Types {
		probs, pos := a.mirrorProblems(ct)
		rep.Ob("S1-reads-mirror-writes", ct.Name, len(probs) == 0, pos, strings.Join(probs, "; "))
		// S4: a complete message followed by anything is decoded, not refused – an error path that is neither a failed read
		// nor an exact availability check turns away a message whose bytes are all there (the condition may even depend
		// on what follows the message)
		if tlr := a.Layouts(ct); tlr.R != nil {
			rej := a.spuriousRejections(tlr.R.DecPaths, false)
			rep.Ob("S4-complete-message-accepted", ct.Name, len(rej) == 0, pos, "Decode can refuse a message whose bytes are all present: "+strings.Join(rej, "; "))
		}
		r := a.Result(ct)
		if !rep.Ob("S0-analysable", ct.Name, r.DecErr == nil && len(r.DecPaths) > 0, pos, fmt.Sprint("Decode not analysable: ", r.DecErr)) {
			continue
		}
		nev += a.decodeBufferUse(rep, "S2-exact-consuming-atoms", ct.Name+".Decode", r.DecPaths)
	}
	// S5: exact consumption of the dynamic part presupposes that it is decoded as the type it was encoded as (C12)
	a.discriminatorPremise(rep, "S5-discriminators-verified-by-C12", "the discriminator does not build the pinned type: the decoder then consumes the bytes of a different layout")
	// S3: at the level of the library, in the generic bodies (type parameters by position): what a reader primitive
	// consumes is what some writer primitive produces, and the reverse – also for the instantiations no message uses
	probs, ppos, nr := a.primitiveMirror()
	for i, pr := range probs {
		rep.Ob("S3-primitive-mirror", fmt.Sprintf("prim#%d:%s", i, pr[:min(60, len(pr))]), false, ppos[i], pr)
	}
	if len(probs) == 0 {
		rep.Ob("S3-primitive-mirror", "all-primitives", true, "", "")
	}
	rep.Counts["primitive_renderings"] = nr
	rep.Floor("primitive_renderings", nr, 16)
	np := 0
	for _, pp := range a.allPrimPaths() {
		if !hasEvent(pp.paths, isRead) {
			continue
		}
		np++
		name := FuncName(pp.fn)
		if !rep.Ob("S0-analysable", name, pp.err == nil, a.P.Pos(pp.fn.Pos()), fmt.Sprint(pp.err)) {
			continue
		}
		nev += a.decodeBufferUse(rep, "S2-exact-consuming-atoms", name, pp.paths)
	}
	rep.Counts["buffer_uses"] = nev
	rep.Counts["reader_primitives_and_instances"] = np
	rep.Floor("codec_types", len(a.U.Types), goldenFloor("types", 170))
	rep.Floor("reader_primitives_and_instances", np, 40)
	rep.Sample(map[string]interface{}{"rule": "S2", "accepted": "READ_INT(fixed size) | READ_BYTES[ReadFull|Read](len = constant or preceding prefix) | Len/Bytes observers | nested Decode", "rejected": "Next, ReadByte, UnreadByte, Reset, Truncate, Write*, any unmodelled callee receiving the buffer"})
}

// ---------------------------------------------------------------------------
// C08

func (a *Analysis) CheckC08(rep *Report) {
	rep.Explanation = "Decode loses no wire information, structurally: R1 the Encode and Decode terms mirror each other (as C01/C07); R2 on the decode side every field value derives from the bytes read only through identity, []byte->string conversion and the pad-side strip, and on the encode side the bytes derive from the field only through string->[]byte, cut to N and padding – any arithmetic, clamping, trimming call, case folding or replacement on either value path is reported with the field; R3 the strip byte and side of each fixed-text reader equal the pad byte and side of its writer, with a cutset that denotes exactly that byte; R4 list readers append in read order and list writers iterate in index order; R5 the only encode atoms not sourced from the field that the decoder filled are the self-computed length and checksum."
	rep.Trusted = append(trustedBase(), "value semantics of bytes.TrimLeft/TrimRight for an ASCII cutset; encoding/binary is bit-preserving")
	rep.Exhaustive = true
	nf := 0
	for _, ct := range a.U.Types {
		probs, pos := a.mirrorProblems(ct)
		if !rep.Ob("R1-mirror", ct.Name, len(probs) == 0, pos, strings.Join(probs, "; ")) {
			continue
		}
		tl := a.Layouts(ct)
		for i, fd := range tl.DecMain.Layout.Fields {
			fe := tl.EncMain.Layout.Fields[i]
			nf++
			key := fmt.Sprintf("%s#%d(%s)", ct.Name, i, fd.Name)
			dops, eops := opsOnAllPaths(tl.R.Dec, i), opsOnAllPaths(tl.EncAll, i)
			rep.Ob("R2-lossless-decode-path", key, len(dops) == 0, a.P.Pos(fd.Pos), "decoded value is transformed: "+strings.Join(dops, "; "))
			rep.Ob("R2-lossless-encode-path", key, len(eops) == 0, a.P.Pos(fe.Pos), "encoded value is transformed: "+strings.Join(eops, "; "))
			for _, pair := range [][2]*FieldLayout{{fe, fd}, {fe.Elem, fd.Elem}} {
				e, d := pair[0], pair[1]
				if e == nil || d == nil || e.Kind != "fixed" {
					continue
				}
				ok := e.Pad == d.Pad && e.Side == d.Side
				if e.Pad == "" && e.Side == "" { // writer never pads (cut only): reader must not strip
					ok = d.Pad == "" && d.Side == ""
				}
				rep.Ob("R3-strip-equals-pad", key, ok, a.P.Pos(d.Pos), fmt.Sprintf("writer pads with byte %s on the %s, reader strips %s on the %s", e.Pad, e.Side, d.Pad, d.Side))
			}
			if fe.Kind == "list" && len(fe.Ev) == 2 {
				rep.Ob("R4-list-order", key, listAscending(fe.Ev[1]), a.P.Pos(fe.Pos), "list writer does not emit the elements in index order 0,1,2,…")
			}
			switch fe.Kind {
			case "len", "checksum":
				rep.Ob("R5-computed-field", key, fd.Kind == "int", a.P.Pos(fe.Pos), "computed field is not read back as a plain number")
			case "const", "irregular":
				rep.Ob("R5-only-computed-differ", key, false, a.P.Pos(fe.Pos), "encoder writes "+fe.Canon()+" where the decoder fills field "+fd.Name)
			}
		}
	}
	// R5 (cont.): "the only permitted differences are those fields being replaced by their correct values": that the
	// values a frame computes ARE the correct ones is C04's and C05's verdict – a frame that writes a length taken from
	// a Size() method which disagrees with Encode re-encodes accepted bytes with a wrong length
	for _, sub := range []struct {
		id  string
		run func(*Report)
	}{{"C04", a.CheckC04}, {"C05", a.CheckC05}} {
		scratch := NewReport(sub.id, "other", "quick", 0)
		sub.run(scratch)
		for _, v := range scratch.Violations {
			rep.Ob("R5-computed-fields-verified-by-"+sub.id, v.Key, false, v.Pos, "a field the frame computes itself does not pass "+sub.id+", so re-encoding replaces it by something other than its correct value: "+v.Msg)
		}
		if len(scratch.Violations) == 0 {
			rep.Ob("R5-computed-fields-verified-by-"+sub.id, "all-frames", true, "", "")
		}
	}
	// R6: re-encoding the decoded value reproduces the bytes only if the dynamic part was decoded as the type it was
	// encoded as (C12): a different type re-encodes a different layout
	a.discriminatorPremise(rep, "R6-discriminators-verified-by-C12", "the discriminator does not build the pinned type: the dynamic part is decoded as another layout and re-encodes differently")
	rep.Counts["fields"] = nf
	rep.Floor("fields", nf, goldenFloor("fields", 1000))
	rep.Sample(map[string]interface{}{"allow_list_decode": []string{"wire value itself", "string(bytes)", "bytes.TrimLeft/TrimRight(bytes, string(pad)) on the pad side", "append in read order"}, "allow_list_encode": []string{"[]byte(text)", "[:N] cut", "pad bytes before/after", "T(len(x)) prefix"}})
}

// listAscending: every element the loop body touches is indexed by (loop variable + c) whose first value is 0.
func listAscending(rep *Event) bool {
	if rep.Kind == EvRep && rep.Bounded == "bulk" {
		return true // encoding/binary writes a slice in index order
	}
	if rep.Kind != EvRep || (rep.Bounded != "range" && rep.Bounded != "counted") {
		return false
	}
	ok := true
	seen := false
	for _, arm := range rep.Iter {
		walkEvents(arm.Events, func(e *Event, _ int) {
			for _, v := range []*Val{e.Src, e.Recv} {
				if v == nil {
					continue
				}
				v.Walk(func(x *Val) bool {
					if x.Op == "index" && len(x.Args) == 2 {
						idx := x.Args[1]
						if !idx.Contains(func(y *Val) bool { return y.Op == "loopvar" && y.ID == rep.LoopID }) {
							return true
						}
						seen = true
						aff := affOf(idx)
						if aff.Top || len(aff.Term) != 1 {
							ok = false
							return false
						}
						for k, c := range aff.Term {
							lv := aff.Sym[k]
							if c != 1 || lv.Op != "loopvar" || len(lv.Args) != 1 {
								ok = false
								return false
							}
							init, isC := lv.Args[0].Int64()
							if !isC || init+aff.C != 0 {
								ok = false
							}
						}
					}
					return true
				})
			}
		})
	}
	return ok && seen
}

// ---------------------------------------------------------------------------
// C11

func (a *Analysis) tableMiss(p *Path) bool {
	for _, c := range p.Conds {
		if c.V.Op == "lookupok" && !c.Taken && !a.isRegistryMap(c.V.Args[0]) {
			return true
		}
		// the same miss written as a nil test of the looked-up factory (a map yields nil for an absent key), or a
		// defensive test that the factory's result is nil
		if v := c.V; v.Op == "binop" && (v.Name == "==" || v.Name == "!=") && len(v.Args) == 2 && (v.Name == "==") == c.Taken {
			for side := 0; side < 2; side++ {
				if !v.Args[1-side].IsNilConst() {
					continue
				}
				x := stripIface(stripCT(v.Args[side]))
				if x.Op == "dyncall" && len(x.Args) > 0 {
					x = stripCT(x.Args[0])
				}
				if x.Op == "lookup" && len(x.Args) == 2 && !a.isRegistryMap(x.Args[0]) && tableName(x.Args[0]) != "" {
					return true
				}
			}
		}
	}
	return false
}

func (a *Analysis) errorDiscipline(rep *Report, key string, fn *ssa.Function, paths []*Path) (nFail int) {
	for _, p := range paths {
		var failed []*Event
		swallowed := ""
		var scan func(evs []*Event, inRep bool)
		scan = func(evs []*Event, inRep bool) {
			for _, e := range evs {
				if e.Failed {
					if inRep {
						// a completed iteration that contains a failed read: the loop went on
						swallowed = e.String() + " at " + a.P.Pos(e.Pos)
					} else {
						failed = append(failed, e)
					}
				}
				for _, arm := range e.Iter {
					scan(arm.Events, inRep || e.Kind == EvRep)
				}
			}
		}
		scan(p.Events, false)
		// E2b: (*Buffer).Next hands back fewer bytes than asked for without any error: it must be dominated by an exact
		// availability check of the same length
		walkWithConds(p, func(x *Event, conds []Cond, _ []*Event) {
			if x.Kind != EvReadBytes || x.Mode != "Next" || len(x.Args) != 1 {
				return
			}
			// either a dominating check establishes that the bytes are there (then there is no short outcome), or the
			// short outcome is a path of its own, which must end in an error like any failed read
			ok := !x.Failed || pathKind(p) == "err"
			rep.Ob("E2-next-reports-nothing", key+":Next@"+siteKey(x), ok, a.P.Pos(x.Pos),
				"buf.Next("+x.Args[0].Pretty()+") silently returns fewer bytes on a short buffer; no dominating check establishes that that many bytes are available and the length of the result is not checked afterwards: a truncated message is accepted")
		})
		// E3: the number of elements a decoder reads is exactly the count on the wire (never clamped or adjusted)
		walkEvents(p.Events, func(x *Event, _ int) {
			if x.Kind != EvRep || !hasEvent([]*Path{{Events: []*Event{x}}}, func(y *Event) bool { return isRead(y) || (y.Kind == EvObj && y.Dir == "Decode") }) {
				return
			}
			if !x.Count.Contains(func(v *Val) bool { return v.Op == "wire" || v.Op == "bufbytes" || v.Op == "buflen" }) {
				return
			}
			aff := affOf(x.Count)
			exact := !aff.Top && aff.C == 0 && len(aff.Term) == 1
			if exact {
				for k, c := range aff.Term {
					sym := aff.Sym[k]
					// the count as read, or as assembled by hand from exactly the bytes read
					byHand := sym.Op == "call" && strings.HasPrefix(sym.Name, "(encoding/binary.") && strings.Contains(sym.Name, "Endian).Uint") && len(sym.Args) == 1 && stripCT(sym.Args[0]).Op == "wire"
					exact = c == 1 && (sym.Op == "wire" || byHand)
				}
			}
			rep.Ob("E3-exact-count", key+":loop@"+siteKey(x), exact, a.P.Pos(x.Pos),
				"the number of elements read is "+x.Count.Pretty()+", not exactly the count on the wire: a list cut short by truncation decodes as a shorter list instead of failing")
		})
		if swallowed != "" {
			nFail++
			rep.Ob("E1-failure-leaves-loop", key+":loop", false, a.P.Pos(fn.Pos()), "a failed read inside a loop does not leave the loop with an error: "+swallowed)
		}
		miss := a.tableMiss(p)
		if len(failed) == 0 && !miss {
			continue
		}
		nFail++
		kind := pathKind(p)
		what := "unknown discriminator"
		pos := a.P.Pos(fn.Pos())
		ck := "lookup-miss"
		if len(failed) > 0 {
			f := failed[0]
			what = f.String()
			pos = a.P.Pos(rootPos(f))
			ck = fmt.Sprintf("%s@%s", f.Kind, a.callChain(f))
		}
		rule := "E1-failure-returns-error"
		if len(failed) > 0 && failed[0].Short {
			rule = "E2-short-read-checked"
		}
		var ret string
		if len(p.Ret) > 0 {
			ret = p.Ret[len(p.Ret)-1].Pretty()
		}
		if miss && len(failed) == 0 && commaOkFalse(p) {
			kind = "err" // a look-up helper of the comma-ok shape: false is its failure signal (its callers are judged on what they do with it)
		}
		rep.Ob(rule, key+":"+ck, kind == "err", pos, fmt.Sprintf("after %s the function can return %s (path kind %s): a truncated input is reported as success", what, ret, kind))
	}
	return
}

// callChain names the chain of callees an inlined event sits in (stable across line changes).
func (a *Analysis) callChain(e *Event) string {
	var parts []string
	for s := e.Site; s != nil; s = s.Parent {
		parts = append(parts, s.Callee.Name())
	}
	// which occurrence within the root: position-free ordinal is not available; use the root call position's callee + index of field
	sort.SliceStable(parts, func(i, j int) bool { return false })
	return strings.Join(parts, "<")
}

func (a *Analysis) CheckC11(rep *Report) {
	rep.Explanation = "E1: on every path of every Decode (module callees inlined) and of every reader primitive (generic body and every instantiation) on which a consuming atom fails, a nested Decode fails or a discriminator is not registered, the function returns an error that is provably non-nil (the callee's error itself, or fmt.Errorf/errors.New); discarded, overwritten or weakly tested errors, `return nil` in an error arm and loops that continue after a failed read all fall out of the same path analysis. E2: for (*Buffer).Read, which reports a short read through its count and not through an error, the short outcome is modelled separately and must also end in a non-nil error. E3 (exact expected lengths) is S2 of C07. Argument: decoding a strict prefix of a valid encoding proceeds as on the full encoding until the first atom that needs a byte beyond the cut (it exists because decoding consumes all of the encoding, C07); that atom fails, E2 turns the failure into an error, E1 carries it to the caller."
	rep.Trusted = trustedBase()
	rep.Exhaustive = true
	total, typesFailing := 0, 0
	for _, ct := range a.U.Types {
		r := a.Result(ct)
		pos := a.P.Pos(ct.Decode.Pos())
		if !rep.Ob("E0-analysable", ct.Name, r.DecErr == nil && len(r.DecPaths) > 0, pos, fmt.Sprint("Decode not analysable: ", r.DecErr)) {
			continue
		}
		nf := a.errorDiscipline(rep, ct.Name+".Decode", ct.Decode, r.DecPaths)
		total += nf
		// E4: the argument's premise – every success path of Decode consumes the whole encoding (C07 S1). A success path
		// that reads fewer atoms than Encode writes (a read skipped when the bytes are not there, a field the encoder
		// added and the decoder ignores) accepts a message cut inside what it does not read.
		if probs, ppos := a.mirrorProblems(ct); len(probs) > 0 {
			rep.Ob("E4-success-paths-consume-the-whole-encoding", ct.Name, false, ppos, "C07 S1 does not hold, so a cut inside the part some success path does not read goes unnoticed: "+strings.Join(probs, "; "))
		} else {
			rep.Ob("E4-success-paths-consume-the-whole-encoding", ct.Name, true, "", "")
		}
		// a Decode that reads anything has a way to fail: a failed read, or an availability check that refuses
		nerr := 0
		for _, p := range r.DecPaths {
			if pathKind(p) == "err" {
				nerr++
			}
		}
		if nf > 0 || nerr > 0 {
			typesFailing++
		}
	}
	// E5: the other premise: the dynamic part is decoded as the type the schema pairs with the discriminator read – a
	// table that builds a shorter type for a key accepts every cut behind that type's last byte (C12)
	a.discriminatorPremise(rep, "E5-discriminators-verified-by-C12", "the discriminator does not build the pinned type: a message cut behind the (shorter) type it does build is accepted")
	np := 0
	for _, pp := range a.allPrimPaths() {
		if !hasEvent(pp.paths, isRead) && !hasEvent(pp.paths, func(e *Event) bool { return e.Kind == EvObj && e.Dir == "Decode" }) {
			continue
		}
		np++
		name := FuncName(pp.fn)
		if !rep.Ob("E0-analysable", name, pp.err == nil, a.P.Pos(pp.fn.Pos()), fmt.Sprint(pp.err)) {
			continue
		}
		total += a.errorDiscipline(rep, name, pp.fn, pp.paths)
	}
	// lookup functions: a miss returns (nil, non-nil error)
	for _, t := range a.U.Tables {
		for _, lf := range t.Lookups {
			paths, err := a.engineFor(lf).AnalyzeRoot(lf, nil)
			if !rep.Ob("E0-analysable", FuncName(lf), err == nil, a.P.Pos(lf.Pos()), fmt.Sprint(err)) {
				continue
			}
			total += a.errorDiscipline(rep, FuncName(lf), lf, paths)
		}
	}
	rep.Counts["failing_paths"] = total
	rep.Counts["reader_primitives_and_instances"] = np
	// (how many failing paths there are depends on the spelling – a read behind an availability check has no failing
	// outcome of its own; what must not shrink is the number of decoders that can fail at all)
	rep.Counts["decoders_with_error_paths"] = typesFailing
	rep.Floor("decoders_with_error_paths", typesFailing, goldenFloor("types", 170)*4/5)
	rep.Floor("failing_paths", total, 150)
	rep.Floor("codec_types", len(a.U.Types), goldenFloor("types", 170))
	rep.Sample(map[string]interface{}{"obligation": "path with READ_INT … FAILED must return err<non-nil>", "example": "szse.Logon.Decode: failure of the 3rd read returns err<binary.Read>"})
}

// ---------------------------------------------------------------------------
// C15

func (a *Analysis) CheckC15(rep *Report) {
	rep.Explanation = "D1 must-assign: on every success path of every Decode each field of the receiver struct is stored, or – for a nested part of fixed static type – its own Decode is invoked on it (that type is checked by the same rules). D2 no dependence on old state: no value stored into the receiver, no receiver of a dynamic part's Decode and no branch condition derives from the receiver's previous content, except the nil test that decides whether a nested pointer part must be allocated. D3 fresh results: list values are accumulations that start from a fresh empty slice of the same activation; no decode path writes package-level state."
	rep.Trusted = trustedBase()
	rep.Exhaustive = true
	nfields := 0
	for _, ct := range a.U.Types {
		r := a.Result(ct)
		pos := a.P.Pos(ct.Decode.Pos())
		if !rep.Ob("D0-analysable", ct.Name, r.DecErr == nil && len(r.Dec) > 0, pos, fmt.Sprint("Decode not analysable or no success path: ", r.DecErr)) {
			continue
		}
		for _, pl := range r.Dec {
			p := pl.Path
			stores := storeTargets(p.Events)
			nested := map[int]*Event{}
			for _, e := range p.Events {
				if e.Kind == EvObj && e.Dir == "Decode" && !e.Failed {
					recv := stripCT(e.Recv)
					if idx, ok := recvField(recv); ok {
						nested[idx] = e
					} else if idx, ok := recvFieldAddr(recv); ok {
						nested[idx] = e
					}
				}
			}
			for idx := 0; idx < ct.Struct.NumFields(); idx++ {
				nfields++
				fname := ct.Struct.Field(idx).Name()
				key := fmt.Sprintf("%s.%s[%s]", ct.Name, fname, pl.Conds)
				st, stored := stores[idx]
				ne, isNested := nested[idx]
				inline := false
				if !stored && !isNested {
					// a struct-valued part whose every field is stored inline (p.Sub.f = …) is assigned field by field
					if sv, isStruct := ct.Struct.Field(idx).Type().Underlying().(*types.Struct); isStruct && sv.NumFields() > 0 {
						got := map[int]bool{}
						for _, e := range p.Events {
							if e.Kind == EvStore {
								if o, in, ok := nestedFieldAddr(e.Dst); ok && o == idx && e.Dst.Args[0].Op == "field" {
									got[in] = true
								}
							}
						}
						inline = len(got) == sv.NumFields()
					}
				}
				if inline {
					rep.Ob("D1-must-assign", key, true, "", "")
					continue
				}
				if !rep.Ob("D1-must-assign", key, stored || isNested, pos, "field "+fname+" is neither assigned nor decoded into on this success path: it keeps the receiver's previous content") {
					continue
				}
				if stored {
					old := oldStateIn(st.Src)
					rep.Ob("D2-no-old-state", key, old == "", a.P.Pos(st.Pos), "value stored into "+fname+" derives from the receiver's previous content: "+old)
				}
				if isNested && !stored {
					// reuse of the previous occupant is allowed only for statically typed nested parts
					rep.Ob("D2-dynamic-part-rebuilt", key, ne.Callee != nil, a.P.Pos(ne.Pos), "the previous body/extension object is reused as the target of Decode")
				}
			}
			// dynamic parts: the object decoded into must be the one built in this call
			for _, e := range p.Events {
				if e.Kind == EvObj && e.Callee == nil && e.Dir == "Decode" {
					old := oldStateIn(e.Recv)
					rep.Ob("D2-dynamic-part-rebuilt", ct.Name+":dyn["+pl.Conds+"]", old == "", a.P.Pos(e.Pos), "Decode is invoked on the receiver's previous body/extension: "+old)
				}
			}
			// elements of lists (anything decoded inside a loop): the object decoded into must be made in this call, and
			// what the loop does must not depend on what the receiver held
			walkEvents(p.Events, func(e *Event, depth int) {
				if depth > 0 && e.Kind == EvObj && e.Dir == "Decode" {
					old := oldStateIn(e.Recv)
					rep.Ob("D2-element-objects-fresh", ct.Name+":elem@"+siteKey(e)+"["+pl.Conds+"]", old == "", a.P.Pos(e.Pos), "a list element is decoded into an object the receiver already held: "+old)
				}
				for _, arm := range e.Iter {
					for _, c := range arm.Conds {
						if old := oldStateIn(c.V); old != "" && e.Kind == EvRep {
							rep.Ob("D2-branch-on-old-state", ct.Name+":"+c.V.Pretty(), false, a.condPos(c, ct.Decode), "decoding branches on the receiver's previous content: "+c.String())
						}
					}
				}
			})
			// branch conditions
			for _, c := range p.Conds {
				if old := oldStateIn(c.V); old != "" {
					okNil := false
					v := c.V
					if v.Op == "binop" && (v.Name == "==" || v.Name == "!=") && v.Args[1].IsNilConst() {
						if idx, ok := recvField(v.Args[0]); ok {
							if _, isPtr := ct.Struct.Field(idx).Type().Underlying().(*types.Pointer); isPtr {
								okNil = true
							}
						}
					}
					rep.Ob("D2-branch-on-old-state", ct.Name+":"+c.V.Pretty(), okNil, a.condPos(c, ct.Decode), "decoding branches on the receiver's previous content: "+c.String())
				}
			}
			// D3
			for _, f := range pl.Layout.Fields {
				for _, op := range allValueOps(f) {
					if strings.HasPrefix(op, "list accumulates") || strings.HasPrefix(op, "list starts") {
						rep.Ob("D3-fresh-list", ct.Name+"."+f.Name, false, a.P.Pos(f.Pos), op)
					}
				}
				if f.Kind == "list" {
					rep.Ob("D3-fresh-list", ct.Name+"."+f.Name+"[ok]", true, "", "")
				}
			}
		}
		for _, p := range r.DecPaths {
			walkEvents(p.Events, func(e *Event, _ int) {
				if g := globalWritten(e); g != "" && !a.onceAssignment(e) {
					rep.Ob("D3-no-global-state", ct.Name+":"+g, false, a.P.Pos(e.Pos), "decoding writes package-level state "+g)
				}
			})
		}
	}
	rep.Counts["receiver_fields_x_paths"] = nfields
	rep.Floor("receiver_fields_x_paths", nfields, goldenFloor("fields", 1000))
	rep.Sample(map[string]interface{}{"obligation": "every struct field stored (or nested Decode invoked) on each success path; stored value free of init(receiver.*)", "exception": "nil test of a nested pointer part (sample.NestedPacket)"})
}

func oldStateIn(v *Val) string {
	if v == nil {
		return ""
	}
	s := ""
	v.Walk(func(x *Val) bool {
		if s != "" {
			return false
		}
		if x.Op == "init" {
			if r := addrRoot(x.Args[0]); r != nil && r.Op == "param" && r.ID == 0 {
				s = x.Pretty()
				return false
			}
		}
		return true
	})
	return s
}

func globalWritten(e *Event) string {
	switch e.Kind {
	case EvStore:
		r := addrRoot(e.Dst)
		for r != nil && r.Op == "init" {
			r = addrRoot(r.Args[0])
		}
		if r != nil && r.Op == "global" {
			return e.Dst.Pretty()
		}
	case EvMapWrite:
		r := addrRoot(stripCT(e.Recv))
		for r != nil && r.Op == "init" {
			r = addrRoot(r.Args[0])
		}
		if r != nil && r.Op == "global" {
			return e.Recv.Pretty()
		}
	}
	return ""
}

// ---------------------------------------------------------------------------
// C16

// aliasIn: a sub-term of v that shares memory with a buffer and is reachable without passing a copying operation.
func aliasIn(v *Val) *Val {
	if v == nil {
		return nil
	}
	// a copy of the buffer object itself (`view := *buf`): the copy's slice header points at the same array
	if v.Type != nil && (v.Op == "init" || v.Op == "fieldval" || v.Op == "struct") {
		if n, ok := v.Type.(*types.Named); ok && n.Obj().Name() == "Buffer" && n.Obj().Pkg() != nil && n.Obj().Pkg().Path() == "bytes" {
			if v.Op == "init" {
				return v
			}
		}
	}
	switch v.Op {
	case "bufbytes", "bufnext", "availbuf":
		return v
	case "conv":
		if v.Name == "convert" && isStringOrBytes(v.Type) {
			return nil // string(b) / []byte(s) copy
		}
		return aliasIn(v.Args[0])
	case "slice", "iface", "fieldval", "elem", "extract":
		return aliasIn(v.Args[0])
	case "len", "cap", "binop", "unop", "wire", "short", "const", "buflen", "calc", "lookupok":
		return nil
	case "call":
		switch v.Name {
		case "append":
			if a := aliasIn(v.Args[0]); a != nil {
				return a
			}
			// appended elements are copied; they alias only if they are themselves reference values
			if len(v.Args) > 1 && v.Args[1] != nil {
				if v.Args[1].Op == "arraylit" {
					for _, x := range v.Args[1].Args {
						if a := aliasIn(x); a != nil {
							return a
						}
					}
				}
			}
			return nil
		case "bytes.Repeat", "strings.Repeat", "fmt.Sprintf", "fmt.Errorf", "errors.New", "bytes.Clone", "strings.Clone", "bytes.ToUpper", "bytes.ToLower", "hash/crc32.ChecksumIEEE", "copy":
			return nil
		}
		if t := v.Type; t != nil {
			if b, ok := t.Underlying().(*types.Basic); ok && b.Info()&types.IsString == 0 {
				return nil // numbers and booleans carry no reference
			}
		}
		for _, x := range v.Args {
			if a := aliasIn(x); a != nil {
				return a
			}
		}
		return nil
	}
	for _, x := range v.Args {
		if a := aliasIn(x); a != nil {
			return a
		}
	}
	return nil
}

func (a *Analysis) CheckC16(rep *Report) {
	rep.Explanation = "Z1 (decode): values obtained from (*Buffer).Bytes/Next and anything sub-sliced from them are alias sources; on every path of every Decode and of every reader primitive no such value reaches a return value or a store into memory that outlives the call without passing a copying operation (string(b), []byte(s), copy, append of scalar elements, binary.Read / io.ReadFull into a fresh slice), and the buffer is never handed to code outside the model. Z2: no non-test file of the module imports unsafe or mentions reflect.SliceHeader/StringHeader – in Go a string or slice sharing the buffer's array can only be produced that way or by Z1's sources, so Z1+Z2 are complete. Z3 (encode): no Encode path stores through the buffer pointer or hands the buffer to unmodelled code; all bytes enter through copying atoms (Write/WriteString/binary.Write). The temporary view passed to a checksum service is accepted because every registered Calc is read-only (C14 H1)."
	rep.Trusted = append(trustedBase(), "aliasing entries of the stdlib model: Bytes/Next alias, Write/WriteString/Read/ReadFull copy, string<->[]byte conversions copy")
	rep.Exhaustive = true
	// Z2
	nfiles := 0
	for _, pk := range a.P.Pkgs {
		for _, f := range pk.Syntax {
			fname := a.P.Fset.Position(f.Pos()).Filename
			if strings.HasSuffix(fname, "_test.go") {
				continue
			}
			nfiles++
			for _, imp := range f.Imports {
				okImp := imp.Path.Value != `"unsafe"`
				if !okImp {
					// unsafe imported only for its compile-time constants (Sizeof, Alignof, Offsetof) makes no view of anything
					okImp = true
					for id, obj := range pk.TypesInfo.Uses {
						if obj.Pkg() != nil && obj.Pkg().Path() == "unsafe" && id.Pos() >= f.Pos() && id.Pos() <= f.End() {
							switch obj.Name() {
							case "Sizeof", "Alignof", "Offsetof":
							default:
								okImp = false
							}
						}
					}
				}
				rep.Ob("Z2-no-unsafe", pk.PkgPath+":"+imp.Path.Value, okImp, a.P.Pos(imp.Pos()), "non-test file imports unsafe: zero-copy views of the buffer become possible")
			}
		}
		for id, obj := range pk.TypesInfo.Uses {
			if obj.Pkg() != nil && obj.Pkg().Path() == "reflect" && (obj.Name() == "SliceHeader" || obj.Name() == "StringHeader") && !a.P.IsTestFile(id.Pos()) {
				rep.Ob("Z2-no-unsafe", pk.PkgPath+":reflect."+obj.Name(), false, a.P.Pos(id.Pos()), "reflect."+obj.Name()+" used")
			}
		}
	}
	rep.Counts["files"] = nfiles
	check := func(key string, fn *ssa.Function, paths []*Path, decode bool) {
		for _, p := range paths {
			// objects made on this path that leave it (returned, or stored into memory that outlives the call) take what
			// their fields hold with them: a view of the buffer kept in a field of a fresh wrapper object is a view kept
			// by the message. Closure over the path's final memory.
			if decode {
				leaving := map[string]*Val{}
				var note func(v *Val)
				note = func(v *Val) {
					if v == nil {
						return
					}
					v.Walk(func(x *Val) bool {
						if (x.Op == "alloc" || x.Op == "makeslice") && leaving[x.Key()] == nil {
							leaving[x.Key()] = x
						}
						return true
					})
				}
				for _, rv := range p.Ret {
					note(rv)
				}
				walkEvents(p.Events, func(e *Event, _ int) {
					if e.Kind == EvStore {
						note(e.Src)
					}
				})
				for changed := len(leaving) > 0; changed; {
					changed = false
					for _, me := range p.Mem {
						r := addrRoot(me.Addr)
						if r == nil || leaving[r.Key()] == nil || me.V == nil {
							continue
						}
						n := len(leaving)
						note(me.V)
						if len(leaving) != n {
							changed = true
						}
					}
				}
				mkeys := make([]string, 0, len(p.Mem))
				for k := range p.Mem {
					mkeys = append(mkeys, k)
				}
				sort.Strings(mkeys)
				for _, k := range mkeys {
					me := p.Mem[k]
					r := addrRoot(me.Addr)
					if r == nil || leaving[r.Key()] == nil {
						continue
					}
					if al := aliasIn(me.V); al != nil {
						rep.Ob("Z1-no-alias-escapes", key+":fresh-object:"+me.Addr.Pretty(), false, a.P.Pos(fn.Pos()), "an object made by this call and handed on (returned or stored into the message) keeps a view of the buffer in "+me.Addr.Pretty()+" ("+al.Pretty()+")")
					}
				}
			}
			for i, rv := range p.Ret {
				if al := aliasIn(rv); al != nil {
					rep.Ob("Z1-no-alias-escapes", fmt.Sprintf("%s:ret%d", key, i), false, a.P.Pos(fn.Pos()), "returned value "+rv.Pretty()+" shares memory with the buffer ("+al.Pretty()+")")
				} else {
					rep.Ob("Z1-no-alias-escapes", fmt.Sprintf("%s:ret%d", key, i), true, "", "")
				}
			}
			walkEvents(p.Events, func(e *Event, _ int) {
				switch e.Kind {
				case EvStore:
					if al := aliasIn(e.Src); al != nil {
						rep.Ob("Z1-no-alias-escapes", key+":store:"+e.Dst.Pretty(), false, a.P.Pos(e.Pos), "value stored into "+e.Dst.Pretty()+" shares memory with the buffer ("+al.Pretty()+")")
					} else {
						rep.Ob("Z1-no-alias-escapes", key+":store:"+e.Dst.Pretty(), true, "", "")
					}
					if r := addrRoot(e.Dst); r != nil && r.Op == "param" && isBufferType(r.Type) {
						rep.Ob("Z3-buffer-not-replaced", key+":store-to-buffer", false, a.P.Pos(e.Pos), "the buffer object is overwritten ("+e.Dst.Pretty()+" <- "+e.Src.Pretty()+")")
					}
				case EvBufOther:
					if strings.HasPrefix(e.Mode, "escape:") {
						rep.Ob("Z1-buffer-stays-in-model", key+":"+e.Mode, false, a.P.Pos(e.Pos), "buffer (or bytes aliasing it) handed to code outside the model: "+e.Mode)
					}
				case EvCalc:
					rep.Ob("Z3-checksum-view-read-only", key+":calc", true, "", "")
				}
			})
		}
	}
	for _, ct := range a.U.Types {
		r := a.Result(ct)
		if !rep.Ob("Z0-analysable", ct.Name, r.DecErr == nil && r.EncErr == nil, a.P.Pos(ct.Decode.Pos()), fmt.Sprint(r.DecErr, r.EncErr)) {
			continue
		}
		check(ct.Name+".Decode", ct.Decode, r.DecPaths, true)
		check(ct.Name+".Encode", ct.Encode, r.EncPaths, false)
	}
	for _, pp := range a.allPrimPaths() {
		if pp.err != nil {
			rep.Ob("Z0-analysable", FuncName(pp.fn), false, a.P.Pos(pp.fn.Pos()), fmt.Sprint(pp.err))
			continue
		}
		if hasFuncParam(pp.fn) {
			// a skeleton whose steps are function values handed in by the caller: what it does with the buffer is what
			// those functions do – judged in every codec that calls it, where they are known and inlined
			rep.Notes = append(rep.Notes, FuncName(pp.fn)+" takes function-valued parameters: judged at its call sites")
			continue
		}
		check(FuncName(pp.fn), pp.fn, pp.paths, true)
	}
	for _, t := range a.U.Tables {
		for _, lf := range t.Lookups {
			paths, err := a.engineFor(lf).AnalyzeRoot(lf, nil)
			if err == nil {
				check(FuncName(lf), lf, paths, true)
			}
		}
	}
	rep.Floor("codec_types", len(a.U.Types), goldenFloor("types", 170))
	rep.Sample(map[string]interface{}{"alias_sources": []string{"(*bytes.Buffer).Bytes", "(*bytes.Buffer).Next", "sub-slices and Trim* of those"}, "copying": []string{"string(b)", "[]byte(s)", "copy", "binary.Read", "io.ReadFull into make([]byte,n)"}})
}

// condPos: position of a branch condition (the enclosing function when the instruction carries none).
func (a *Analysis) condPos(c Cond, fallback *ssa.Function) string {
	if c.Pos.IsValid() {
		return a.P.Pos(c.Pos)
	}
	if c.Fn != nil && c.Fn.Pos().IsValid() {
		return a.P.Pos(c.Fn.Pos())
	}
	if fallback == nil {
		return "-"
	}
	return a.P.Pos(fallback.Pos())
}

// availabilityGuard: condition c, as taken, establishes n <= buf.Len() with both sides compared as plain ints
// (no narrowing conversion anywhere in the comparison).
func availabilityGuard(c Cond, n *Val) bool { return availabilityGuardCtx(c, n, nil) }

// availabilityGuardCtx: ctx are conditions already in force (they may say that a divisor is positive).
func availabilityGuardCtx(c Cond, n *Val, ctx []Cond) bool {
	v := c.V
	if v.Op != "binop" {
		return false
	}
	narrowing := v.Contains(func(x *Val) bool {
		if !(x.Op == "conv" && x.Name == "convert" && isIntegerType(x.Type) && len(x.Args) == 1 && x.Args[0].Type != nil && isIntegerType(x.Args[0].Type)) {
			return false
		}
		if wideningInt(x.Args[0].Type, x.Type) {
			return false
		}
		// a non-negative value converted to an unsigned type at least as wide keeps its value (uint64(buf.Len()))
		fb, _ := intBits2(x.Args[0].Type)
		tb, _ := intBits2(x.Type)
		if fb == 0 {
			fb = 64
		}
		if tb == 0 {
			tb = 64
		}
		if tb >= fb && !isSignedType(x.Type) && nonNegative(x.Args[0], ctx) {
			return false
		}
		return true
	})
	if narrowing {
		return false
	}
	for side := 0; side < 2; side++ {
		o := stripCT(v.Args[side])
		for o.Op == "conv" {
			o = stripCT(o.Args[0])
		}
		if o.Op == "buflen" && condHolds([]Cond{c}, n, "<=", v.Args[side]) {
			return true
		}
		// count <= buf.Len()/k  (k a constant >= 1) is  count*k <= buf.Len()
		if k, ok := lenOverConst(o); ok {
			other := v.Args[1-side]
			if !saysAtMost(c, 1-side) {
				continue
			}
			an, ao := affOf(n), affOf(other)
			// count*size against Len/size with a symbolic size (generic body): the same two factors
			if m := stripCT(n); m.Op == "binop" && m.Name == "*" && len(m.Args) == 2 && o.Op == "binop" && len(o.Args) == 2 {
				for s2 := 0; s2 < 2; s2++ {
					if affEq(m.Args[s2], other) && !affOf(other).Top && stripCT(m.Args[1-s2]).Key() == stripCT(o.Args[1]).Key() {
						return true
					}
				}
			}
			if an.Top || ao.Top {
				continue
			}
			if an.Equal(ao) || an.Equal(ao.Scale(k)) {
				return true
			}
		}
	}
	return false
}

// lenOverConst: o is buf.Len()/k with a constant k >= 1.
func lenOverConst(o *Val) (int64, bool) {
	if o.Op != "binop" || o.Name != "/" || len(o.Args) != 2 {
		return 0, false
	}
	num := stripCT(o.Args[0])
	for num.Op == "conv" {
		num = stripCT(num.Args[0])
	}
	if num.Op != "buflen" {
		return 0, false
	}
	if k, isC := o.Args[1].Int64(); isC && k >= 1 {
		return k, true
	}
	// binary.Size of a value whose type parameter admits only fixed-size number types: a positive size, symbolic in the
	// generic body (every instantiation, where it is a constant, is analysed as well)
	if d := stripCT(o.Args[1]); d.Op == "param" && d.Type != nil && isIntegerType(d.Type) {
		return 1, true // a primitive analysed with a symbolic width parameter (a positive literal at every call site, C13-X7)
	}
	if d := stripCT(o.Args[1]); d.Op == "call" && d.Name == "encoding/binary.Size" && len(d.Args) == 1 {
		if t := stripIface(d.Args[0]).Type; t != nil {
			if _, isTP := t.(*types.TypeParam); isTP {
				// (for a type argument without a fixed size encoding/binary refuses the value anyway: there is no
				// encoding whose acceptance could be at stake)
				return 1, true
			}
		}
	}
	return 0, false
}

// saysAtMost: the condition (with its Taken flag) states  Args[small] <= Args[1-small].
func saysAtMost(c Cond, small int) bool {
	op := c.V.Name
	if !c.Taken {
		neg := map[string]string{"<": ">=", ">=": "<", ">": "<=", "<=": ">"}
		n, ok := neg[op]
		if !ok {
			return false
		}
		op = n
	}
	if small == 0 {
		return op == "<=" || op == "<"
	}
	return op == ">=" || op == ">"
}

// spuriousRejections: error paths of a decoder that are not caused by a failed read, a failed nested Decode or an
// unknown discriminator. The only legitimate such path is an exact availability check (n > buf.Len(), compared as
// ints): anything else refuses bytes the encoder can produce.
// rootGeneric: the paths are those of a generic function's own body (type parameters symbolic); tests on values of a
// type parameter's type are then left to the instantiations, which are analysed as well.
func (a *Analysis) spuriousRejections(paths []*Path, rootGeneric bool) []string {
	var out []string
	seen := map[string]bool{}
	ms := &safety{a: a, minSizeMemo: map[string]int64{}}
	// elementMin: the least number of bytes one element of the list counted by cnt occupies, as far as the loops of
	// this function that iterate cnt times tell (-1: no such loop)
	elementMin := func(cnt *Val) int64 {
		var m int64 = -1
		ac := affOf(cnt)
		if ac.Top {
			return -1
		}
		for _, p := range paths {
			walkEvents(p.Events, func(e *Event, _ int) {
				if e.Kind != EvRep || e.Count == nil || !affOf(e.Count).Equal(ac) {
					return
				}
				for _, arm := range e.Iter {
					failed := false
					for _, x := range arm.Events {
						if x.Failed {
							failed = true
						}
					}
					if failed {
						continue
					}
					if n := ms.iterationMinBytes(arm); m < 0 || n < m {
						m = n
					}
				}
			})
		}
		return m
	}
	// consumedAfter: for every success path that passes the Len() observation with this id, a lower bound (affine) of
	// the number of bytes the path consumes after it.
	consumedAfter := func(id int) []*Affine {
		var out []*Affine
		sizeOf := func(e *Event) *Affine {
			switch e.Kind {
			case EvReadInt:
				if !e.Failed {
					if sz, ok := fixedSize(e.IntType); ok && sz > 0 {
						return affConst(sz)
					}
				}
			case EvReadBytes:
				if !e.Failed && !e.Short && e.Size != nil {
					if a := affOf(e.Size); !a.Top {
						return a // a read that succeeded delivered exactly the bytes asked for
					}
				}
			case EvObj:
				if !e.Failed && e.Dir == "Decode" {
					return affConst(ms.iterationMinBytes(&Arm{Events: []*Event{e}}))
				}
			case EvRep:
				if !e.Partial && e.Count != nil && nonNegative(e.Count, nil) {
					if c := affOf(e.Count); !c.Top {
						var m int64 = -1
						for _, arm := range e.Iter {
							if n := ms.iterationMinBytes(arm); m < 0 || n < m {
								m = n
							}
						}
						if m > 0 {
							return c.Scale(m)
						}
					}
				}
			case EvAlt:
				var m int64 = -1
				for _, arm := range e.Iter {
					if n := ms.iterationMinBytes(arm); m < 0 || n < m {
						m = n
					}
				}
				if m > 0 {
					return affConst(m)
				}
			}
			return affConst(0)
		}
		var walk func(evs []*Event) (*Affine, bool)
		walk = func(evs []*Event) (*Affine, bool) {
			var acc *Affine
			for _, e := range evs {
				if acc != nil {
					acc = acc.Add(sizeOf(e), 1)
					continue
				}
				if e.Kind == EvLen && e.ID == id {
					acc = affConst(0)
					continue
				}
				if e.Kind == EvAlt {
					var inner *Affine
					n := 0
					for _, arm := range e.Iter {
						if a, ok := walk(arm.Events); ok {
							inner = a
							n++
						}
					}
					if n == 1 {
						acc = inner
					} else if n > 1 {
						acc = affConst(0) // several alternatives pass it: nothing is known about what they consume
					}
				}
			}
			return acc, acc != nil
		}
		for _, p := range paths {
			if pathKind(p) != "ok" {
				continue
			}
			if a, ok := walk(p.Events); ok {
				out = append(out, a)
			}
		}
		return out
	}
	// affAtLeastZero: the term is non-negative whatever its symbols are (non-negative symbols with non-negative factors)
	affAtLeastZero := func(d *Affine) bool {
		if d.Top || d.C < 0 {
			return false
		}
		for k, c := range d.Term {
			if c < 0 || (c > 0 && !nonNegative(d.Sym[k], nil)) {
				return false
			}
		}
		return true
	}
	guardOK := func(last Cond, ctx []Cond) bool {
		if last.V.Op != "binop" {
			return false
		}
		// int(t) < 0 for an unsigned t read from the wire: only when t exceeds MaxInt – no encoder produces such a count
		if v := last.V; len(v.Args) == 2 && ((v.Name == "<" && last.Taken) || (v.Name == ">=" && !last.Taken)) && isZero(v.Args[1]) {
			x := stripCT(v.Args[0])
			for x.Op == "conv" && len(x.Args) == 1 {
				x = stripCT(x.Args[0])
			}
			if x.Op == "wire" && x.Type != nil {
				if b, ok := x.Type.Underlying().(*types.Basic); ok && b.Info()&types.IsUnsigned != 0 {
					return true
				}
				if _, isTP := x.Type.(*types.TypeParam); isTP {
					return true
				}
			}
		}
		// a count or length beyond what a Go slice or string can have (> MaxInt64): no encoder produces it
		if v := last.V; len(v.Args) == 2 {
			for side := 0; side < 2; side++ {
				if k := v.Args[1-side]; k.IsConst() && k.C != nil && k.C.Kind() == constant.Int && constant.Compare(k.C, token.GEQ, constant.MakeInt64(1<<63-1)) {
					op := v.Name
					if side == 1 {
						op = map[string]string{"<": ">", ">": "<", "<=": ">=", ">=": "<="}[op]
					}
					if !last.Taken {
						op = map[string]string{"<": ">=", ">=": "<", ">": "<=", "<=": ">"}[op]
					}
					if op == ">" || op == ">=" {
						return true
					}
				}
			}
		}
		for side := 0; side < 2; side++ {
			o := stripCT(last.V.Args[side])
			for o.Op == "conv" {
				o = stripCT(o.Args[0])
			}
			if _, div := lenOverConst(o); o.Op != "buflen" && !div {
				continue
			}
			// the direction taken must mean: more is needed than the buffer holds – strictly more: a guard that also
			// refuses need == Len() (written >= where > is meant) rejects a complete message whose last field this is
			if availabilityGuardCtx(Cond{V: last.V, Taken: !last.Taken}, last.V.Args[1-side], ctx) {
				// count > Len()/k refuses exactly the counts whose elements cannot all be present only if no element is
				// shorter than k bytes: a larger divisor refuses complete lists of short elements
				if k, div := lenOverConst(o); div && k > 1 {
					if m := elementMin(last.V.Args[1-side]); m >= 0 && k > m {
						continue
					}
				}
				// need > Len() refuses only truncated input if the reads that follow on the success paths really consume at
				// least `need` bytes: a guard asking for more (n+1 for an n-byte text, 29 for a 28-byte record) refuses a
				// complete value that ends the input
				generic := rootGeneric && last.V.Contains(func(x *Val) bool {
					if x.Type == nil {
						return false
					}
					_, isTP := x.Type.(*types.TypeParam)
					return isTP
				})
				// (in a generic body the prefix has a symbolic type: its instantiations, all analysed, decide)
				if o.Op == "buflen" && !generic {
					need := affOf(last.V.Args[1-side])
					opaque := need.Top
					for _, sym := range need.Sym {
						if sym != nil && (sym.Op == "binop" || sym.Op == "buflen" || sym.Op == "unknown") {
							opaque = true // a product of two measured or read values, a difference of Len() observations …
						}
					}
					if opaque {
						// what is asked for is not a sum of sizes (a product of two values read or measured, say): nothing
						// shows that the reads that follow need that much
						continue
					}
					if !need.Top {
						short := false
						for _, got := range consumedAfter(o.ID) {
							if d := got.Add(need, -1); !d.Top && !affAtLeastZero(d) {
								short = true
							}
						}
						if short {
							continue
						}
					}
				}
				op := last.V.Name
				if !last.Taken {
					op = map[string]string{"<": ">=", ">=": "<", ">": "<=", "<=": ">"}[op]
				}
				if side == 0 { // Len op need  ->  need op' Len
					op = map[string]string{"<": ">", ">": "<", "<=": ">=", ">=": "<="}[op]
				}
				if op == ">" {
					return true
				}
			}
		}
		return false
	}
	// justified: the error of this alternative stems from a failed read / nested Decode, or from an exact availability check
	var justified func(evs []*Event, conds []Cond) (bool, *Cond)
	justified = func(evs []*Event, conds []Cond) (bool, *Cond) {
		var lastEv *Event
		for _, e := range evs {
			if e.Failed {
				return true, nil
			}
			if e.Kind == EvRep {
				bad := false
				for _, arm := range e.Iter {
					walkEvents(arm.Events, func(x *Event, _ int) {
						if x.Failed {
							bad = true
						}
					})
				}
				if bad {
					return true, nil
				}
			}
			if countsAsWire(e) || e.Kind == EvAlt {
				lastEv = e
			}
		}
		if lastEv != nil && lastEv.Kind == EvAlt {
			for _, arm := range lastEv.Iter {
				if ok, c := justified(arm.Events, arm.Conds); !ok {
					return false, c
				}
			}
			return true, nil
		}
		if len(conds) == 0 {
			return true, nil // nothing decided this error: not a data-dependent rejection the rule can name
		}
		last := conds[len(conds)-1]
		if guardOK(last, conds[:len(conds)-1]) {
			if os.Getenv("FPDEBUG") == "rej" {
				fmt.Fprintln(os.Stderr, "  guardOK true for", last.String())
			}
			return true, nil
		}
		// the availability guard may be followed by tests that only pick the error to report (nothing left at all:
		// io.EOF, otherwise io.ErrUnexpectedEOF): conditions on the buffer's length alone
		for i := len(conds) - 1; i >= 0; i-- {
			c := conds[i]
			if guardOK(c, conds[:i]) {
				return true, nil
			}
			onlyLen := c.V.Contains(func(x *Val) bool { return x.Op == "buflen" }) && !c.V.Contains(func(x *Val) bool {
				return x.Op == "wire" || x.Op == "bufbytes" || x.Op == "bufnext" || x.Op == "short" || x.Op == "init" || x.Op == "elem"
			})
			if !onlyLen {
				break
			}
		}
		if !last.V.Contains(func(x *Val) bool {
			return x.Op == "wire" || x.Op == "buflen" || x.Op == "bufbytes" || x.Op == "bufnext" || x.Op == "short" || x.Op == "init" || x.Op == "elem"
		}) {
			// decided by the caller's arguments alone (a negative width, a nil buffer …): a refusal of the call, not of
			// bytes an encoder produced – for the literal arguments of the message codecs such a test is a constant
			return true, nil
		}
		if rootGeneric && last.V.Contains(func(x *Val) bool {
			if x.Type == nil {
				return false
			}
			_, isTP := x.Type.(*types.TypeParam)
			return isTP
		}) {
			// a test on a value of a type parameter's type in a generic body (`count > max(T)`, `int(t) != n`): what it
			// amounts to depends on the type argument – every instantiation the module uses is analysed and decides
			return true, nil
		}
		return false, &last
	}
	for _, p := range paths {
		if pathKind(p) != "err" || a.tableMiss(p) {
			continue
		}
		if os.Getenv("FPDEBUG") == "rej" {
			ok, c := justified(p.Events, p.Conds)
			fmt.Fprintln(os.Stderr, "justified:", ok, c != nil, condString(p.Conds))
		}
		if ok, c := justified(p.Events, p.Conds); !ok && c != nil {
			k := c.String()
			if !seen[k] {
				seen[k] = true
				out = append(out, fmt.Sprintf("%s at %s", k, a.condPos(*c, nil)))
			}
		}
	}
	return out
}

// hasFuncParam: the function takes a parameter of function type (other than a factory `func() T` without parameters
// that only builds a value).
func hasFuncParam(fn *ssa.Function) bool {
	isStep := func(t types.Type) bool {
		sig, ok := t.Underlying().(*types.Signature)
		return ok && sig.Params().Len() > 0
	}
	// … or objects of a module interface whose methods are handed the buffer (`EncodeFields(buf, fields ...Field)` with
	// `f.EncodeField(buf)` per element): the steps are the methods of whatever the caller hands in. (Codec values –
	// Encode/Decode – are not steps: calling them is a nested part, modelled as such.)
	isStepIface := func(t types.Type) bool {
		if sl, ok := t.Underlying().(*types.Slice); ok {
			t = sl.Elem()
		}
		n, ok := t.(*types.Named)
		if !ok || n.Obj().Pkg() == nil || !strings.HasPrefix(n.Obj().Pkg().Path(), modulePath) {
			return false
		}
		it, ok := n.Underlying().(*types.Interface)
		if !ok || it.NumMethods() == 0 {
			return false
		}
		takesBuf := false
		for i := 0; i < it.NumMethods(); i++ {
			m := it.Method(i)
			if m.Name() == "Encode" || m.Name() == "Decode" {
				return false
			}
			sig := m.Type().(*types.Signature)
			for j := 0; j < sig.Params().Len(); j++ {
				if isBufferType(sig.Params().At(j).Type()) {
					takesBuf = true
				}
			}
		}
		return takesBuf
	}
	for _, p := range fn.Params {
		if isStep(p.Type()) || isStepIface(p.Type()) {
			return true
		}
		// a descriptor record whose fields are the steps (`FrameSpec{Header: func(buf) error {…}, …}`)
		t := p.Type()
		if pt, ok := t.Underlying().(*types.Pointer); ok {
			t = pt.Elem()
		}
		if st, ok := t.Underlying().(*types.Struct); ok {
			for i := 0; i < st.NumFields(); i++ {
				if isStep(st.Field(i).Type()) {
					return true
				}
			}
		}
	}
	return false
}

// commaOkFalse: the function's last result is a bool and this path returns false there.
func commaOkFalse(p *Path) bool {
	if len(p.Ret) < 2 {
		return false
	}
	last := p.Ret[len(p.Ret)-1]
	if last == nil || last.Type == nil || !isBoolType(last.Type) {
		return false
	}
	b, ok := last.Bool()
	return ok && !b
}
