package main

import (
	"fmt"
	"go/constant"
	"go/token"
	"go/types"
	"sort"
	"strings"

	"golang.org/x/tools/go/ssa"
)

type callRes struct {
	st       *state
	val      *Val // single result, tuple, or nil
	panicked bool
}

func one(st *state, v *Val) []callRes { return []callRes{{st: st, val: v}} }

func (e *Engine) call(st *state, fr *frame, in ssa.CallInstruction) []callRes {
	c := in.Common()
	var args []*Val
	for _, a := range c.Args {
		args = append(args, e.val(fr, a))
	}
	switch in := in.(type) {
	case *ssa.Defer:
		d := &deferred{call: in, args: args}
		if !c.IsInvoke() {
			d.fn = e.val(fr, c.Value)
		} else {
			d.fn = e.val(fr, c.Value)
		}
		fr.defers = append(fr.defers, d)
		return one(st, nil)
	case *ssa.Go:
		e.addEvent(st, fr, &Event{Kind: EvGo, Mode: "go", Args: args}, in)
		return one(st, nil)
	}
	return e.callValue(st, fr, in, e.val(fr, c.Value), args, c)
}

// callValue dispatches a call of fnv (or an invoke on fnv when c.IsInvoke()).
func (e *Engine) callValue(st *state, fr *frame, in ssa.CallInstruction, fnv *Val, args []*Val, c *ssa.CallCommon) []callRes {
	if c.IsInvoke() {
		return e.invoke(st, fr, in, fnv, args, c)
	}
	// a function value converted to a named function type is still that function
	for fnv.Op == "conv" && len(fnv.Args) == 1 && fnv.Type != nil {
		if _, isSig := fnv.Type.Underlying().(*types.Signature); !isSig {
			break
		}
		fnv = fnv.Args[0]
	}
	switch fnv.Op {
	case "builtin":
		return e.builtin(st, fr, in, fnv.Name, args, c)
	case "func":
		return e.callFunc(st, fr, in, fnv.Aux.(*ssa.Function), args, nil)
	case "closure":
		return e.callFunc(st, fr, in, fnv.Aux.(*ssa.Function), args, fnv.Args)
	}
	// unknown function value
	id := e.id()
	e.addEvent(st, fr, &Event{Kind: EvCall, Mode: "dynamic", Recv: fnv, Args: args, ID: id}, in)
	e.escapeCheck(st, fr, in, "dynamic call", args)
	return one(st, e.dynResult(fnv, args, id, c.Signature().Results()))
}

func (e *Engine) dynResult(fnv *Val, args []*Val, id int, res *types.Tuple) *Val {
	mk := func(i int, t types.Type) *Val {
		return &Val{Op: "dyncall", ID: id, Aux: i, Args: append([]*Val{fnv}, args...), Type: t, Name: fmt.Sprint(i)}
	}
	switch res.Len() {
	case 0:
		return nil
	case 1:
		return mk(0, res.At(0).Type())
	}
	t := &Val{Op: "tuple"}
	for i := 0; i < res.Len(); i++ {
		t.Args = append(t.Args, mk(i, res.At(i).Type()))
	}
	return t
}

func isBufferType(t types.Type) bool {
	if t == nil {
		return false
	}
	p, ok := t.(*types.Pointer)
	if !ok {
		return false
	}
	n, ok := p.Elem().(*types.Named)
	return ok && n.Obj().Name() == "Buffer" && n.Obj().Pkg() != nil && n.Obj().Pkg().Path() == "bytes"
}

// bufferIn returns a buffer-typed (or buffer-aliasing) sub-term of v, if any.
func bufferIn(v *Val) *Val {
	var found *Val
	v.Walk(func(x *Val) bool {
		if found != nil {
			return false
		}
		if x.Op == "bufbytes" || x.Op == "bufnext" {
			found = x
			return false
		}
		if (x.Op == "param" || x.Op == "alloc" || x.Op == "init" || x.Op == "call") && isBufferType(x.Type) {
			found = x
			return false
		}
		if x.Op == "conv" && x.Name == "convert" && isStringOrBytes(x.Type) {
			return false // a converting copy does not alias
		}
		return true
	})
	return found
}

// escapeCheck records an unclassified buffer use when a buffer (or bytes aliasing one) is handed to code we do not model.
func (e *Engine) escapeCheck(st *state, fr *frame, in ssa.Instruction, what string, args []*Val) {
	for _, a := range args {
		if b := bufferIn(a); b != nil {
			e.addEvent(st, fr, &Event{Kind: EvBufOther, Mode: "escape:" + what, Buf: b, Args: args}, in)
			return
		}
	}
}

func (e *Engine) invoke(st *state, fr *frame, in ssa.CallInstruction, recv *Val, args []*Val, c *ssa.CallCommon) []callRes {
	name := c.Method.Name()
	// the read side of a RWMutex handed on as a sync.Locker (mu.RLocker())
	if rl := stripIface(recv); rl != nil && rl.Op == "rlocker" && len(rl.Args) == 1 && (name == "Lock" || name == "Unlock") {
		e.addEvent(st, fr, &Event{Kind: EvLock, Mode: "R" + name, Recv: rl.Args[0]}, in)
		return one(st, nil)
	}
	// a hash/crc32 digest object made on this path (crc32.NewIEEE(), crc32.New(crc32.IEEETable)): Write folds the bytes
	// into the running value exactly as crc32.Update does, Sum32 hands the running value out, Reset starts over
	if h := stripIface(recv); h != nil && h.Op == "crc32hash" {
		cur := st.content[h.Key()]
		if cur == nil {
			cur = mkConst(constant.MakeInt64(0), types.Typ[types.Uint32])
		}
		switch {
		case name == "Write" && len(args) == 1:
			p := e.contentOf(st, args[0])
			tab := &Val{Op: "global", Name: "hash/crc32." + h.Name + "Table"}
			st.content[h.Key()] = &Val{Op: "call", Name: "hash/crc32.Update", Args: []*Val{cur, tab, p}, Type: types.Typ[types.Uint32]}
			return one(st, &Val{Op: "tuple", Args: []*Val{mkLen(p), mkNil(c.Signature().Results().At(1).Type())}})
		case name == "Sum32" && len(args) == 0:
			return one(st, cur)
		case name == "Reset" && len(args) == 0:
			st.content[h.Key()] = mkConst(constant.MakeInt64(0), types.Typ[types.Uint32])
			return one(st, nil)
		case (name == "Size" || name == "BlockSize") && len(args) == 0:
			return one(st, mkInt(map[string]int64{"Size": 4, "BlockSize": 1}[name]))
		}
	}
	// resolve through a known dynamic type
	if recv.Op == "iface" {
		inner := recv.Args[0]
		dt, _ := recv.Aux.(types.Type)
		if dt == nil {
			dt = inner.Type
		}
		if dt != nil {
			if m := e.P.Prog.LookupMethod(dt, c.Method.Pkg(), name); m != nil {
				return e.callFunc(st, fr, in, m, append([]*Val{inner}, args...), nil)
			}
		}
	}
	// a method called on a value of a type parameter that this frame's instantiation binds to a concrete type
	// (`var o O; o.byteOrder()` inside readPrefix[littleEndian, T]): that type's method
	if tp, ok := c.Value.Type().(*types.TypeParam); ok {
		if ct := fr.substT(tp); ct != nil && ct != types.Type(tp) {
			if _, still := ct.(*types.TypeParam); !still && !types.IsInterface(ct) {
				if m := e.P.Prog.LookupMethod(ct, c.Method.Pkg(), name); m != nil && m.Blocks != nil {
					return e.callFunc(st, fr, in, m, append([]*Val{recv}, args...), nil)
				}
			}
		}
	}
	// a ByteOrder handed in as a parameter (helper analysed on its own): same effects, the order stays symbolic
	if it := types.TypeString(c.Value.Type(), nil); it == "encoding/binary.ByteOrder" || it == "encoding/binary.AppendByteOrder" {
		if strings.HasPrefix(name, "PutUint") && len(args) == 2 {
			var t types.Type
			switch name {
			case "PutUint16":
				t = types.Typ[types.Uint16]
			case "PutUint32":
				t = types.Typ[types.Uint32]
			case "PutUint64":
				t = types.Typ[types.Uint64]
			}
			if t != nil {
				sz, _ := fixedSize(t)
				buf := bufferIn(args[0])
				var bufv *Val
				if buf != nil && len(buf.Args) > 0 {
					bufv = buf.Args[0]
				}
				e.addEvent(st, fr, &Event{Kind: EvPanicSite, Mode: "putuint", Args: []*Val{args[0], mkInt(sz)}}, in)
				e.addEvent(st, fr, &Event{Kind: EvPatch, Buf: bufv, IntType: t, Order: "param", Dst: args[0], Src: args[1], Size: mkInt(sz)}, in)
				return one(st, nil)
			}
		}
		if strings.HasPrefix(name, "Uint") || strings.HasPrefix(name, "AppendUint") || name == "String" {
			var cargs []*Val
			for _, a := range args {
				cargs = append(cargs, e.contentOf(st, a))
			}
			res := c.Signature().Results()
			return one(st, &Val{Op: "call", Name: "(encoding/binary.ByteOrder)." + name, Args: cargs, Type: res.At(0).Type()})
		}
	}
	if !knownNonNil(st, recv) {
		e.addEvent(st, fr, &Event{Kind: EvPanicSite, Mode: "nilinvoke", Args: []*Val{recv}}, in)
	}
	sig := c.Signature()
	// x.Encode(buf) / x.Decode(buf) through an interface
	if len(args) == 1 && isBufferType(sig.Params().At(0).Type()) && sig.Results().Len() <= 1 && (name == "Encode" || name == "Decode") {
		return e.objEvent(st, fr, in, recv, nil, name, args[0], c.Value.Type(), sig)
	}
	// checksum service: Calc(x)
	if name == "Calc" && len(args) == 1 {
		ev := e.addEvent(st, fr, &Event{Kind: EvCalc, Recv: recv, Args: args}, in)
		return one(st, &Val{Op: "calc", ID: ev.ID, Type: sig.Results().At(0).Type(), Args: []*Val{recv, args[0]}})
	}
	id := e.id()
	e.addEvent(st, fr, &Event{Kind: EvCall, Mode: "invoke:" + name, Recv: recv, Args: args, ID: id}, in)
	e.escapeCheck(st, fr, in, "invoke "+name, args)
	r := e.dynResult(&Val{Op: "method", Name: name, Args: []*Val{recv}}, args, id, sig.Results())
	return one(st, r)
}

func (e *Engine) objEvent(st *state, fr *frame, in ssa.CallInstruction, recv *Val, callee *ssa.Function, dir string, buf *Val, rt types.Type, sig *types.Signature) []callRes {
	mk := func(s *state, failed bool) *Event {
		ev := e.addEvent(s, fr, &Event{Kind: EvObj, Recv: recv, Callee: callee, Dir: dir, Buf: buf, ObjType: rt, Failed: failed}, in)
		// Decode into (part of) a record made on this path – a scratch value published later: what the part holds
		// afterwards is what this Decode left there
		if dir == "Decode" {
			if a := stripCT(recv); a != nil && (a.Op == "field" || a.Op == "alloc") {
				if root := addrRoot(a); root != nil && root.Op == "alloc" {
					var et types.Type
					if pt, ok := a.Type.Underlying().(*types.Pointer); ok {
						et = pt.Elem()
					}
					if _, isStruct := typeUnder(et).(*types.Struct); isStruct && a.Op == "field" {
						for k, me := range s.mem {
							if k != a.Key() && isAncestorAddr(a, me.Addr) {
								delete(s.mem, k)
							}
						}
						name := ""
						if failed {
							name = "partial"
						}
						s.mem[a.Key()] = memEntry{Addr: a, V: &Val{Op: "decodedobj", ID: ev.ID, Name: name, Type: et}}
					}
				}
			}
		}
		return ev
	}
	if sig.Results().Len() == 0 {
		mk(st, false)
		return one(st, nil)
	}
	st2 := st.clone()
	mk(st, false)
	ev := mk(st2, true)
	return []callRes{
		{st: st, val: mkNil(sig.Results().At(0).Type())},
		{st: st2, val: &Val{Op: "nonnil", Name: fmt.Sprintf("%s#%d", dir, ev.ID), Type: sig.Results().At(0).Type()}},
	}
}

func (e *Engine) builtin(st *state, fr *frame, in ssa.CallInstruction, name string, args []*Val, c *ssa.CallCommon) []callRes {
	var rt types.Type
	if v, ok := in.(ssa.Value); ok {
		rt = v.Type()
	}
	switch name {
	case "Sizeof":
		// unsafe.Sizeof of a value of a fixed-size number type (a type argument in an instantiation): its width; in a
		// generic body, the same symbolic width as binary.Size of such a value
		if len(c.Args) == 1 {
			t := fr.substT(c.Args[0].Type())
			if sz, ok := fixedSize(t); ok && sz > 0 {
				return one(st, mkConst(constant.MakeInt64(sz), rt))
			}
			if _, isTP := t.(*types.TypeParam); isTP && numberTypeSet(t) {
				return one(st, &Val{Op: "conv", Name: "convert", Args: []*Val{{Op: "call", Name: "encoding/binary.Size", Args: []*Val{{Op: "iface", Args: []*Val{args[0]}, Type: t}}, Type: types.Typ[types.Int]}}, Type: rt})
			}
		}
	case "len":
		if _, isMap := c.Args[0].Type().Underlying().(*types.Map); isMap {
			e.addEvent(st, fr, &Event{Kind: EvMapRead, Mode: "len", Recv: args[0]}, in)
		}
		x := args[0]
		for x.Op == "slice" && x.Args[1] == nil && x.Args[2] == nil {
			x = x.Args[0]
		}
		if x.Op == "makeslice" { // the length of a made slice is what make was given, whatever has been read into it
			return one(st, x.Args[0])
		}
		return one(st, mkLen(e.contentOf(st, args[0])))
	case "cap":
		if args[0].Op == "makeslice" {
			return one(st, args[0].Args[1])
		}
		return one(st, &Val{Op: "cap", Args: []*Val{args[0]}, Type: types.Typ[types.Int]})
	case "append":
		a1 := args[1]
		if len(args) == 2 {
			a1 = e.contentOf(st, args[1])
		}
		return one(st, &Val{Op: "call", Name: "append", Args: []*Val{args[0], a1}, Type: rt})
	case "copy":
		// a number staged in a local array and copied over a part of the buffer's bytes of exactly its width
		// (`PutUint32(tmp[:], n); copy(buf.Bytes()[pos:start], tmp[:])`): the in-place patch PutUint32 on that part is
		if bv := bufferIn(args[0]); bv != nil && bv.Op == "bufbytes" && len(bv.Args) > 0 {
			if ib := stripCT(e.contentOf(st, args[1])); ib != nil && ib.Op == "intbytes" && ib.ID == 0 && len(ib.Args) == 1 && ib.Type != nil {
				if sz, okS := fixedSize(ib.Type); okS {
					if d := stripCT(args[0]); d.Op == "slice" && len(d.Args) >= 3 && d.Args[1] != nil && d.Args[2] != nil && (len(d.Args) < 4 || d.Args[3] == nil) {
						width := &Val{Op: "binop", Name: "-", Args: []*Val{d.Args[2], d.Args[1]}, Type: types.Typ[types.Int]}
						exact := false
						if k, isC := affOf(width).IsConst(); isC && k == sz {
							exact = true
						} else if t, known := lenDiffCond(e, st, &Val{Op: "binop", Name: "==", Args: []*Val{width, mkInt(sz)}, Type: types.Typ[types.Bool]}); known && t {
							exact = true
						}
						if exact {
							e.addEvent(st, fr, &Event{Kind: EvPatch, Buf: bv.Args[0], IntType: ib.Type, Order: ib.Name, Dst: args[0], Src: ib.Args[0], Size: mkInt(sz)}, in)
							return one(st, mkInt(sz))
						}
					}
				}
			}
		}
		if base, lo, hi, total, ok := byteArraySegment(args[0]); ok && hi > lo {
			// the head of a field of a record laid out in a local array: src cut to the field's width, the rest of the
			// field as it was (zero) until a fill loop says otherwise
			// – or the byte the whole field was pre-filled with (a blank record copied from a start-up constant)
			pad := fillCovering(st, base, lo, hi)
			stageSeg(st, base, lo, total, &Val{Op: "padded", Aux: hi - lo, Args: []*Val{e.contentOf(st, args[1]), pad}, Type: args[0].Type}, args[0].Type)
		} else if !e.overlayCopy(st, args[0], args[1]) {
			e.setContent(st, args[0], e.contentOf(st, args[1]))
		}
		return one(st, &Val{Op: "call", Name: "copy", Args: args, Type: rt})
	case "delete":
		e.addEvent(st, fr, &Event{Kind: EvMapWrite, Mode: "delete", Recv: args[0], Args: args[1:]}, in)
		return one(st, nil)
	case "clear":
		if _, isMap := c.Args[0].Type().Underlying().(*types.Map); isMap {
			e.addEvent(st, fr, &Event{Kind: EvMapWrite, Mode: "clear", Recv: args[0]}, in)
		}
		return one(st, nil)
	case "min", "max":
		// min(len(text), N) – the cut of a text to a width: the two cases are two paths, as if written with an if
		if name == "min" && len(args) == 2 {
			for side := 0; side < 2; side++ {
				l, o := stripCT(args[side]), stripCT(args[1-side])
				if l.Op != "len" || len(l.Args) != 1 || l.Args[0].Type == nil || !isStringOrBytes(l.Args[0].Type) {
					continue
				}
				if !(o.Op == "param" || o.IsConst()) || o.Contains(func(x *Val) bool { return x.Op == "buflen" }) {
					continue
				}
				c := mkBinop(token.GTR, args[side], args[1-side], types.Typ[types.Bool])
				if b, known := e.evalCond(st, c); known {
					if b {
						return one(st, args[1-side])
					}
					return one(st, args[side])
				}
				st2 := st.clone()
				e.assume(st, c, true, in.Pos(), fr.fn)
				e.assume(st2, c, false, in.Pos(), fr.fn)
				return []callRes{{st: st, val: args[1-side]}, {st: st2, val: args[side]}}
			}
		}
		return one(st, &Val{Op: "call", Name: name, Args: args, Type: rt})
	case "print", "println":
		return one(st, nil)
	case "recover":
		return one(st, &Val{Op: "unknown", ID: e.id(), Name: "recover", Type: rt})
	}
	return one(st, &Val{Op: "unknown", ID: e.id(), Name: "builtin:" + name, Type: rt})
}

func fullName(fn *ssa.Function) string {
	if o := fn.Origin(); o != nil {
		fn = o
	}
	return fn.String()
}

func (e *Engine) callFunc(st *state, fr *frame, in ssa.CallInstruction, fn *ssa.Function, args, free []*Val) []callRes {
	// a method value (`w := buf.Write`): go/ssa's bound-method wrapper calls the method on the receiver it captured
	if strings.HasSuffix(fn.Name(), "$bound") && len(fn.FreeVars) == 1 && len(free) == 1 {
		if m, ok := fn.Object().(*types.Func); ok && m != nil {
			if target := e.P.Prog.FuncValue(m); target != nil {
				return e.callFunc(st, fr, in, target, append([]*Val{free[0]}, args...), nil)
			}
		}
	}
	name := fullName(fn)
	if res, ok := e.model(st, fr, in, fn, name, args); ok {
		return res
	}
	if e.P.InModule(fn) && fn.Blocks != nil {
		if e.IsCodecMethod != nil && e.IsCodecMethod(fn) && fr.depth >= 0 {
			sig := fn.Signature
			var buf *Val
			if len(args) >= 2 {
				buf = args[1]
			}
			if !knownNonNil(st, args[0]) && derefsReceiver(fn) {
				e.addEvent(st, fr, &Event{Kind: EvPanicSite, Mode: "nilrecv", Args: []*Val{args[0]}, Callee: fn}, in)
			}
			return e.objEvent(st, fr, in, args[0], fn, fn.Name(), buf, sig.Recv().Type(), sig)
		}
		return e.inline(st, fr, in, fn, args, free)
	}
	// unmodelled external function
	id := e.id()
	e.addEvent(st, fr, &Event{Kind: EvCall, Mode: name, Callee: fn, Args: args, ID: id}, in)
	e.escapeCheck(st, fr, in, name, args)
	res := fn.Signature.Results()
	mk := func(i int, t types.Type) *Val {
		return &Val{Op: "call", Name: name, Aux: i, Args: args, Type: t}
	}
	switch res.Len() {
	case 0:
		return one(st, nil)
	case 1:
		return one(st, mk(0, res.At(0).Type()))
	}
	t := &Val{Op: "tuple"}
	for i := 0; i < res.Len(); i++ {
		t.Args = append(t.Args, mk(i, res.At(i).Type()))
	}
	return one(st, t)
}

// inline analyses the callee on the current path and groups its outcomes by
// what the caller can observe (results and non-local memory).
func (e *Engine) inline(st *state, fr *frame, in ssa.CallInstruction, fn *ssa.Function, args, free []*Val) []callRes {
	// recursion / depth
	for s := fr.site; s != nil; s = s.Parent {
		if s.Callee == fn {
			id := e.id()
			e.addEvent(st, fr, &Event{Kind: EvCall, Mode: "recursion:" + fullName(fn), Callee: fn, Args: args, ID: id}, in)
			e.escapeCheck(st, fr, in, "recursive call", args)
			return one(st, e.dynResult(&Val{Op: "func", Aux: fn}, args, id, fn.Signature.Results()))
		}
	}
	if fr.fn == fn || fr.depth > e.MaxDepth {
		id := e.id()
		e.addEvent(st, fr, &Event{Kind: EvCall, Mode: "recursion:" + fullName(fn), Callee: fn, Args: args, ID: id}, in)
		e.escapeCheck(st, fr, in, "recursive call", args)
		return one(st, e.dynResult(&Val{Op: "func", Aux: fn}, args, id, fn.Signature.Results()))
	}
	sub := st.clone()
	sub.up = &evChain{evs: st.events, up: st.up}
	sub.events = nil
	base := len(st.conds)
	nf := &frame{fn: fn, env: map[ssa.Value]*Val{}, args: args, free: free, depth: fr.depth + 1,
		site: &CallSite{Instr: in, Callee: fn, Parent: fr.site}, tsub: fr.tsub}
	if o := fn.Origin(); o != nil && o != fn && len(fn.TypeArgs()) > 0 && o.TypeParams().Len() == len(fn.TypeArgs()) {
		// an instantiation (wrapper) of a generic function: inside the origin's body its type parameters stand for
		// these type arguments – which may themselves be type parameters of the generic caller
		m := map[*types.TypeParam]types.Type{}
		for k, v := range fr.tsub {
			m[k] = v
		}
		for i, ta := range fn.TypeArgs() {
			m[o.TypeParams().At(i)] = fr.substT(ta)
		}
		nf.tsub = m
	}
	startID := e.nextID
	outs := e.execFrom(sub, nf, fn.Blocks[0], nil, 0)
	if len(nf.tsub) > 0 {
		// values handed back to a generic caller – and the conditions and effects recorded inside the callee – are
		// typed in the caller's terms
		done := map[*Event]bool{}
		var substEvents func(evs []*Event)
		substEvents = func(evs []*Event) {
			for _, ev := range evs {
				if done[ev] {
					continue
				}
				done[ev] = true
				ev.Src, ev.Dst, ev.Size, ev.Count, ev.Recv, ev.Buf = substVal(ev.Src, nf), substVal(ev.Dst, nf), substVal(ev.Size, nf), substVal(ev.Count, nf), substVal(ev.Recv, nf), substVal(ev.Buf, nf)
				if ev.IntType != nil {
					ev.IntType = nf.substT(ev.IntType) // the number type of an atom written in the callee's type parameter
				}
				for i, a := range ev.Args {
					ev.Args[i] = substVal(a, nf)
				}
				for _, arm := range ev.Iter {
					for i := range arm.Conds {
						arm.Conds[i].V = substVal(arm.Conds[i].V, nf)
					}
					for k, v := range arm.Next {
						arm.Next[k] = substVal(v, nf)
					}
					substEvents(arm.Events)
				}
			}
		}
		for _, o := range outs {
			for i, r := range o.ret {
				o.ret[i] = substVal(r, nf)
			}
			for i := base; i < len(o.st.conds); i++ {
				o.st.conds[i].V = substVal(o.st.conds[i].V, nf)
			}
			substEvents(o.st.events)
		}
	}

	type group struct {
		sig  string
		outs []*outcome
	}
	var groups []*group
	idx := map[string]*group{}
	var res []callRes
	outs = subsumeZeroCount(outs, base)
	outs = mergePureForks(st, outs, startID)
	for _, o := range outs {
		switch o.kind {
		case oReturn:
		case oPanic:
			ns := st.clone()
			ns.events = append(ns.events, o.st.events...)
			ns.conds = append([]Cond(nil), o.st.conds...)
			ns.mem, ns.content = o.st.mem, o.st.content
			res = append(res, callRes{st: ns, panicked: true})
			continue
		default:
			ns := st.clone()
			ns.events = append(ns.events, o.st.events...)
			e.addEvent(ns, fr, &Event{Kind: EvCall, Mode: "truncated:" + o.reason}, in)
			res = append(res, callRes{st: ns, val: e.dynResult(&Val{Op: "func", Aux: fn}, args, e.id(), fn.Signature.Results())})
			continue
		}
		sig := outcomeSig(st, o, startID)
		g := idx[sig]
		if g == nil {
			g = &group{sig: sig}
			idx[sig] = g
			groups = append(groups, g)
		}
		g.outs = append(g.outs, o)
	}
	for _, g := range groups {
		ns := st.clone()
		o0 := g.outs[0]
		ns.mem, ns.content = o0.st.mem, o0.st.content
		for k, v := range o0.st.allocT {
			ns.allocT[k] = v
		}
		if len(g.outs) == 1 {
			ns.events = append(ns.events, o0.st.events...)
			ns.conds = append([]Cond(nil), o0.st.conds...)
			for k, v := range o0.st.facts {
				ns.facts[k] = v
			}
		} else {
			for _, o := range g.outs[1:] {
				for k, c := range o.st.content {
					if sc := stripCT(c); sc != nil && sc.Op == "bulkints" {
						if _, has := ns.content[k]; !has {
							ns.content[k] = c
						}
					}
				}
			}
			alt := &Event{ID: e.id(), Kind: EvAlt, Pos: in.Pos(), Fn: fr.fn, Site: fr.site, Instr: in, NCond: len(ns.conds), Callee: fn}
			anyEv := false
			for _, o := range g.outs {
				alt.Iter = append(alt.Iter, &Arm{Conds: o.st.conds[base:], Events: o.st.events})
				if len(o.st.events) > 0 {
					anyEv = true
				}
			}
			if flat := zeroTripArm(alt); flat != nil {
				// `if len(x) == 0 { return }` in front of a loop over x (or a bulk write of x): the empty way is the loop
				// running zero times
				ns.events = append(ns.events, flat...)
			} else if anyEv {
				ns.events = append(ns.events, alt)
			}
		}
		var v *Val
		switch len(o0.ret) {
		case 0:
		case 1:
			v = o0.ret[0]
		default:
			v = &Val{Op: "tuple", Args: o0.ret}
		}
		res = append(res, callRes{st: ns, val: v})
	}
	return res
}

// outcomeSig: what the caller can observe of a callee outcome.
func outcomeSig(pre *state, o *outcome, startID int) string {
	var b strings.Builder
	escaping := map[int]bool{}
	for _, r := range o.ret {
		k := r.Key()
		if r.Op == "nonnil" {
			k = "nonnil"
		}
		b.WriteString(k + ";")
		r.Walk(func(v *Val) bool {
			if v.Op == "alloc" || v.Op == "makeslice" {
				escaping[v.ID] = true
			}
			return true
		})
	}
	var diffs []string
	for k, me := range o.st.mem {
		if old, ok := pre.mem[k]; ok && old.V.Key() == me.V.Key() {
			continue
		}
		root := addrRoot(me.Addr)
		if root != nil && (root.Op == "alloc" || root.Op == "makeslice") && root.ID > startID && !escaping[root.ID] {
			continue
		}
		diffs = append(diffs, k+"="+me.V.Key())
	}
	for k, c := range o.st.content {
		if old, ok := pre.content[k]; ok && old.Key() == c.Key() {
			continue
		}
		// content of callee-local slices is invisible unless the slice escapes
		if strings.HasPrefix(k, "makeslice#") {
			var id int
			fmt.Sscanf(k, "makeslice#%d", &id)
			if id > startID && !escaping[id] {
				continue
			}
		}
		// … likewise what a callee-local array (or a front part of one) holds
		for _, pfx := range []string{"alloc#", "slice(alloc#", "front:alloc#"} {
			if strings.HasPrefix(k, pfx) {
				var id int
				fmt.Sscanf(k[len(pfx):], "%d", &id)
				if id > startID && !escaping[id] {
					k = ""
				}
				break
			}
		}
		if k == "" {
			continue
		}
		// a field pre-filled by bytes.Repeat and overwritten in part: a fresh slice of the callee, invisible unless returned
		if sc := stripCT(c); sc != nil && sc.Op == "overlay" && strings.HasPrefix(k, "call") {
			returned := false
			for _, r := range o.ret {
				if r != nil && r.Contains(func(x *Val) bool { return x.Op == "call" && x.Key() == k }) {
					returned = true
				}
			}
			if !returned {
				continue
			}
		}
		// the buffer's spare capacity handed out by AvailableBuffer is scratch space, valid only until the next
		// operation on the buffer: what a callee left there is not an observable result
		if strings.Contains(k, "availbuf") {
			continue
		}
		// a slice filled in bulk from bytes just read: a fact about the value the callee returns, which the empty-list
		// shortcut of the same callee (nothing to fill) does not contradict
		if sc := stripCT(c); sc != nil && sc.Op == "bulkints" {
			continue
		}
		diffs = append(diffs, "c:"+k+"="+c.Key())
	}
	sort.Strings(diffs)
	b.WriteString(strings.Join(diffs, ";"))
	return b.String()
}

// ---------------------------------------------------------------------------
// standard-library model (DESIGN §7 item 7)

var purePkgs = map[string]bool{
	"fmt": true, "errors": true, "strings": true, "bytes": true, "strconv": true, "math": true, "math/bits": true,
	"unicode/utf8": true, "unicode": true, "sort": true, "slices": true, "hash/crc32": true, "hash/crc64": true, "hash/adler32": true,
	"encoding/binary": true, "encoding/hex": true, "log": true, "cmp": true, "maps": true, "time": true,
}

func fixedSize(t types.Type) (int64, bool) {
	switch u := t.Underlying().(type) {
	case *types.Basic:
		switch u.Kind() {
		case types.Int8, types.Uint8, types.Bool:
			return 1, true
		case types.Int16, types.Uint16:
			return 2, true
		case types.Int32, types.Uint32, types.Float32:
			return 4, true
		case types.Int64, types.Uint64, types.Float64:
			return 8, true
		}
	case *types.Interface:
		// a type parameter constraint: fixed-size if every term is
	}
	if _, ok := t.(*types.TypeParam); ok {
		// generic body: the width is symbolic; every concrete instantiation is
		// analysed separately, where a non-fixed-size type argument is reported.
		return -1, true
	}
	return 0, false
}

func allTermsFixed(tp *types.TypeParam) bool {
	it, ok := tp.Constraint().Underlying().(*types.Interface)
	if !ok {
		return false
	}
	okAll, any := true, false
	var visit func(t types.Type)
	visit = func(t types.Type) {
		switch t := t.(type) {
		case *types.Union:
			for i := 0; i < t.Len(); i++ {
				visit(t.Term(i).Type())
			}
		case *types.Interface:
			for i := 0; i < t.NumEmbeddeds(); i++ {
				visit(t.EmbeddedType(i))
			}
		case *types.Named:
			if _, ok := t.Underlying().(*types.Interface); ok {
				visit(t.Underlying())
			} else if _, ok := fixedSize(t); ok {
				any = true
			} else {
				okAll = false
			}
		default:
			if _, ok := fixedSize(t); ok {
				any = true
			} else {
				okAll = false
			}
		}
	}
	visit(it)
	return okAll && any
}

func orderOf(v *Val) string {
	v = stripIface(v)
	t := v.Type
	if v.Op == "init" && len(v.Args) == 1 && v.Args[0].Op == "global" {
		// *binary.BigEndian
		if g, ok := v.Args[0].Aux.(*ssa.Global); ok {
			t = g.Type().(*types.Pointer).Elem()
		}
	}
	if v.Op == "param" || (v.Op == "init" && len(v.Args) == 1 && addrRoot(v.Args[0]) != nil && addrRoot(v.Args[0]).Op == "param" && v.Args[0].Op != "global") {
		if t != nil && types.TypeString(t, nil) == "encoding/binary.ByteOrder" {
			return "param" // chosen by the caller: judged where a constant is passed (inlined into every message codec)
		}
	}
	// a field of a descriptor record handed in as a parameter (`f.Order` of a FrameSpec value): chosen by the caller too
	if v.Op == "fieldval" && t != nil && types.TypeString(t, nil) == "encoding/binary.ByteOrder" {
		r := v
		for r != nil && r.Op == "fieldval" && len(r.Args) > 0 {
			r = stripCT(r.Args[0])
		}
		if r != nil && (r.Op == "param" || (r.Op == "init" && len(r.Args) == 1 && addrRoot(r.Args[0]) != nil && addrRoot(r.Args[0]).Op == "param")) {
			return "param"
		}
	}
	if t == nil {
		return "?"
	}
	switch types.TypeString(t, nil) {
	case "encoding/binary.bigEndian":
		return "BE"
	case "encoding/binary.littleEndian":
		return "LE"
	}
	return "?"
}

func (e *Engine) model(st *state, fr *frame, in ssa.CallInstruction, fn *ssa.Function, name string, args []*Val) ([]callRes, bool) {
	errT := types.Universe.Lookup("error").Type()
	intT := types.Typ[types.Int]
	tuple := func(vs ...*Val) *Val { return &Val{Op: "tuple", Args: vs} }
	nonnil := func(origin string) *Val { return &Val{Op: "nonnil", Name: origin, Type: errT} }

	switch name {
	case "encoding/binary.Write":
		w, ord, data := embeddedBuffer(stripIface(args[0])), orderOf(args[1]), stripIface(args[2])
		if !isBufferType(w.Type) {
			break
		}
		var src *Val
		var it types.Type
		if p, ok := data.Type.Underlying().(*types.Pointer); ok {
			it = p.Elem()
			src = e.load(st, data, it)
		} else {
			it = data.Type
			src = data
		}
		if sl, isSlice := it.Underlying().(*types.Slice); isSlice {
			if esz, okE := fixedSize(sl.Elem()); okE {
				// bulk write: every element in index order, each in the given byte order (encoding/binary axiom)
				eo := ord
				if esz == 1 {
					eo = ""
				}
				content := e.contentOf(st, src)
				lid := e.id()
				lv := &Val{Op: "loopvar", ID: lid, Name: "bulk", Type: types.Typ[types.Int], Args: []*Val{mkInt(0)}, Aux: int64(1)}
				elem := &Val{Op: "elem", Args: []*Val{content, lv}, Type: sl.Elem()}
				inner := &Event{ID: e.id(), Kind: EvWriteInt, Buf: w, IntType: sl.Elem(), Order: eo, Src: elem, Size: mkInt(esz), Fn: fr.fn, Site: fr.site, Instr: in, Pos: in.Pos(), NCond: len(st.conds)}
				e.addEvent(st, fr, &Event{Kind: EvRep, LoopID: lid, Count: mkLen(content), Bounded: "bulk", Iter: []*Arm{{Events: []*Event{inner}, Next: map[string]*Val{}}}}, in)
				return one(st, mkNil(errT)), true
			}
		}
		sz, ok := fixedSize(it)
		if !ok {
			e.addEvent(st, fr, &Event{Kind: EvBufOther, Mode: "binary.Write of a value without fixed size (" + typeStr(it) + ")", Buf: w, Src: src}, in)
			return one(st, nonnil("binary.Write")), true
		}
		if sz == 1 {
			ord = ""
		}
		e.addEvent(st, fr, &Event{Kind: EvWriteInt, Buf: w, IntType: it, Order: ord, Src: src, Size: mkInt(sz)}, in)
		return one(st, mkNil(errT)), true
	case "encoding/binary.Append":
		// binary.Append(b, order, v): b followed by the bytes binary.Write would produce for v
		if len(args) == 3 {
			ord, data := orderOf(args[1]), stripIface(args[2])
			var src *Val
			var it types.Type
			if p, ok := data.Type.Underlying().(*types.Pointer); ok {
				it = p.Elem()
				src = e.load(st, data, it)
			} else {
				it, src = data.Type, data
			}
			if sl, isSlice := it.Underlying().(*types.Slice); isSlice {
				// bulk: every element in index order, each in the given byte order
				if esz, okE := fixedSize(sl.Elem()); okE {
					first := stripCT(e.contentOf(st, args[0]))
					if emptyBytes(first) {
						eo := ord
						if esz == 1 {
							eo = ""
						}
						content := e.contentOf(st, src)
						lid := e.id()
						lv := &Val{Op: "loopvar", ID: lid, Name: "bulk", Type: types.Typ[types.Int], Args: []*Val{mkInt(0)}, Aux: int64(1)}
						elem := &Val{Op: "elem", Args: []*Val{content, lv}, Type: sl.Elem()}
						ib := &Val{Op: "intbytes", Name: eo, Args: []*Val{elem}, Type: sl.Elem()}
						return one(st, tuple(&Val{Op: "stagedrep", ID: lid, Args: []*Val{first, ib, mkLen(content)}, Type: args[0].Type}, mkNil(errT))), true
					}
				}
			}
			if sz, ok := fixedSize(it); ok {
				if sz == 1 {
					ord = ""
				}
				first := stripCT(e.contentOf(st, args[0]))
				if emptyBytes(first) {
					return one(st, tuple(&Val{Op: "intbytes", Name: ord, Args: []*Val{src}, Type: it}, mkNil(errT))), true
				}
			}
		}
	case "encoding/binary.Encode":
		// binary.Encode(dst, order, v) with v one fixed-size number: v's bytes written into the first Size(v) bytes of dst
		// – into the buffer's own bytes an in-place write like ByteOrder.PutUintN
		if len(args) == 3 {
			data := stripIface(args[2])
			if data != nil && data.Type != nil {
				dt := data.Type
				if pt, isP := dt.Underlying().(*types.Pointer); isP {
					dt = pt.Elem()
					data = e.load(st, data, dt)
				}
				if sz, okS := fixedSize(dt); okS && sz > 0 && isIntegerType(dt) {
					ord := orderOf(args[1])
					if sz == 1 {
						ord = ""
					}
					if buf := bufferIn(args[0]); buf != nil && len(buf.Args) > 0 {
						e.addEvent(st, fr, &Event{Kind: EvPanicSite, Mode: "putuint", Args: []*Val{args[0], mkInt(sz)}}, in)
						e.addEvent(st, fr, &Event{Kind: EvPatch, Buf: buf.Args[0], IntType: dt, Order: ord, Dst: args[0], Src: data, Size: mkInt(sz)}, in)
						return one(st, tuple(mkInt(sz), mkNil(errT))), true
					}
				}
			}
		}
	case "encoding/binary.Decode":
		// binary.Decode(b, order, &v): v := the number in the first Size(v) bytes of b; an error when b is shorter
		if len(args) == 3 {
			ord, data := orderOf(args[1]), stripIface(args[2])
			if sl, isSlice := data.Type.Underlying().(*types.Slice); isSlice {
				// bulk: the slice is filled with the numbers the bytes hold, when there are exactly len(slice) of them
				if esz, okE := fixedSize(sl.Elem()); okE {
					content := stripCT(e.contentOf(st, args[0]))
					n := mkLen(data)
					if data.Op == "makeslice" {
						n = data.Args[0]
					}
					exact := false
					if content.Op == "wire" {
						need := mkLen(content)
						if esz > 0 && affOf(need).Equal(affOf(n).Scale(esz)) && !affOf(need).Top {
							exact = true
						} else if m := stripCT(need); m.Op == "binop" && m.Name == "*" && len(m.Args) == 2 {
							for side := 0; side < 2; side++ {
								if sz := stripCT(m.Args[1-side]); sz.Op == "call" && sz.Name == "encoding/binary.Size" && affEq(m.Args[side], n) {
									exact = true
								}
							}
						}
					}
					if exact {
						eo := ord
						if esz == 1 {
							eo = ""
						}
						e.setContent(st, data, &Val{Op: "bulkints", Name: eo, Args: []*Val{content, n}, Type: data.Type})
						return one(st, tuple(mkLen(content), mkNil(errT))), true
					}
				}
			}
			if p, ok := data.Type.Underlying().(*types.Pointer); ok {
				if sz, ok := fixedSize(p.Elem()); ok {
					if sz == 1 {
						ord = ""
					}
					content := stripCT(e.contentOf(st, args[0]))
					exact := false
					if content.Op == "wire" {
						if n, isC := affOf(mkLen(content)).IsConst(); isC && n == sz {
							exact = true
						} else if sz == -1 {
							// generic body: the slice was cut to binary.Size of the same type
							if l := stripCT(mkLen(content)); l.Op == "call" && l.Name == "encoding/binary.Size" {
								exact = true
							}
						}
					}
					if exact {
						st.mem[data.Key()] = memEntry{Addr: data, V: &Val{Op: "decoded", ID: content.ID, Name: ord, Args: []*Val{content}, Type: p.Elem()}}
						return one(st, tuple(mkLen(content), mkNil(errT))), true
					}
					// fewer bytes than the number needs (the view of a read that came back short): Decode refuses, *v is untouched
					if sz > 0 && isShortVs(mkLen(content), mkInt(sz)) {
						return one(st, tuple(mkInt(0), nonnil(fmt.Sprintf("binary.Decode#%d", e.id())))), true
					}
					if l := stripCT(mkLen(content)); sz == -1 && l.Op == "short" && len(l.Args) == 1 {
						// generic body: fewer bytes than the binary.Size of the same type that was asked for
						if want := stripCT(l.Args[0]); want.Op == "call" && want.Name == "encoding/binary.Size" {
							return one(st, tuple(mkInt(0), nonnil(fmt.Sprintf("binary.Decode#%d", e.id())))), true
						}
					}
				}
			}
		}
	case "encoding/binary.Read":
		r, ord, data := embeddedBuffer(stripIface(args[0])), orderOf(args[1]), stripIface(args[2])
		if !isBufferType(r.Type) {
			break
		}
		if sl, isSlice := data.Type.Underlying().(*types.Slice); isSlice {
			if esz, okE := fixedSize(sl.Elem()); okE {
				// bulk read: fills the slice element by element; fails if the buffer runs out
				eo := ord
				if esz == 1 {
					eo = ""
				}
				n := mkLen(data)
				if data.Op == "makeslice" {
					n = data.Args[0]
				}
				lid := e.id()
				mkInner := func(failed bool) *Event {
					return &Event{ID: e.id(), Kind: EvReadInt, Buf: r, IntType: sl.Elem(), Order: eo, Size: mkInt(esz), Failed: failed, Fn: fr.fn, Site: fr.site, Instr: in, Pos: in.Pos(), NCond: len(st.conds)}
				}
				okEv := mkInner(false)
				arm := &Arm{Events: []*Event{okEv}, Next: map[string]*Val{}}
				st2 := st.clone()
				e.addEvent(st, fr, &Event{Kind: EvRep, LoopID: lid, Count: n, Bounded: "bulk", Iter: []*Arm{arm}}, in)
				elemV := &Val{Op: "wire", ID: okEv.ID, Type: sl.Elem()}
				e.setContent(st, data, &Val{Op: "collect", ID: lid, Args: []*Val{mkNil(data.Type), &Val{Op: "arraylit", Args: []*Val{elemV}}, n}, Type: data.Type})
				e.addEvent(st2, fr, &Event{Kind: EvRep, LoopID: lid, Count: n, Bounded: "bulk", Iter: []*Arm{arm}, Partial: true}, in)
				fe := mkInner(true)
				st2.events = append(st2.events, fe)
				e.setContent(st2, data, &Val{Op: "unknown", ID: fe.ID, Name: "partial-read", Type: data.Type})
				return []callRes{{st: st, val: mkNil(errT)}, {st: st2, val: nonnil(fmt.Sprintf("binary.Read#%d", fe.ID))}}, true
			}
		}
		p, ok := data.Type.Underlying().(*types.Pointer)
		if !ok {
			e.addEvent(st, fr, &Event{Kind: EvBufOther, Mode: "binary.Read into a non-pointer", Buf: r}, in)
			return one(st, nonnil("binary.Read")), true
		}
		sz, ok := fixedSize(p.Elem())
		if !ok {
			e.addEvent(st, fr, &Event{Kind: EvBufOther, Mode: "binary.Read of a value without fixed size (" + typeStr(p.Elem()) + ")", Buf: r}, in)
			return one(st, &Val{Op: "unknown", ID: e.id(), Name: "binary.Read", Type: errT}), true
		}
		if sz == 1 {
			ord = ""
		}
		st2 := st.clone()
		if (st.exhausted[r.Key()] || e.cannotSupply(st, r, sz)) && sz != 0 {
			// an earlier read on this buffer already failed or came back short: nothing is left to read
			// (or a test in force says fewer bytes are left than this read needs: the slow path behind
			// `if buf.Len() >= n { fast }`, there to fail with the error the field-by-field reads give)
			ev2 := e.addEvent(st2, fr, &Event{Kind: EvReadInt, Buf: r, IntType: p.Elem(), Order: ord, Dst: data, Size: mkInt(sz), Failed: true}, in)
			st2.mem[data.Key()] = memEntry{Addr: data, V: &Val{Op: "unknown", ID: ev2.ID, Name: "failed-read", Type: p.Elem()}}
			return []callRes{{st: st2, val: nonnil(fmt.Sprintf("binary.Read#%d", ev2.ID))}}, true
		}
		ev := e.addEvent(st, fr, &Event{Kind: EvReadInt, Buf: r, IntType: p.Elem(), Order: ord, Dst: data, Size: mkInt(sz)}, in)
		st.mem[data.Key()] = memEntry{Addr: data, V: &Val{Op: "wire", ID: ev.ID, Type: p.Elem()}}
		if rt := addrRoot(data); rt == nil || rt.Op != "alloc" {
			e.addEvent(st, fr, &Event{Kind: EvStore, Dst: data, Src: &Val{Op: "wire", ID: ev.ID, Type: p.Elem()}}, in)
		}
		ev2 := e.addEvent(st2, fr, &Event{Kind: EvReadInt, Buf: r, IntType: p.Elem(), Order: ord, Dst: data, Size: mkInt(sz), Failed: true}, in)
		st2.mem[data.Key()] = memEntry{Addr: data, V: &Val{Op: "unknown", ID: ev2.ID, Name: "failed-read", Type: p.Elem()}}
		markExhausted(st2, r)
		return []callRes{{st: st, val: mkNil(errT)}, {st: st2, val: nonnil(fmt.Sprintf("binary.Read#%d", ev2.ID))}}, true
	case "io.ReadFull":
		r, b := embeddedBuffer(stripIface(args[0])), args[1]
		if !isBufferType(r.Type) {
			break
		}
		n := mkLen(b)
		st2 := st.clone()
		if z, isC := n.Int64(); (st.exhausted[r.Key()] || (isC && e.cannotSupply(st, r, z))) && !(isC && z == 0) {
			ev2 := e.addEvent(st2, fr, &Event{Kind: EvReadBytes, Mode: "ReadFull", Buf: r, Dst: b, Size: n, Failed: true}, in)
			e.setContent(st2, b, &Val{Op: "unknown", ID: ev2.ID, Name: "partial-read", Type: b.Type})
			return []callRes{{st: st2, val: tuple(&Val{Op: "short", ID: ev2.ID, Args: []*Val{n}, Type: intT}, nonnil(fmt.Sprintf("io.ReadFull#%d", ev2.ID)))}}, true
		}
		ev := e.addEvent(st, fr, &Event{Kind: EvReadBytes, Mode: "ReadFull", Buf: r, Dst: b, Size: n}, in)
		e.setContent(st, b, &Val{Op: "wire", ID: ev.ID, Type: b.Type, Args: []*Val{n}})
		ev2 := e.addEvent(st2, fr, &Event{Kind: EvReadBytes, Mode: "ReadFull", Buf: r, Dst: b, Size: n, Failed: true}, in)
		e.setContent(st2, b, &Val{Op: "unknown", ID: ev2.ID, Name: "partial-read", Type: b.Type})
		markExhausted(st2, r)
		return []callRes{
			{st: st, val: tuple(n, mkNil(errT))},
			{st: st2, val: tuple(&Val{Op: "short", ID: ev2.ID, Args: []*Val{n}, Type: intT}, nonnil(fmt.Sprintf("io.ReadFull#%d", ev2.ID)))},
		}, true
	case "(*bytes.Buffer).Read":
		r, b := args[0], args[1]
		n := mkLen(b)
		st2 := st.clone()
		if z, isC := n.Int64(); st.exhausted[r.Key()] && !(isC && z == 0) {
			// the buffer is empty: Read returns (0, io.EOF)
			ev2 := e.addEvent(st2, fr, &Event{Kind: EvReadBytes, Mode: "Read", Buf: r, Dst: b, Size: n, Failed: true, Short: true}, in)
			e.setContent(st2, b, &Val{Op: "unknown", ID: ev2.ID, Name: "partial-read", Type: b.Type})
			return []callRes{{st: st2, val: tuple(&Val{Op: "short", ID: ev2.ID, Args: []*Val{n}, Type: intT}, nonnil("io.EOF"))}}, true
		}
		ev := e.addEvent(st, fr, &Event{Kind: EvReadBytes, Mode: "Read", Buf: r, Dst: b, Size: n}, in)
		e.setContent(st, b, &Val{Op: "wire", ID: ev.ID, Type: b.Type, Args: []*Val{n}})
		ev2 := e.addEvent(st2, fr, &Event{Kind: EvReadBytes, Mode: "Read", Buf: r, Dst: b, Size: n, Failed: true, Short: true}, in)
		e.setContent(st2, b, &Val{Op: "unknown", ID: ev2.ID, Name: "partial-read", Type: b.Type})
		markExhausted(st2, r)
		return []callRes{
			{st: st, val: tuple(n, mkNil(errT))},
			{st: st2, val: tuple(&Val{Op: "short", ID: ev2.ID, Args: []*Val{n}, Type: intT}, &Val{Op: "unknown", ID: ev2.ID, Name: "maybe-EOF", Type: errT})},
		}, true
	case "(*bytes.Buffer).Write", "(*bytes.Buffer).WriteString":
		src := e.contentOf(st, args[1])
		// x[:len(x)] is x
		if sl := stripCT(src); sl != nil && sl.Op == "slice" && len(sl.Args) >= 3 && sl.Args[2] != nil && (len(sl.Args) < 4 || sl.Args[3] == nil) {
			lo0 := sl.Args[1] == nil
			if !lo0 {
				if k, isC := sl.Args[1].Int64(); isC && k == 0 {
					lo0 = true
				}
			}
			if inner := e.contentOf(st, sl.Args[0]); lo0 && inner != nil && !affOf(mkLen(inner)).Top && affOf(sl.Args[2]).Equal(affOf(mkLen(inner))) {
				src = inner
			}
		}
		// a made byte slice nothing was stored into or read into: that many zero bytes (the NUL arm of
		// `pad := make([]byte, n); if b != 0 { fill }; buf.Write(pad)`)
		if ms := stripCT(src); ms != nil && ms.Op == "makeslice" && len(ms.Args) >= 1 && ms.Type != nil {
			if sl, isSl := ms.Type.Underlying().(*types.Slice); isSl {
				if eb, isB := sl.Elem().Underlying().(*types.Basic); isB && eb.Kind() == types.Uint8 {
					touched := false
					if _, has := st.content[ms.Key()]; has {
						touched = true
					}
					for _, me := range st.mem {
						if me.Addr != nil {
							if r := addrRoot(me.Addr); r != nil && r.Key() == ms.Key() {
								touched = true
							}
						}
					}
					if !touched {
						zero := mkConst(constant.MakeInt64(0), types.Typ[types.Uint8])
						src = &Val{Op: "call", Name: "bytes.Repeat", Args: []*Val{{Op: "arraylit", Args: []*Val{zero}}, ms.Args[0]}, Type: ms.Type}
					}
				}
			}
		}
		// one byte appended count times onto an empty slice: count copies of that byte
		if col := stripCT(src); col != nil && col.Op == "collect" && len(col.Args) == 3 {
			init, el := stripCT(col.Args[0]), stripCT(col.Args[1])
			empty := init.IsNilConst() || init.Op == "availbuf" || (init.Op == "makeslice" && isZero(init.Args[0]))
			if empty && el.Op == "arraylit" && len(el.Args) == 1 && !el.Args[0].Contains(func(x *Val) bool { return x.Op == "loopvar" || x.Op == "wire" || x.Op == "elem" }) {
				if bt, isB := typeUnder(el.Args[0].Type).(*types.Basic); isB && bt.Kind() == types.Uint8 {
					src = &Val{Op: "call", Name: "bytes.Repeat", Args: []*Val{el, col.Args[2]}, Type: col.Type}
				}
			}
		}
		// nothing to write
		if n, isC := affOf(mkLen(src)).IsConst(); isC && n == 0 {
			return one(st, tuple(mkInt(0), mkNil(errT))), true
		}
		// numbers staged by a loop: AppendUintN onto a staged prefix, once per iteration
		if sr := stripCT(src); sr != nil && sr.Op == "stagedrep" && len(sr.Args) == 3 {
			pre := stagedInts(sr.Args[0])
			first := stripCT(sr.Args[0])
			emptyInit := emptyBytes(first)
			if pre != nil || emptyInit {
				for _, ib := range pre {
					sz, _ := fixedSize(ib.Type)
					ord := ib.Name
					if sz == 1 {
						ord = ""
					}
					e.addEvent(st, fr, &Event{Kind: EvWriteInt, Buf: args[0], IntType: ib.Type, Order: ord, Src: ib.Args[0], Size: mkInt(sz)}, in)
				}
				ib := sr.Args[1]
				sz, _ := fixedSize(ib.Type)
				inner := &Event{ID: e.id(), Kind: EvWriteInt, Buf: args[0], IntType: ib.Type, Order: ib.Name, Src: ib.Args[0], Size: mkInt(sz), Fn: fr.fn, Site: fr.site, Instr: in, Pos: in.Pos(), NCond: len(st.conds)}
				e.addEvent(st, fr, &Event{Kind: EvRep, LoopID: sr.ID, Count: sr.Args[2], Bounded: "bulk", Iter: []*Arm{{Events: []*Event{inner}, Next: map[string]*Val{}}}}, in)
				return one(st, tuple(mkLen(src), mkNil(errT))), true
			}
		}
		// a record laid out in a local array (numbers, single bytes, padded texts) and written at once
		if stg := stripCT(src); stg != nil && stg.Op == "staged" {
			// single bytes stored into the array (`rec[31] = r.Side`) are segments of the record too
			base := stripCT(args[1])
			for base != nil && base.Op == "slice" {
				base = stripCT(base.Args[0])
			}
			if total, okT := stg.Aux.(int); okT && base != nil && base.Op == "alloc" {
				covered := make([]bool, total)
				for _, sg := range stg.Args {
					w := 0
					switch sg.Op {
					case "padded":
						w = sg.Aux.(int)
					case "intbytes":
						sz, _ := fixedSize(sg.Type)
						w = int(sz)
					}
					for k := sg.ID; k < sg.ID+w && k < total; k++ {
						if k >= 0 {
							covered[k] = true
						}
					}
				}
				ns := &Val{Op: "staged", Aux: total, Type: stg.Type, Args: append([]*Val(nil), stg.Args...)}
				for k := 0; k < total; k++ {
					if covered[k] {
						continue
					}
					ia := &Val{Op: "index", Args: []*Val{base, mkInt(int64(k))}}
					if me, has := st.mem[ia.Key()]; has {
						ns.Args = append(ns.Args, &Val{Op: "intbytes", Name: "", ID: k, Args: []*Val{me.V}, Type: types.Typ[types.Uint8]})
					}
				}
				stg = ns
				src = ns // the single bytes belong to the record whichever way it is rendered below
			}
			hasText := false
			for _, sg := range stg.Args {
				if sg.Op == "padded" {
					hasText = true
				}
			}
			if segs := stagedBlock(stg); hasText && segs != nil {
				total := int64(0)
				for _, sg := range segs {
					if sg.Op != "padded" {
						sz, _ := fixedSize(sg.Type)
						total += sz
						ord := sg.Name
						if sz == 1 {
							ord = ""
						}
						e.addEvent(st, fr, &Event{Kind: EvWriteInt, Buf: args[0], IntType: sg.Type, Order: ord, Src: sg.Args[0], Size: mkInt(sz)}, in)
						continue
					}
					w := int64(sg.Aux.(int))
					total += w
					text, pad := sg.Args[0], sg.Args[1]
					tl := mkLen(text)
					cond := mkBinop(token.GTR, tl, mkInt(w), types.Typ[types.Bool])
					mk := func(src, size *Val) *Event {
						return &Event{ID: e.id(), Kind: EvWriteBytes, Buf: args[0], Src: src, Size: size, Fn: fr.fn, Site: fr.site, Instr: in, Pos: in.Pos(), NCond: len(st.conds)}
					}
					cut := mk(&Val{Op: "slice", Args: []*Val{text, nil, mkInt(w), nil}, Type: text.Type}, mkInt(w))
					rest := affToVal(affConst(w).Add(affOf(tl), -1))
					whole := mk(text, tl)
					fill := mk(&Val{Op: "call", Name: "bytes.Repeat", Args: []*Val{{Op: "arraylit", Args: []*Val{pad}}, rest}, Type: sg.Type}, rest)
					alt := &Event{Kind: EvAlt, Iter: []*Arm{
						{Conds: []Cond{{V: cond, Taken: true, Pos: in.Pos(), Fn: fr.fn}}, Events: []*Event{cut}},
						{Conds: []Cond{{V: cond, Taken: false, Pos: in.Pos(), Fn: fr.fn}}, Events: []*Event{whole, fill}},
					}}
					e.addEvent(st, fr, alt, in)
				}
				return one(st, tuple(mkInt(total), mkNil(errT))), true
			}
		}
		// numbers and texts assembled in one slice (a length prefix appended, then the text's bytes) and written at once:
		// the same atoms as writing them one after the other
		if segs := stagedSegments(src); segs != nil {
			var total *Affine = affConst(0)
			for _, sg := range segs {
				if sg.Op == "textseg" {
					tl := mkLen(sg.Args[0])
					e.addEvent(st, fr, &Event{Kind: EvWriteBytes, Buf: args[0], Src: sg.Args[0], Size: tl}, in)
					total = total.Add(affOf(tl), 1)
					continue
				}
				sz, _ := fixedSize(sg.Type)
				total = total.Add(affConst(sz), 1)
				ord := sg.Name
				if sz == 1 {
					ord = ""
				}
				e.addEvent(st, fr, &Event{Kind: EvWriteInt, Buf: args[0], IntType: sg.Type, Order: ord, Src: sg.Args[0], Size: mkInt(sz)}, in)
			}
			return one(st, tuple(affToVal(total), mkNil(errT))), true
		}
		// the first bytes of a scratch array a number was staged in (`var scratch [8]byte; PutUint32(scratch[:4], x);
		// buf.Write(scratch[:4])`): the staged numbers that tile exactly the part written
		if ibs := stagedPart(st, args[1]); ibs != nil {
			total := int64(0)
			for _, ib := range ibs {
				sz, _ := fixedSize(ib.Type)
				total += sz
				ord := ib.Name
				if sz == 1 {
					ord = ""
				}
				e.addEvent(st, fr, &Event{Kind: EvWriteInt, Buf: args[0], IntType: ib.Type, Order: ord, Src: ib.Args[0], Size: mkInt(sz)}, in)
			}
			return one(st, tuple(mkInt(total), mkNil(errT))), true
		}
		// a number staged by hand: PutUintN into a local array, or AppendUintN(nil, v)
		if ibs := stagedInts(src); ibs != nil {
			total := int64(0)
			for _, ib := range ibs {
				sz, _ := fixedSize(ib.Type)
				total += sz
				ord := ib.Name
				if sz == 1 {
					ord = ""
				}
				e.addEvent(st, fr, &Event{Kind: EvWriteInt, Buf: args[0], IntType: ib.Type, Order: ord, Src: ib.Args[0], Size: mkInt(sz)}, in)
			}
			return one(st, tuple(mkInt(total), mkNil(errT))), true
		}
		// a one-byte literal []byte{v}: the number v in one byte
		if lit := stripCT(src); lit != nil && lit.Op == "arraylit" && len(lit.Args) == 1 && lit.Args[0] != nil && lit.Args[0].Type != nil {
			if sz, okS := fixedSize(lit.Args[0].Type); okS && sz == 1 && !isZero(lit.Args[0]) {
				if bt, isB := typeUnder(lit.Args[0].Type).(*types.Basic); isB && bt.Info()&types.IsInteger != 0 {
					e.addEvent(st, fr, &Event{Kind: EvWriteInt, Buf: args[0], IntType: lit.Args[0].Type, Order: "", Src: lit.Args[0], Size: mkInt(1)}, in)
					return one(st, tuple(mkInt(1), mkNil(errT))), true
				}
			}
		}
		// a literal run of 2, 4 or 8 zero bytes: room reserved for a number (patched later) – a zero placeholder
		// without byte order, like the gap of a staged array
		if lit := stripCT(src); lit != nil && lit.Op == "arraylit" && (len(lit.Args) == 2 || len(lit.Args) == 4 || len(lit.Args) == 8) {
			allZero := true
			for _, a := range lit.Args {
				if !isZero(a) {
					allZero = false
				}
			}
			if allZero {
				it := map[int]types.Type{2: types.Typ[types.Uint16], 4: types.Typ[types.Uint32], 8: types.Typ[types.Uint64]}[len(lit.Args)]
				e.addEvent(st, fr, &Event{Kind: EvWriteInt, Buf: args[0], IntType: it, Order: "zero", Src: mkConst(constant.MakeInt64(0), it), Size: mkInt(int64(len(lit.Args)))}, in)
				return one(st, tuple(mkInt(int64(len(lit.Args))), mkNil(errT))), true
			}
		}
		// a field of N pad bytes with the text laid over one end of it (copy into a pre-filled field, one Write): the
		// same bytes as the text and the padding written one after the other
		if ov := stripCT(src); ov != nil && ov.Op == "overlay" && len(ov.Args) == 3 {
			if rp := stripCT(ov.Args[0]); rp != nil && rp.Op == "call" && rp.Name == "bytes.Repeat" && len(rp.Args) == 2 {
				total, off, text := rp.Args[1], ov.Args[1], ov.Args[2]
				tl := mkLen(text)
				fits := condHolds(st.conds, tl, "<=", affToVal(affOf(total).Add(affOf(off), -1))) || affOf(off).Add(affOf(tl), 1).Equal(affOf(total))
				if !affOf(total).Top && !affOf(off).Top && !affOf(tl).Top && fits {
					padOf := func(n *Affine) *Val {
						nv := affToVal(n)
						return &Val{Op: "call", Name: "bytes.Repeat", Args: []*Val{rp.Args[0], nv}, Type: rp.Type}
					}
					if k, isC := affOf(off).IsConst(); isC && k == 0 {
						// text first, the rest of the field stays padding
						e.addEvent(st, fr, &Event{Kind: EvWriteBytes, Buf: args[0], Src: text, Size: tl}, in)
						rest := affOf(total).Add(affOf(tl), -1)
						pv := padOf(rest)
						e.addEvent(st, fr, &Event{Kind: EvWriteBytes, Buf: args[0], Src: pv, Size: affToVal(rest)}, in)
						return one(st, tuple(total, mkNil(errT))), true
					}
					if affOf(off).Add(affOf(tl), 1).Equal(affOf(total)) {
						// padding first, the text ends the field
						pv := padOf(affOf(off))
						e.addEvent(st, fr, &Event{Kind: EvWriteBytes, Buf: args[0], Src: pv, Size: off}, in)
						e.addEvent(st, fr, &Event{Kind: EvWriteBytes, Buf: args[0], Src: text, Size: tl}, in)
						return one(st, tuple(total, mkNil(errT))), true
					}
				}
			}
		}
		n := mkLen(src)
		e.addEvent(st, fr, &Event{Kind: EvWriteBytes, Buf: args[0], Src: src, Size: n}, in)
		return one(st, tuple(n, mkNil(errT))), true
	case "(*bytes.Buffer).WriteByte":
		e.addEvent(st, fr, &Event{Kind: EvWriteInt, Buf: args[0], IntType: types.Typ[types.Uint8], Order: "", Src: args[1], Size: mkInt(1)}, in)
		return one(st, mkNil(errT)), true
	case "(*bytes.Buffer).ReadByte":
		u8 := types.Typ[types.Uint8]
		st2 := st.clone()
		if !st.exhausted[args[0].Key()] && !e.cannotSupply(st, args[0], 1) {
			ev := e.addEvent(st, fr, &Event{Kind: EvReadInt, Buf: args[0], IntType: u8, Order: "", Size: mkInt(1)}, in)
			ev2 := e.addEvent(st2, fr, &Event{Kind: EvReadInt, Buf: args[0], IntType: u8, Order: "", Size: mkInt(1), Failed: true}, in)
			markExhausted(st2, args[0])
			return []callRes{
				{st: st, val: tuple(&Val{Op: "wire", ID: ev.ID, Type: u8}, mkNil(errT))},
				{st: st2, val: tuple(mkConst(constant.MakeInt64(0), u8), nonnil(fmt.Sprintf("ReadByte#%d", ev2.ID)))},
			}, true
		}
		ev2 := e.addEvent(st2, fr, &Event{Kind: EvReadInt, Buf: args[0], IntType: u8, Order: "", Size: mkInt(1), Failed: true}, in)
		return []callRes{{st: st2, val: tuple(mkConst(constant.MakeInt64(0), u8), nonnil(fmt.Sprintf("ReadByte#%d", ev2.ID)))}}, true
	case "(*bytes.Buffer).AvailableBuffer":
		// an empty slice over the buffer's spare capacity, meant to be appended to and handed straight to Write
		// (after Grow(n) with nothing appended since, its capacity is at least n: recorded as a second argument)
		var spare *Val
		for i := len(st.events) - 1; i >= 0; i-- {
			x := st.events[i]
			if x.Buf == nil || stripIface(x.Buf).Key() != stripIface(args[0]).Key() {
				if x.Kind == EvAlt || x.Kind == EvRep || x.Kind == EvObj || x.Kind == EvCall {
					break // something we do not look into happened in between
				}
				continue
			}
			if x.Kind == EvBufOther && x.Mode == "Grow" && len(x.Args) == 1 {
				spare = x.Args[0]
			}
			if x.Kind == EvLen || x.Kind == EvBytes || (x.Kind == EvBufOther && observerMethods[x.Mode] && x.Mode != "Grow") {
				continue
			}
			break
		}
		ev := e.addEvent(st, fr, &Event{Kind: EvBufOther, Mode: "AvailableBuffer", Buf: args[0]}, in)
		av := &Val{Op: "availbuf", ID: ev.ID, Args: []*Val{args[0]}, Type: fn.Signature.Results().At(0).Type()}
		if spare != nil {
			av.Args = append(av.Args, spare)
		}
		return one(st, av), true
	case "(*bytes.Buffer).Len":
		ev := e.addEvent(st, fr, &Event{Kind: EvLen, Buf: args[0]}, in)
		return one(st, &Val{Op: "buflen", ID: ev.ID, Args: []*Val{args[0]}, Type: intT}), true
	case "(*bytes.Buffer).Bytes":
		ev := e.addEvent(st, fr, &Event{Kind: EvBytes, Buf: args[0]}, in)
		return one(st, &Val{Op: "bufbytes", ID: ev.ID, Args: []*Val{args[0]}, Type: fn.Signature.Results().At(0).Type()}), true
	case "(*bytes.Buffer).Next":
		// consumes min(n, Len()) bytes without any failure indication and returns a view of them (an alias of the
		// buffer's storage); whether exactly n bytes were there is for the rules to establish from a dominating guard
		// Unless a check in force establishes that n bytes are there, the call has a second, short outcome: fewer bytes,
		// the buffer empty afterwards and – unlike Read – nothing that says so except the length of the result.
		rt := fn.Signature.Results().At(0).Type()
		// Next(n) slices the buffer's storage: a negative n panics inside the library
		if _, isC := args[1].Int64(); !isC {
			e.addEvent(st, fr, &Event{Kind: EvPanicSite, Mode: "negcount", Args: []*Val{args[1]}}, in)
		}
		guarded := isZero(args[1])
		for _, c := range st.conds {
			if availabilityGuard(c, args[1]) {
				guarded = true
			}
		}
		short := func(s2 *state) callRes {
			ev2 := e.addEvent(s2, fr, &Event{Kind: EvReadBytes, Mode: "Next", Buf: args[0], Size: args[1], Args: args[1:], Failed: true, Short: true}, in)
			markExhausted(s2, args[0])
			sh := &Val{Op: "short", ID: ev2.ID, Args: []*Val{args[1]}, Type: intT}
			return callRes{st: s2, val: &Val{Op: "bufnext", ID: ev2.ID, Args: []*Val{args[0], sh, {Op: "unknown", ID: ev2.ID, Name: "partial-read", Type: rt, Args: []*Val{sh}}}, Type: rt}}
		}
		if st.exhausted[args[0].Key()] && !guarded {
			return []callRes{short(st)}, true
		}
		var st2 *state
		if !guarded {
			st2 = st.clone()
		}
		ev := e.addEvent(st, fr, &Event{Kind: EvReadBytes, Mode: "Next", Buf: args[0], Size: args[1], Args: args[1:]}, in)
		w := &Val{Op: "wire", ID: ev.ID, Type: rt, Args: []*Val{args[1]}}
		res := []callRes{{st: st, val: &Val{Op: "bufnext", ID: ev.ID, Args: []*Val{args[0], args[1], w}, Type: rt}}}
		if st2 != nil {
			res = append(res, short(st2))
		}
		return res, true
	case "bytes.NewBuffer", "bytes.NewBufferString", "bytes.NewReader":
		return one(st, &Val{Op: "call", Name: name, Args: []*Val{args[0]}, Type: fn.Signature.Results().At(0).Type()}), true
	case "errors.Is", "errors.As":
		// no error at all matches nothing; an error is itself
		if len(args) == 2 {
			if nilness(args[0]) == -1 {
				return one(st, mkBool(false)), true
			}
			if name == "errors.Is" && stripIface(args[0]).Key() == stripIface(args[1]).Key() && nilness(args[0]) == +1 {
				return one(st, mkBool(true)), true
			}
		}
	case "fmt.Errorf", "errors.New":
		return one(st, &Val{Op: "call", Name: name, Args: args, Type: errT}), true
	}
	// remaining *bytes.Buffer methods: observers and everything else, by name
	if strings.HasPrefix(name, "(*bytes.Buffer).") {
		m := strings.TrimPrefix(name, "(*bytes.Buffer).")
		ev := e.addEvent(st, fr, &Event{Kind: EvBufOther, Mode: m, Buf: args[0], Args: args[1:]}, in)
		return one(st, e.opaqueResult(fn, name, args, ev.ID)), true
	}
	// mutexes
	if name == "(*sync.RWMutex).RLocker" && len(args) == 1 {
		// a Locker whose Lock/Unlock are the mutex's RLock/RUnlock
		return one(st, &Val{Op: "rlocker", Args: []*Val{args[0]}, Type: fn.Signature.Results().At(0).Type()}), true
	}
	switch name {
	case "(*sync.RWMutex).Lock", "(*sync.RWMutex).Unlock", "(*sync.RWMutex).RLock", "(*sync.RWMutex).RUnlock",
		"(*sync.Mutex).Lock", "(*sync.Mutex).Unlock", "(*sync.RWMutex).TryLock", "(*sync.RWMutex).TryRLock", "(*sync.Mutex).TryLock":
		m := name[strings.LastIndex(name, ".")+1:]
		e.addEvent(st, fr, &Event{Kind: EvLock, Mode: m, Recv: args[0]}, in)
		if strings.HasPrefix(m, "Try") {
			return one(st, &Val{Op: "unknown", ID: e.id(), Name: m, Type: types.Typ[types.Bool]}), true
		}
		return one(st, nil), true
	}
	// sync.Once: the function has completed, here or in whichever goroutine came first, when Do returns. Its effects are
	// analysed (its panic sites and stores are effects this call may have) but not assumed: what it stores is read back
	// from memory as what the variable holds, not as this path's own fresh value.
	if name == "(*sync.Once).Do" && len(args) == 2 {
		var body *ssa.Function
		var free []*Val
		switch args[1].Op {
		case "func":
			body, _ = args[1].Aux.(*ssa.Function)
		case "closure":
			body, _ = args[1].Aux.(*ssa.Function)
			free = args[1].Args
		}
		ev := e.addEvent(st, fr, &Event{Kind: EvAtomic, Mode: "Once.Do", Recv: args[0], Callee: body}, in)
		if body != nil && body.Blocks != nil && e.P.InModule(body) && len(body.Params) == 0 {
			sub := st.clone()
			sub.events = nil
			base := len(sub.conds)
			for _, r := range e.callFunc(sub, fr, in, body, nil, free) {
				arm := &Arm{Events: r.st.events}
				walkEvents(arm.Events, func(x *Event, _ int) { x.Once = true })
				if len(r.st.conds) > base {
					arm.Conds = r.st.conds[base:]
				}
				ev.Iter = append(ev.Iter, arm)
				if r.panicked {
					e.addEvent(st, fr, &Event{Kind: EvPanicSite, Mode: "panic", Args: []*Val{args[1]}}, in)
				}
			}
		} else {
			e.addEvent(st, fr, &Event{Kind: EvCall, Mode: "once:unknown-body", Args: args[1:]}, in)
		}
		return one(st, nil), true
	}
	// sync/atomic.Pointer[T]: one shared word, read and replaced as a whole
	if strings.HasPrefix(name, "(*sync/atomic.Pointer[") && len(args) >= 1 {
		m := name[strings.LastIndex(name, ".")+1:]
		switch m {
		case "Load":
			ev := e.addEvent(st, fr, &Event{Kind: EvAtomic, Mode: m, Recv: args[0]}, in)
			return one(st, &Val{Op: "atomicload", ID: ev.ID, Args: []*Val{args[0]}, Type: fn.Signature.Results().At(0).Type()}), true
		case "Store":
			if len(args) == 2 {
				e.addEvent(st, fr, &Event{Kind: EvAtomic, Mode: m, Recv: args[0], Src: args[1]}, in)
				e.escapeCheck(st, fr, in, "atomic store", args[1:])
				return one(st, nil), true
			}
		case "Swap":
			if len(args) == 2 {
				ev := e.addEvent(st, fr, &Event{Kind: EvAtomic, Mode: m, Recv: args[0], Src: args[1]}, in)
				e.escapeCheck(st, fr, in, "atomic swap", args[1:])
				return one(st, &Val{Op: "atomicload", ID: ev.ID, Args: []*Val{args[0]}, Type: fn.Signature.Results().At(0).Type()}), true
			}
		case "CompareAndSwap":
			if len(args) == 3 {
				ev := e.addEvent(st, fr, &Event{Kind: EvAtomic, Mode: m, Recv: args[0], Src: args[2], Args: []*Val{args[1]}}, in)
				e.escapeCheck(st, fr, in, "atomic compare-and-swap", args[2:])
				return one(st, &Val{Op: "unknown", ID: ev.ID, Name: m, Type: types.Typ[types.Bool]}), true
			}
		}
	}
	// ByteOrder methods
	if strings.HasPrefix(name, "(encoding/binary.bigEndian).") || strings.HasPrefix(name, "(encoding/binary.littleEndian).") {
		ord := "BE"
		if strings.Contains(name, "littleEndian") {
			ord = "LE"
		}
		m := name[strings.LastIndex(name, ".")+1:]
		if strings.HasPrefix(m, "PutUint") && len(args) == 3 {
			var it types.Type
			switch m {
			case "PutUint16":
				it = types.Typ[types.Uint16]
			case "PutUint32":
				it = types.Typ[types.Uint32]
			case "PutUint64":
				it = types.Typ[types.Uint64]
			}
			sz, _ := fixedSize(it)
			// PutUint32(b, math.Float32bits(x)): the float x in its IEEE 754 bits – what binary.Write(x) renders
			if fb := stripCT(args[2]); fb != nil && fb.Op == "call" && len(fb.Args) == 1 {
				switch {
				case fb.Name == "math.Float32bits" && m == "PutUint32":
					it, args = types.Typ[types.Float32], []*Val{args[0], args[1], fb.Args[0]}
				case fb.Name == "math.Float64bits" && m == "PutUint64":
					it, args = types.Typ[types.Float64], []*Val{args[0], args[1], fb.Args[0]}
				}
			}
			buf := bufferIn(args[1])
			var bufv *Val
			if buf != nil && len(buf.Args) > 0 {
				bufv = buf.Args[0]
			}
			// PutUintN panics when the slice is shorter than N
			e.addEvent(st, fr, &Event{Kind: EvPanicSite, Mode: "putuint", Args: []*Val{args[1], mkInt(sz)}}, in)
			if buf == nil {
				// staging a number in local memory (to be appended with buf.Write): remember what the bytes are
				if base, off, total, ok := arraySegment(args[1], sz); ok {
					seg := &Val{Op: "intbytes", Name: ord, ID: off, Args: []*Val{args[2]}, Type: it}
					if off == 0 && total == int(sz) {
						st.content[base.Key()] = seg
					} else {
						stageSeg(st, base, off, total, seg, args[1].Type)
					}
					return one(st, nil), true
				}
				if n, isC := affOf(mkLen(args[1])).IsConst(); isC && n == sz {
					e.setContent(st, args[1], &Val{Op: "intbytes", Name: ord, Args: []*Val{args[2]}, Type: it})
					return one(st, nil), true
				}
			}
			e.addEvent(st, fr, &Event{Kind: EvPatch, Buf: bufv, IntType: it, Order: ord, Dst: args[1], Src: args[2], Size: mkInt(sz)}, in)
			return one(st, nil), true
		}
		// UintN(b) panics when b is shorter than N bytes
		if strings.HasPrefix(m, "Uint") && len(args) == 2 {
			if need := map[string]int64{"Uint16": 2, "Uint32": 4, "Uint64": 8}[m]; need > 0 {
				e.addEvent(st, fr, &Event{Kind: EvPanicSite, Mode: "getuint", Args: []*Val{args[1], mkInt(need)}}, in)
				// a narrower number read into one end of a zeroed local array and taken as a wider one: the zero bytes on the
				// high-order side extend it (`io.ReadFull(buf, scratch[8-n:]); BigEndian.Uint64(scratch[:])`)
				if w := widenedRead(st, args[1], need, ord); w != nil {
					return one(st, &Val{Op: "conv", Name: "convert", Args: []*Val{w}, Type: fn.Signature.Results().At(0).Type()}), true
				}
			}
		}
		// reading / appending methods: pure; the receiver (an empty struct) is dropped, slices are taken by content
		var cargs []*Val
		for _, a := range args[1:] {
			cargs = append(cargs, e.contentOf(st, a))
		}
		return one(st, e.opaqueResult(fn, name, cargs, 0)), true
	}
	// pure library functions
	if pkg := ssaPkgOf(fn); pkg != nil && purePkgs[pkg.Pkg.Path()] && !e.P.InModule(fn) { // (instances of generic library functions belong to their origin's package)
		var cargs []*Val
		// functions of bytes and slices may hand back (part of) the very slice they were given – Trim*, Clip, Compact,
		// Delete, Fields … do not copy: when the result can hold a slice, a slice argument that views the buffer's storage
		// is kept as that view (so the alias is still seen); its content is what contentOf makes of it later
		mayAlias := false
		if pp := pkg.Pkg.Path(); pp == "bytes" || pp == "slices" {
			res := fn.Signature.Results()
			for i := 0; i < res.Len(); i++ {
				switch res.At(i).Type().Underlying().(type) {
				case *types.Slice, *types.Interface, *types.TypeParam:
					mayAlias = true
				}
				if _, isTP := res.At(i).Type().(*types.TypeParam); isTP {
					mayAlias = true
				}
			}
		}
		for _, a := range args {
			if mayAlias && a != nil && a.Contains(func(x *Val) bool { return x.Op == "bufbytes" || x.Op == "bufnext" || x.Op == "availbuf" }) {
				cargs = append(cargs, a)
				continue
			}
			cargs = append(cargs, e.contentOf(st, a))
		}
		// library functions that permute or overwrite a slice argument in place
		if mutatesSliceArg(name) {
			for _, a := range args {
				a = stripIface(a)
				if a.Type == nil {
					continue
				}
				if _, isSl := a.Type.Underlying().(*types.Slice); isSl {
					c := e.contentOf(st, a)
					e.setContent(st, a, &Val{Op: "call", Name: name, Args: []*Val{c}, Type: a.Type})
					if r := addrRoot(stripCT(a)); r != nil && (r.Op == "param" || r.Op == "init" || r.Op == "global") {
						e.addEvent(st, fr, &Event{Kind: EvStore, Dst: &Val{Op: "index", Args: []*Val{a, &Val{Op: "unknown", Name: "any"}}, Type: a.Type}, Src: &Val{Op: "call", Name: name, Args: []*Val{c}, Type: a.Type}}, in)
					}
				}
			}
		}
		if name == "hash/crc32.NewIEEE" && len(args) == 0 {
			return one(st, &Val{Op: "crc32hash", ID: e.id(), Name: "IEEE", Type: fn.Signature.Results().At(0).Type()}), true
		}
		if name == "hash/crc32.New" && len(args) == 1 {
			tabName := "other"
			if args[0] != nil && args[0].Contains(func(y *Val) bool { return y.Op == "global" && strings.Contains(y.Name, "IEEETable") }) {
				tabName = "IEEE"
			}
			return one(st, &Val{Op: "crc32hash", ID: e.id(), Name: tabName, Type: fn.Signature.Results().At(0).Type()}), true
		}
		if name == "encoding/binary.Size" && len(args) == 1 {
			v := stripIface(args[0])
			if v.Type != nil {
				t := v.Type
				if p, ok := t.Underlying().(*types.Pointer); ok {
					t = p.Elem()
				}
				if sz, ok := fixedSize(t); ok && sz > 0 {
					return one(st, mkInt(sz)), true
				}
				// a slice of fixed-size numbers: element size times length
				if sl, isSl := t.Underlying().(*types.Slice); isSl {
					if esz, okE := fixedSize(sl.Elem()); okE && esz > 0 {
						ln := mkLen(e.contentOf(st, v))
						if esz == 1 {
							return one(st, ln), true
						}
						return one(st, mkBinop(token.MUL, mkInt(esz), ln, types.Typ[types.Int])), true
					}
				}
			}
		}
		switch name {
		case "bytes.Repeat":
			e.addEvent(st, fr, &Event{Kind: EvAlloc, Mode: "bytes.Repeat", Src: args[1], Args: []*Val{args[1]}}, in)
			e.addEvent(st, fr, &Event{Kind: EvPanicSite, Mode: "repeat-count", Args: []*Val{args[1]}}, in)
		case "strings.Repeat":
			e.addEvent(st, fr, &Event{Kind: EvAlloc, Mode: "strings.Repeat", Src: args[1], Args: []*Val{args[1]}}, in)
			e.addEvent(st, fr, &Event{Kind: EvPanicSite, Mode: "repeat-count", Args: []*Val{args[1]}}, in)
			// a one-byte string repeated: the same bytes as bytes.Repeat of that byte
			var one1 *Val
			if s0 := stripCT(cargs[0]); s0 != nil {
				if s0.IsConst() && s0.C != nil && s0.C.Kind() == constant.String && len(constant.StringVal(s0.C)) == 1 {
					one1 = mkConst(constant.MakeInt64(int64(constant.StringVal(s0.C)[0])), types.Typ[types.Uint8])
				} else if s0.Op == "conv" && len(s0.Args) == 1 && isStringOrBytes(s0.Type) {
					if lit := stripCT(s0.Args[0]); lit != nil && lit.Op == "arraylit" && len(lit.Args) == 1 && lit.Args[0] != nil && lit.Args[0].Type != nil {
						if bt, isB := typeUnder(lit.Args[0].Type).(*types.Basic); isB && bt.Kind() == types.Uint8 {
							one1 = lit.Args[0]
						}
					}
				}
			}
			if one1 != nil {
				return one(st, &Val{Op: "call", Name: "bytes.Repeat", Args: []*Val{{Op: "arraylit", Args: []*Val{one1}}, cargs[1]}, Type: fn.Signature.Results().At(0).Type()}), true
			}
		}
		return one(st, e.opaqueResult(fn, name, cargs, 0)), true
	}
	return nil, false
}

func (e *Engine) opaqueResult(fn *ssa.Function, name string, args []*Val, id int) *Val {
	res := fn.Signature.Results()
	mk := func(i int, t types.Type) *Val {
		return &Val{Op: "call", Name: name, Aux: i, Args: args, Type: t, ID: id}
	}
	switch res.Len() {
	case 0:
		return nil
	case 1:
		return mk(0, res.At(0).Type())
	}
	t := &Val{Op: "tuple"}
	for i := 0; i < res.Len(); i++ {
		t.Args = append(t.Args, mk(i, res.At(i).Type()))
	}
	return t
}

var _ = token.NoPos

// derefsReceiver: does the method touch memory through its receiver?
func derefsReceiver(fn *ssa.Function) bool {
	if len(fn.Params) == 0 {
		return false
	}
	refs := fn.Params[0].Referrers()
	if refs == nil {
		return false
	}
	for _, r := range *refs {
		if _, ok := r.(*ssa.DebugRef); !ok {
			return true
		}
	}
	return false
}

// mergePureForks joins callee outcomes that performed exactly the same effects (the very same events) and differ
// only in a value computed afterwards – e.g. `if valid(b) { return string(b) }; return sanitise(b)`. The joined
// outcome returns a `choice` of the alternatives, so a caller with k such calls has one path instead of 2^k.
func mergePureForks(pre *state, outs []*outcome, startID int) []*outcome {
	type bucket struct {
		first int
		outs  []*outcome
	}
	var order []string
	buckets := map[string]*bucket{}
	var rest []*outcome
	for i, o := range outs {
		if o.kind != oReturn {
			rest = append(rest, o)
			continue
		}
		var b strings.Builder
		for _, ev := range o.st.events {
			if ev.Kind == EvPanicSite || (ev.Kind == EvRep && !altHasWire(ev) && effectFree(ev)) {
				continue // pure computation (bounds-checked scans): identity does not matter, panic sites are united below
			}
			fmt.Fprintf(&b, "%p,", ev)
		}
		b.WriteString("|")
		for _, r := range o.ret {
			cls := "v"
			switch {
			case isErrorType(r.Type) || r.Op == "nonnil":
				cls = fmt.Sprintf("e%d", nilness(r))
			case r.Type != nil && isNilable(r.Type):
				cls = fmt.Sprintf("n%d", nilness(r)) // callers branch on nil-ness: keep nil and non-nil results apart
			case r.Type != nil && isBoolType(r.Type):
				if b, ok := r.Bool(); ok {
					cls = fmt.Sprintf("b%v", b) // callers branch on booleans: keep true and false apart
				} else {
					cls = "b:" + r.Key()
				}
			}
			b.WriteString(cls + typeStr(r.Type) + ",")
		}
		full := outcomeSig(pre, o, startID)
		// memory part of the signature only (everything after the result keys)
		mem := full
		for range o.ret {
			if j := strings.Index(mem, ";"); j >= 0 {
				mem = mem[j+1:]
			}
		}
		b.WriteString("|" + mem)
		k := b.String()
		if buckets[k] == nil {
			buckets[k] = &bucket{first: i}
			order = append(order, k)
		}
		buckets[k].outs = append(buckets[k].outs, o)
	}
	var merged []*outcome
	for _, k := range order {
		b := buckets[k]
		if len(b.outs) == 1 {
			merged = append(merged, b.outs[0])
			continue
		}
		o0 := *b.outs[0]
		st2 := o0.st.clone()
		// keep only the branch conditions all alternatives share
		n := len(st2.conds)
		for _, o := range b.outs[1:] {
			m := 0
			for m < n && m < len(o.st.conds) && o.st.conds[m].V.Key() == st2.conds[m].V.Key() && o.st.conds[m].Taken == st2.conds[m].Taken {
				m++
			}
			n = m
		}
		st2.conds = st2.conds[:n]
		st2.facts = map[string]bool{}
		for k, v := range pre.facts {
			st2.facts[k] = v
		}
		// unite the panic sites (and effect-free loops) the alternatives passed; each keeps the conditions of its own way
		// beyond the shared ones (the bound a scan loop was left under discharges the index that follows it)
		own := func(ev *Event, conds []Cond) *Event {
			if ev.NCond <= n || !(ev.Kind == EvPanicSite || (ev.Kind == EvRep && !altHasWire(ev) && effectFree(ev))) {
				return ev
			}
			c := *ev
			c.Own = append(append([]Cond(nil), conds[n:min(ev.NCond, len(conds))]...), ev.Own...)
			c.NCond = n
			return &c
		}
		seenSite := map[string]bool{}
		st2.events = append([]*Event(nil), st2.events...)
		for i, ev := range st2.events {
			if i >= len(pre.events) {
				st2.events[i] = own(ev, b.outs[0].st.conds)
			}
			if ev.Kind == EvPanicSite || ev.Kind == EvRep {
				seenSite[siteOf(ev)] = true
			}
		}
		for _, o := range b.outs[1:] {
			for _, ev := range o.st.events {
				if (ev.Kind == EvPanicSite || (ev.Kind == EvRep && !altHasWire(ev) && effectFree(ev))) && !seenSite[siteOf(ev)] {
					seenSite[siteOf(ev)] = true
					st2.events = append(st2.events, own(ev, o.st.conds))
				}
			}
		}
		o0.st = st2
		rets := make([]*Val, len(o0.ret))
		for i := range rets {
			var alts []*Val
			seen := map[string]bool{}
			for _, o := range b.outs {
				if i < len(o.ret) && !seen[o.ret[i].Key()] {
					seen[o.ret[i].Key()] = true
					alts = append(alts, o.ret[i])
				}
			}
			if len(alts) == 1 {
				rets[i] = alts[0]
			} else {
				// each alternative remembers the conditions and the (effect-free) loops of the fork it comes from: the
				// rules that interpret an alternative (e.g. as a strip of pad bytes) need them
				ch := &Val{Op: "choice", Args: alts, Type: alts[0].Type}
				var forks []*choiceFork
				for _, a := range alts {
					var f *choiceFork
					for _, o := range b.outs {
						if i < len(o.ret) && o.ret[i].Key() == a.Key() {
							var cs []Cond
							if len(o.st.conds) > n {
								cs = append([]Cond(nil), o.st.conds[n:]...)
							}
							if f != nil {
								// the same value reached another way (`if b < 0x80 || b >= 0xC0 { trim }`): only what holds
								// on every way to it can be said of the alternative
								var common []Cond
								for _, c := range f.Conds {
									for _, d := range cs {
										if c.Taken == d.Taken && c.V.Key() == d.V.Key() {
											common = append(common, c)
											break
										}
									}
								}
								f.Conds = common
								continue
							}
							f = &choiceFork{Conds: cs}
							for _, ev := range o.st.events {
								if ev.Kind == EvRep {
									f.Loops = append(f.Loops, ev)
								}
							}
						}
					}
					if f != nil {
						forks = append(forks, f)
					}
				}
				if len(forks) == len(alts) {
					ch.Aux = forks
				}
				rets[i] = ch
			}
		}
		o0.ret = rets
		merged = append(merged, &o0)
	}
	return append(merged, rest...)
}

// substVal rewrites the types of a value (and of the terms it is built from) that mention a callee's type parameter
// into the type argument it stands for.
func substVal(v *Val, f *frame) *Val {
	if v == nil {
		return nil
	}
	changed := false
	nt := v.Type
	if v.Type != nil {
		if t2 := f.substT(v.Type); t2 != v.Type {
			nt, changed = t2, true
		}
	}
	var args []*Val
	for i, a := range v.Args {
		a2 := substVal(a, f)
		if a2 != a {
			if args == nil {
				args = append([]*Val(nil), v.Args...)
			}
			args[i] = a2
			changed = true
		}
	}
	if !changed {
		return v
	}
	c := *v
	c.Type = nt
	if args != nil {
		c.Args = args
	}
	c.key = ""
	return &c
}

// choiceFork: where one alternative of a choice value comes from.
type choiceFork struct {
	Conds []Cond   // the conditions of that fork beyond those all alternatives share
	Loops []*Event // the loops that fork ran
}

func isNilable(t types.Type) bool {
	switch t.Underlying().(type) {
	case *types.Pointer, *types.Interface, *types.Slice, *types.Map, *types.Signature, *types.Chan:
		return true
	}
	return false
}

func isBoolType(t types.Type) bool {
	b, ok := t.Underlying().(*types.Basic)
	return ok && b.Info()&types.IsBoolean != 0
}

// effectFree: a loop whose iterations have no effect besides possible panic sites.
func effectFree(rep *Event) bool {
	ok := true
	for _, arm := range rep.Iter {
		walkEvents(arm.Events, func(e *Event, _ int) {
			if e.Kind != EvPanicSite {
				ok = false
			}
		})
	}
	return ok
}

func siteOf(ev *Event) string {
	k := fmt.Sprintf("%d:%p:%s:%v", ev.Kind, ev.Instr, ev.Mode, ev.Partial)
	for _, a := range ev.Args {
		k += ":" + a.Key()
	}
	return k
}

func markExhausted(st *state, buf *Val) {
	if st.exhausted == nil {
		st.exhausted = map[string]bool{}
	}
	st.exhausted[buf.Key()] = true
}

// stagedInts: the byte content is a sequence of fixed-size numbers rendered in known byte orders – one number put
// into a local array, an array tiled by several PutUintN calls, or a chain of AppendUintN calls starting from an
// empty slice. nil when the content is anything else.
func stagedInts(src *Val) []*Val {
	src = stripCT(src)
	if src == nil {
		return nil
	}
	switch src.Op {
	case "intbytes":
		return []*Val{src}
	case "staged":
		// segments (offset in ID) must tile [0, total) without gaps or overlaps
		// (the array is a zero-initialised local: a gap of 1, 2, 4 or 8 bytes is a number-sized run of zero bytes, the
		// usual placeholder for a field patched later; it has no byte order of its own – Order "zero")
		segs := append([]*Val(nil), src.Args...)
		sort.Slice(segs, func(i, j int) bool { return segs[i].ID < segs[j].ID })
		total, ok := src.Aux.(int)
		if !ok {
			return nil
		}
		zeroSeg := func(off, n int) *Val {
			var it types.Type
			switch n {
			case 1:
				it = types.Typ[types.Uint8]
			case 2:
				it = types.Typ[types.Uint16]
			case 4:
				it = types.Typ[types.Uint32]
			case 8:
				it = types.Typ[types.Uint64]
			default:
				return nil
			}
			return &Val{Op: "intbytes", Name: "zero", ID: off, Args: []*Val{mkConst(constant.MakeInt64(0), it)}, Type: it}
		}
		var out []*Val
		off := 0
		for _, sg := range segs {
			sz, _ := fixedSize(sg.Type)
			if sg.ID < off {
				return nil
			}
			if sg.ID > off {
				z := zeroSeg(off, sg.ID-off)
				if z == nil {
					return nil
				}
				out = append(out, z)
			}
			out = append(out, sg)
			off = sg.ID + int(sz)
		}
		if off > total {
			return nil
		}
		if off < total {
			z := zeroSeg(off, total-off)
			if z == nil {
				return nil
			}
			out = append(out, z)
		}
		return out
	case "call":
		if len(src.Args) != 2 {
			return nil
		}
		for _, ord := range []struct{ pfx, o string }{{"(encoding/binary.bigEndian).AppendUint", "BE"}, {"(encoding/binary.littleEndian).AppendUint", "LE"}, {"(encoding/binary.ByteOrder).AppendUint", "param"}, {"(encoding/binary.AppendByteOrder).AppendUint", "param"}} {
			if !strings.HasPrefix(src.Name, ord.pfx) {
				continue
			}
			var it types.Type
			switch strings.TrimPrefix(src.Name, ord.pfx) {
			case "16":
				it = types.Typ[types.Uint16]
			case "32":
				it = types.Typ[types.Uint32]
			case "64":
				it = types.Typ[types.Uint64]
			default:
				return nil
			}
			this := &Val{Op: "intbytes", Name: ord.o, Args: []*Val{src.Args[1]}, Type: it}
			// AppendUint32(b, math.Float32bits(x)): the float x in its IEEE 754 bits – what binary.Write(x) renders
			if fb := stripCT(src.Args[1]); fb != nil && fb.Op == "call" && len(fb.Args) == 1 {
				switch {
				case fb.Name == "math.Float32bits" && it == types.Typ[types.Uint32]:
					this = &Val{Op: "intbytes", Name: ord.o, Args: []*Val{fb.Args[0]}, Type: types.Typ[types.Float32]}
				case fb.Name == "math.Float64bits" && it == types.Typ[types.Uint64]:
					this = &Val{Op: "intbytes", Name: ord.o, Args: []*Val{fb.Args[0]}, Type: types.Typ[types.Float64]}
				}
			}
			first := stripCT(src.Args[0])
			if emptyBytes(first) {
				return []*Val{this}
			}
			if pre := stagedInts(first); pre != nil {
				return append(pre, this)
			}
			return nil
		}
		if src.Name == "append" && len(src.Args) == 2 {
			// append(staged-or-empty, b1, b2 …) with single-byte values: one 1-byte number each
			first := stripCT(src.Args[0])
			var pre []*Val
			if emptyBytes(first) {
				pre = []*Val{}
			} else if p := stagedInts(first); p != nil {
				pre = p
			} else {
				return nil
			}
			lit := stripCT(src.Args[1])
			if lit.Op != "arraylit" || len(lit.Args) == 0 {
				return nil
			}
			for _, el := range lit.Args {
				if el.Type == nil {
					return nil
				}
				if sz, ok := fixedSize(el.Type); !ok || sz != 1 {
					return nil
				}
				pre = append(pre, &Val{Op: "intbytes", Name: "", Args: []*Val{el}, Type: el.Type})
			}
			return pre
		}
	}
	return nil
}

// widenedRead: v is the whole of a local [need]byte array that is zero except for one run of bytes a read delivered,
// and that run sits at the low-order end for the byte order ord (the end of the array for BE, its start for LE): the
// number those bytes are in that order (ByteOrder.UintW of the run, or its only byte).
func widenedRead(st *state, v *Val, need int64, ord string) *Val {
	s := stripCT(v)
	if s == nil || s.Op != "slice" || len(s.Args) < 3 || s.Args[1] != nil || s.Args[2] != nil {
		return nil
	}
	base := stripCT(s.Args[0])
	if base == nil || base.Op != "alloc" {
		return nil
	}
	pt, isP := base.Type.(*types.Pointer)
	if !isP {
		return nil
	}
	arr, isA := pt.Elem().Underlying().(*types.Array)
	if !isA || arr.Len() != need {
		return nil
	}
	if _, has := st.content[base.Key()]; has {
		return nil
	}
	// exactly one part of the array has content: a slice with constant bounds that a read filled
	var run *Val
	var lo, hi int64
	parts := 0
	pfx := "slice(" + base.Key() + ","
	for k := range st.content {
		if strings.HasPrefix(k, pfx) {
			parts++
		}
	}
	if parts != 1 {
		return nil
	}
	found := false
	for l := int64(0); l < need; l++ {
		for h := l + 1; h <= need; h++ {
			var loV, hiV *Val
			if l != 0 {
				loV = mkInt(l)
			}
			if h != need {
				hiV = mkInt(h)
			}
			keys := []string{(&Val{Op: "slice", Args: []*Val{base, loV, hiV, nil}}).Key()}
			if l == 0 {
				keys = append(keys, (&Val{Op: "slice", Args: []*Val{base, mkInt(0), hiV, nil}}).Key())
			}
			if h == need {
				keys = append(keys, (&Val{Op: "slice", Args: []*Val{base, loV, mkInt(need), nil}}).Key())
			}
			for _, key := range keys {
				if c, ok := st.content[key]; ok {
					if cv := stripCT(c); cv != nil && cv.Op == "wire" {
						run, lo, hi, found = cv, l, h, true
					}
				}
			}
		}
	}
	if !found {
		return nil
	}
	// no element of the array was stored to by hand
	for _, me := range st.mem {
		if me.Addr != nil && me.Addr.Op == "index" && me.Addr.Args[0].Key() == base.Key() {
			return nil
		}
	}
	w := hi - lo
	switch {
	case ord == "BE" && hi == need:
	case ord == "LE" && lo == 0:
	default:
		return nil
	}
	if n, isC := affOf(mkLen(run)).IsConst(); !isC || n != w {
		return nil
	}
	name := map[string]string{"BE": "(encoding/binary.bigEndian).Uint", "LE": "(encoding/binary.littleEndian).Uint"}[ord]
	switch w {
	case 1:
		return &Val{Op: "elem", Args: []*Val{run, mkInt(0)}, Type: types.Typ[types.Uint8]}
	case 2:
		return &Val{Op: "call", Name: name + "16", Args: []*Val{run}, Type: types.Typ[types.Uint16]}
	case 4:
		return &Val{Op: "call", Name: name + "32", Args: []*Val{run}, Type: types.Typ[types.Uint32]}
	}
	return nil
}

// stagedPart: v is arr[lo:hi] with constant bounds over a local byte array in which numbers were staged; the numbers
// that tile [lo, hi) exactly, in order – nil when the part written is not exactly a run of staged numbers.
func stagedPart(st *state, v *Val) []*Val {
	s := stripCT(v)
	if s == nil || s.Op != "slice" || len(s.Args) < 3 || s.Args[2] == nil || (len(s.Args) > 3 && s.Args[3] != nil) {
		return nil
	}
	base := stripCT(s.Args[0])
	if base == nil || base.Op != "alloc" {
		return nil
	}
	pt, isP := base.Type.(*types.Pointer)
	if !isP {
		return nil
	}
	arr, isA := pt.Elem().Underlying().(*types.Array)
	if !isA {
		return nil
	}
	lo := int64(0)
	if s.Args[1] != nil {
		k, isC := s.Args[1].Int64()
		if !isC {
			return nil
		}
		lo = k
	}
	hi, isC := s.Args[2].Int64()
	if !isC || lo < 0 || hi <= lo || hi > arr.Len() {
		return nil
	}
	c := stripCT(st.content[base.Key()])
	var segs []*Val
	switch {
	case c == nil:
		return nil
	case c.Op == "intbytes":
		segs = []*Val{c}
	case c.Op == "staged":
		segs = append(segs, c.Args...)
	default:
		return nil
	}
	var in []*Val
	for _, sg := range segs {
		if sg.Op != "intbytes" {
			return nil
		}
		sz, ok := fixedSize(sg.Type)
		if !ok || sz <= 0 {
			return nil
		}
		a, b := int64(sg.ID), int64(sg.ID)+sz
		if b <= lo || a >= hi {
			continue
		}
		if a < lo || b > hi {
			return nil // a number cut in two
		}
		in = append(in, sg)
	}
	sort.Slice(in, func(i, j int) bool { return in[i].ID < in[j].ID })
	off := lo
	for _, sg := range in {
		if int64(sg.ID) != off {
			return nil
		}
		sz, _ := fixedSize(sg.Type)
		off += sz
	}
	if off != hi || len(in) == 0 {
		return nil
	}
	return in
}

// stagedBlock: the segments of a record staged in a local byte array, in order, when they tile it completely: numbers
// and single bytes (intbytes), texts cut or padded to their field (padded, with the pad byte known), and number-sized
// runs of untouched (zero) bytes. nil otherwise.
func stagedBlock(stg *Val) []*Val {
	total, ok := stg.Aux.(int)
	if !ok {
		return nil
	}
	segs := append([]*Val(nil), stg.Args...)
	sort.Slice(segs, func(i, j int) bool { return segs[i].ID < segs[j].ID })
	var out []*Val
	off := 0
	gap := func(n int) bool {
		it := map[int]types.Type{1: types.Typ[types.Uint8], 2: types.Typ[types.Uint16], 4: types.Typ[types.Uint32], 8: types.Typ[types.Uint64]}[n]
		if it == nil {
			return false
		}
		out = append(out, &Val{Op: "intbytes", Name: "zero", ID: off, Args: []*Val{mkConst(constant.MakeInt64(0), it)}, Type: it})
		return true
	}
	for _, sg := range segs {
		if sg.ID < off {
			return nil
		}
		if sg.ID > off && !gap(sg.ID-off) {
			return nil
		}
		var w int
		switch sg.Op {
		case "fillseg":
			// untouched bytes of the blank: zero bytes the size of a number are that number; anything else is not a field
			if !isZero(sg.Args[0]) || !gap(sg.Aux.(int)) {
				return nil
			}
			off = sg.ID + sg.Aux.(int)
			continue
		case "padded":
			if len(sg.Args) != 2 || sg.Args[1] == nil {
				return nil // the rest of the field was never filled
			}
			w = sg.Aux.(int)
		case "intbytes":
			sz, _ := fixedSize(sg.Type)
			w = int(sz)
		default:
			return nil
		}
		out = append(out, sg)
		off = sg.ID + w
	}
	if off > total || (off < total && !gap(total-off)) {
		return nil
	}
	return out
}

// stagedSegments: src is a slice assembled from numbers and at least one text: append(<numbers or empty>, text...),
// possibly continued with more numbers or texts. Segments are intbytes values and textseg(content) values, in order.
// nil when src is not of that shape (numbers alone are stagedInts' business).
func stagedSegments(src *Val) []*Val {
	var rec func(v *Val, depth int) ([]*Val, bool)
	rec = func(v *Val, depth int) ([]*Val, bool) {
		v = stripCT(v)
		if v == nil || depth > 12 {
			return nil, false
		}
		if v.IsNilConst() || v.Op == "availbuf" || (v.Op == "makeslice" && len(v.Args) > 0 && isZero(v.Args[0])) {
			return []*Val{}, true
		}
		if ints := stagedInts(v); ints != nil {
			return ints, true
		}
		if v.Op == "call" && v.Name == "append" && len(v.Args) == 2 {
			x := stripCT(v.Args[1])
			if x != nil && x.Op != "arraylit" && x.Type != nil && isStringOrBytes(x.Type) && !x.Contains(func(y *Val) bool { return y.Op == "availbuf" || y.Op == "bufbytes" }) {
				pre, ok := rec(v.Args[0], depth+1)
				if !ok {
					return nil, false
				}
				return append(append([]*Val(nil), pre...), &Val{Op: "textseg", Args: []*Val{v.Args[1]}, Type: x.Type}), true
			}
		}
		return nil, false
	}
	segs, ok := rec(src, 0)
	if !ok {
		return nil
	}
	hasText := false
	for _, sg := range segs {
		if sg.Op == "textseg" {
			hasText = true
		}
	}
	if !hasText {
		return nil
	}
	return segs
}

func isZero(v *Val) bool {
	n, ok := v.Int64()
	return ok && n == 0
}

// mutatesSliceArg: standard-library functions that modify the elements of a slice they are given.
func mutatesSliceArg(name string) bool {
	switch {
	case strings.HasPrefix(name, "sort."):
		return name != "sort.Search" && !strings.HasPrefix(name, "sort.Search") && !strings.HasSuffix(name, "AreSorted") && name != "sort.IsSorted" && name != "sort.SliceIsSorted"
	case strings.HasPrefix(name, "slices."):
		for _, m := range []string{"Sort", "Reverse", "Delete", "Insert", "Compact", "Replace", "Grow", "Clip"} {
			if strings.HasPrefix(name, "slices."+m) {
				return true
			}
		}
	case name == "encoding/hex.Encode" || name == "encoding/hex.Decode":
		return true
	}
	return false
}

// stageSeg records that the bytes [off, off+width) of the local byte array base hold seg (a number, a single byte or a
// padded text); a segment staged earlier at the same offset is replaced.
func stageSeg(st *state, base *Val, off, total int, seg *Val, t types.Type) {
	seg.ID = off
	old := stripCT(st.content[base.Key()])
	stg := &Val{Op: "staged", Aux: total, Type: t}
	w := segWidth(seg)
	if old != nil && old.Op == "staged" {
		for _, o := range old.Args {
			if o.Op == "fillseg" {
				// a run of one repeated byte the array started with: what the new segment covers is replaced, the rest stays
				ow := o.Aux.(int)
				if o.ID < off+w && off < o.ID+ow {
					if o.ID < off {
						stg.Args = append(stg.Args, &Val{Op: "fillseg", ID: o.ID, Aux: off - o.ID, Args: o.Args, Type: o.Type})
					}
					if o.ID+ow > off+w {
						stg.Args = append(stg.Args, &Val{Op: "fillseg", ID: off + w, Aux: o.ID + ow - off - w, Args: o.Args, Type: o.Type})
					}
					continue
				}
			}
			if o.ID != off {
				stg.Args = append(stg.Args, o)
			}
		}
	} else if old != nil && old.Op == "intbytes" {
		if old.ID != off {
			stg.Args = append(stg.Args, old)
		}
	}
	stg.Args = append(stg.Args, seg)
	st.content[base.Key()] = stg
}

// segWidth: the number of bytes a staged segment occupies.
func segWidth(seg *Val) int {
	switch seg.Op {
	case "padded", "fillseg":
		if w, ok := seg.Aux.(int); ok {
			return w
		}
	case "intbytes":
		if sz, ok := fixedSize(seg.Type); ok {
			return int(sz)
		}
	}
	return 1
}

// fillCovering: the byte a staged array holds throughout [lo, hi) because it started with it there (a blank record
// copied from a start-up constant) and nothing has been laid over that part since; nil otherwise.
func fillCovering(st *state, base *Val, lo, hi int) *Val {
	stg := stripCT(st.content[base.Key()])
	if stg == nil || stg.Op != "staged" {
		return nil
	}
	var cover *Val
	for _, o := range stg.Args {
		ow := segWidth(o)
		if o.ID < hi && lo < o.ID+ow { // overlaps
			if o.Op != "fillseg" || o.ID > lo || o.ID+ow < hi {
				return nil
			}
			cover = o.Args[0]
		}
	}
	return cover
}

// stagedFromBytes: a local byte array assigned a constant whole: runs of equal bytes.
func stagedFromBytes(b []byte, t types.Type) *Val {
	stg := &Val{Op: "staged", Aux: len(b), Type: t}
	for i := 0; i < len(b); {
		j := i
		for j < len(b) && b[j] == b[i] {
			j++
		}
		stg.Args = append(stg.Args, &Val{Op: "fillseg", ID: i, Aux: j - i, Args: []*Val{mkConst(constant.MakeInt64(int64(b[i])), types.Typ[types.Uint8])}, Type: t})
		i = j
	}
	return stg
}

// byteArraySegment: sl is arr[lo:hi] over a local [N]byte array with constant bounds.
func byteArraySegment(sl *Val) (base *Val, lo, hi, total int, ok bool) {
	b, off, tot, ok1 := arraySegment(sl, 0)
	if !ok1 {
		return nil, 0, 0, 0, false
	}
	arr := b.Type.(*types.Pointer).Elem().Underlying().(*types.Array)
	if eb, isB := arr.Elem().Underlying().(*types.Basic); !isB || eb.Kind() != types.Uint8 {
		return nil, 0, 0, 0, false
	}
	h := tot
	if x := stripCT(sl); x.Args[2] != nil {
		v, _ := x.Args[2].Int64()
		h = int(v)
	}
	return b, off, h, tot, true
}

// arraySegment: sl is arr[lo:hi] (or arr[:]) over a local fixed-size array with constant bounds spanning exactly width bytes.
func arraySegment(sl *Val, width int64) (base *Val, off, total int, ok bool) {
	sl = stripCT(sl)
	if sl.Op != "slice" || sl.Args[0].Op != "alloc" {
		return nil, 0, 0, false
	}
	base = sl.Args[0]
	p, isP := base.Type.(*types.Pointer)
	if !isP {
		return nil, 0, 0, false
	}
	arr, isA := p.Elem().Underlying().(*types.Array)
	if !isA {
		return nil, 0, 0, false
	}
	lo, hi := int64(0), arr.Len()
	if sl.Args[1] != nil {
		v, isC := sl.Args[1].Int64()
		if !isC {
			return nil, 0, 0, false
		}
		lo = v
	}
	if sl.Args[2] != nil {
		v, isC := sl.Args[2].Int64()
		if !isC {
			return nil, 0, 0, false
		}
		hi = v
	}
	if hi-lo < width || lo < 0 || hi > arr.Len() {
		return nil, 0, 0, false
	}
	return base, int(lo), int(arr.Len()), true
}

// subsumeZeroCount drops a callee outcome that is the zero-count shortcut of another one: `if count == 0 { return
// []T{}, nil }` in front of a loop that collects count elements onto a fresh empty slice. With count zero the loop
// outcome does exactly what the shortcut does (no iteration, no read, a non-nil empty list), so the loop outcome without
// its `count != 0` condition covers both; a caller with k lists keeps one path instead of 2^k.
func subsumeZeroCount(outs []*outcome, base int) []*outcome {
	zeroCond := func(c Cond) *Val { // the value the condition says is zero
		if c.V.Op != "binop" || len(c.V.Args) != 2 {
			return nil
		}
		eq := (c.V.Name == "==" && c.Taken) || (c.V.Name == "!=" && !c.Taken)
		if !eq {
			return nil
		}
		for side := 0; side < 2; side++ {
			if k, ok := c.V.Args[1-side].Int64(); ok && k == 0 {
				return c.V.Args[side]
			}
		}
		return nil
	}
	drop := map[*outcome]bool{}
	for _, a := range outs {
		if a.kind != oReturn || len(a.st.conds) <= base {
			continue
		}
		last := a.st.conds[len(a.st.conds)-1]
		cnt := zeroCond(last)
		if cnt == nil || affOf(cnt).Top {
			continue
		}
		for _, b := range outs {
			if b == a || b.kind != oReturn || drop[b] || len(b.ret) != len(a.ret) || len(b.st.conds) != len(a.st.conds) || len(b.st.events) <= len(a.st.events) {
				continue
			}
			ok := true
			for i := base; i < len(a.st.conds)-1; i++ {
				if a.st.conds[i].V.Key() != b.st.conds[i].V.Key() || a.st.conds[i].Taken != b.st.conds[i].Taken {
					ok = false
				}
			}
			bl := b.st.conds[len(b.st.conds)-1]
			if !ok || bl.V.Key() != last.V.Key() || bl.Taken == last.Taken {
				continue
			}
			for i, ev := range a.st.events {
				if b.st.events[i] != ev {
					ok = false
				}
			}
			if !ok {
				continue
			}
			// what the loop outcome does beyond the shortcut: look at the buffer's length, reserve, iterate count times
			reps := 0
			for _, ev := range b.st.events[len(a.st.events):] {
				switch {
				case ev.Kind == EvLen || ev.Kind == EvPanicSite:
				case ev.Kind == EvAlloc && ev.Mode == "makeslice":
				case ev.Kind == EvRep && !ev.Partial && ev.Count != nil && affOf(ev.Count).Equal(affOf(cnt)):
					reps++
				default:
					ok = false
				}
			}
			if !ok || reps != 1 {
				continue
			}
			for i := range a.ret {
				ra, rb := stripCT(a.ret[i]), stripCT(b.ret[i])
				if ra.Key() == rb.Key() {
					continue
				}
				good := false
				if freshEmptySlice(ra) && rb.Op == "collect" && len(rb.Args) == 3 && affOf(rb.Args[2]).Equal(affOf(cnt)) {
					if init := stripCT(rb.Args[0]); init.Op == "makeslice" && len(init.Args) > 0 {
						if n, isC := init.Args[0].Int64(); isC && n == 0 {
							good = true
						}
					}
				}
				if !good {
					ok = false
				}
			}
			if !ok {
				continue
			}
			// memory: the shortcut must not have stored anything the loop outcome does not
			for k, me := range a.st.mem {
				if mb, has := b.st.mem[k]; !has || mb.V.Key() != me.V.Key() {
					if root := addrRoot(me.Addr); root == nil || !(root.Op == "alloc" || root.Op == "makeslice") {
						ok = false
					}
				}
			}
			if !ok {
				continue
			}
			drop[a] = true
			nb := *b
			nst := b.st.clone()
			// (the condition is replaced, not removed: events index the conditions in force when they happened)
			nst.conds = append([]Cond(nil), b.st.conds...)
			nst.conds[len(nst.conds)-1] = Cond{V: mkBool(true), Taken: true, Pos: bl.Pos, Fn: bl.Fn}
			nb.st = nst
			for i, o := range outs {
				if o == b {
					outs[i] = &nb
				}
			}
			break
		}
	}
	if len(drop) == 0 {
		return outs
	}
	var kept []*outcome
	for _, o := range outs {
		if !drop[o] {
			kept = append(kept, o)
		}
	}
	return kept
}

// overlayCopy models copy(dst[lo:], src) / copy(dst, src) where dst is a slice made on this path whose bytes are known
// to be one repeated byte (bytes.Repeat, or a made slice filled by a loop): afterwards the slice holds src laid over
// that fill at offset lo. Returns false when the shape is not this one (the caller keeps its coarser model).
func (e *Engine) overlayCopy(st *state, dst, src *Val) bool {
	base, lo := dst, mkInt(0)
	if base.Op == "slice" && len(base.Args) >= 3 && base.Args[2] == nil && (len(base.Args) < 4 || base.Args[3] == nil) {
		if base.Args[1] != nil {
			lo = base.Args[1]
		}
		base = base.Args[0]
	}
	for base.Op == "slice" && base.Args[1] == nil && base.Args[2] == nil {
		base = base.Args[0]
	}
	var old *Val
	if c, ok := st.content[base.Key()]; ok {
		old = c
	} else if base.Op == "call" && base.Name == "bytes.Repeat" {
		old = base
	}
	if o := stripCT(old); o == nil || o.Op != "call" || o.Name != "bytes.Repeat" || len(o.Args) != 2 {
		return false
	}
	if base.Op != "call" && base.Op != "makeslice" {
		return false
	}
	sc := e.contentOf(st, src)
	st.content[base.Key()] = &Val{Op: "overlay", Args: []*Val{old, lo, sc}, Type: base.Type}
	return true
}

// embeddedBuffer: a small struct value that embeds a *bytes.Buffer and is handed to the library as an io.Reader /
// io.Writer through the promoted methods is, for those calls, the buffer it embeds – provided the struct's own type
// declares no Read/Write/… of its own that would be picked instead.
func embeddedBuffer(v *Val) *Val {
	if v == nil || v.Type == nil || v.Op != "struct" {
		return v
	}
	st, ok := v.Type.Underlying().(*types.Struct)
	if !ok || st.NumFields() != len(v.Args) {
		return v
	}
	idx := -1
	for i := 0; i < st.NumFields(); i++ {
		if st.Field(i).Embedded() && isBufferType(st.Field(i).Type()) {
			if idx >= 0 {
				return v
			}
			idx = i
		}
	}
	if idx < 0 || v.Args[idx] == nil {
		return v
	}
	for _, m := range []string{"Read", "Write", "WriteString", "ReadByte", "WriteByte", "Len"} {
		obj, path, _ := types.LookupFieldOrMethod(v.Type, true, nil, m)
		if obj == nil {
			continue
		}
		if len(path) < 2 || path[0] != idx {
			return v // declared by the struct itself, or promoted from somewhere else
		}
	}
	return v.Args[idx]
}

// cannotSupply: a test in force on this path bounds the bytes the buffer held when it was observed, and everything
// that has happened to the buffer since is successful reads of known sizes – so fewer than size bytes are left and a
// read of size bytes cannot succeed. (The slow path behind `if buf.Len() >= n { fast path }` exists to fail with the
// error the field-by-field reads give; it never succeeds.)
func (e *Engine) cannotSupply(st *state, buf *Val, size int64) bool {
	if size <= 0 || buf == nil {
		return false
	}
	bkey := stripIface(buf).Key()
	var evs []*Event
	for _, c := range st.conds {
		v := stripCT(c.V)
		if v == nil || v.Op != "binop" || len(v.Args) != 2 {
			continue
		}
		l, r := stripCT(v.Args[0]), stripCT(v.Args[1])
		op := v.Name
		if _, isC := l.Int64(); isC { // N op L  ->  L op' N
			l, r = r, l
			op = map[string]string{"<": ">", ">": "<", "<=": ">=", ">=": "<=", "==": "==", "!=": "!="}[op]
		}
		n, isC := r.Int64()
		if !isC || l.Op != "buflen" || len(l.Args) != 1 || stripIface(l.Args[0]) == nil || stripIface(l.Args[0]).Key() != bkey {
			continue
		}
		// greatest number of bytes the observation allows
		var most int64
		switch {
		case op == ">=" && !c.Taken, op == "<" && c.Taken:
			most = n - 1
		case op == ">" && !c.Taken, op == "<=" && c.Taken, op == "==" && c.Taken, op == "!=" && !c.Taken:
			most = n
		default:
			continue
		}
		if evs == nil {
			evs = st.allEvents()
		}
		at := -1
		for i, ev := range evs {
			if ev.Kind == EvLen && ev.ID == l.ID {
				at = i
			}
		}
		if at < 0 {
			continue
		}
		used, ok := int64(0), true
		for _, ev := range evs[at+1:] {
			touches := false
			walkEvents([]*Event{ev}, func(x *Event, _ int) {
				if x.Buf != nil && stripIface(x.Buf) != nil && stripIface(x.Buf).Key() == bkey {
					touches = true
				}
			})
			if !touches {
				if ev.Kind == EvObj || ev.Kind == EvCall || ev.Kind == EvCalc {
					ok = false // something not looked into may have used the buffer
				}
				continue
			}
			switch ev.Kind {
			case EvLen, EvBytes:
			case EvReadInt, EvReadBytes:
				k, isK := affOf(ev.Size).IsConst()
				if ev.Failed || !isK || k < 0 {
					ok = false
				}
				used += k
			default:
				ok = false
			}
			if !ok {
				break
			}
		}
		if ok && most-used < size {
			return true
		}
	}
	return false
}


// zeroTripArm: alt has two arms, one without events taken when some count is zero, the other – taken otherwise –
// consisting of one complete loop over exactly that count plus observers of the buffer (Grow, AvailableBuffer) and panic
// sites: the events of the second arm describe both (the loop runs zero times on the first). Returns those events.
func zeroTripArm(alt *Event) []*Event {
	if alt == nil || len(alt.Iter) != 2 {
		return nil
	}
	for i := 0; i < 2; i++ {
		empty, full := alt.Iter[i], alt.Iter[1-i]
		if len(empty.Events) != 0 || len(empty.Conds) != 1 || len(full.Conds) != 1 {
			continue
		}
		c := empty.Conds[0]
		if c.V == nil || c.V.Op != "binop" || len(c.V.Args) != 2 || (c.V.Name != "==" && c.V.Name != "!=") || (c.V.Name == "==") != c.Taken {
			continue
		}
		var x *Val
		if isZero(c.V.Args[1]) {
			x = c.V.Args[0]
		} else if isZero(c.V.Args[0]) {
			x = c.V.Args[1]
		}
		if x == nil || full.Conds[0].V == nil || full.Conds[0].V.Key() != c.V.Key() || full.Conds[0].Taken == c.Taken {
			continue
		}
		reps := 0
		ok := true
		for _, ev := range full.Events {
			switch ev.Kind {
			case EvRep:
				if ev.Partial || ev.Count == nil || !affEq(ev.Count, x) {
					ok = false
				}
				reps++
			case EvPanicSite, EvLen, EvBytes, EvAlloc:
			case EvBufOther:
				if ev.Mode != "Grow" && ev.Mode != "AvailableBuffer" {
					ok = false
				}
			default:
				ok = false
			}
		}
		if ok && reps == 1 {
			return full.Events
		}
	}
	return nil
}

// emptyBytes: a byte slice of length zero, in the spellings the staging idioms start from: nil, buf.AvailableBuffer(),
// make([]byte, 0, n), x[:0] – also of a local array nothing was stored into, whose front part of length 0 is
// bytes.Repeat([0], 0).
func emptyBytes(first *Val) bool {
	if first == nil {
		return false
	}
	if first.IsNilConst() || first.Op == "availbuf" || (first.Op == "makeslice" && isZero(first.Args[0])) || (first.Op == "slice" && len(first.Args) > 2 && first.Args[2] != nil && isZero(first.Args[2])) {
		return true
	}
	if first.Op == "call" && first.Name == "bytes.Repeat" && len(first.Args) == 2 && isZero(first.Args[1]) {
		return true
	}
	return false
}
