package main

import (
	"fmt"
	"go/types"
	"strings"
)

// pathIndex gives every top-level event of a path its position in the wire sequence.
type pathIndex struct {
	p       *Path
	wirePos map[*Event]int // number of top-level wire events strictly before the event
	byID    map[int]*Event
	nwire   int
}

func indexPath(p *Path) *pathIndex {
	ix := &pathIndex{p: p, wirePos: map[*Event]int{}, byID: map[int]*Event{}}
	n := 0
	for _, e := range p.Events {
		ix.wirePos[e] = n
		ix.byID[e.ID] = e
		if countsAsWire(e) {
			n++
		}
	}
	ix.nwire = n
	return ix
}

// flattenSlice: x[a:b][c:d] is x[a+c : a+d] (x[a:b][c:] is x[a+c : b]).
func flattenSlice(v *Val) *Val {
	v = stripCT(v)
	for v != nil && v.Op == "slice" && len(v.Args) >= 3 {
		in := stripCT(v.Args[0])
		if in.Op != "slice" || len(in.Args) < 3 {
			break
		}
		a, b := in.Args[1], in.Args[2]
		c, d := v.Args[1], v.Args[2]
		add := func(x, y *Val) *Val {
			switch {
			case x == nil:
				return y
			case y == nil:
				return x
			}
			return affToVal(affOf(x).Add(affOf(y), 1))
		}
		lo := add(a, c)
		var hi *Val
		if d != nil {
			hi = add(a, d)
		} else {
			hi = b
		}
		if (lo != nil && affOf(lo).Top) || (hi != nil && affOf(hi).Top) {
			break
		}
		var max *Val
		if len(v.Args) > 3 {
			max = v.Args[3]
		}
		v = &Val{Op: "slice", Args: []*Val{in.Args[0], lo, hi, max}, Type: v.Type}
	}
	return v
}

// eventBytes: the constant number of bytes a top-level wire event appends, when it is constant.
func eventBytes(e *Event) (int64, bool) {
	switch e.Kind {
	case EvWriteInt:
		return fixedSize(e.IntType)
	case EvWriteBytes:
		if e.Size != nil {
			return affOf(e.Size).IsConst()
		}
	}
	return 0, false
}

// cut resolves "the buffer position c bytes after (before) the observation m" to a boundary between top-level wire
// events: the returned position is the number of top-level wire events that lie before it. It succeeds only when the
// bytes between the observation and that boundary are appended by events of constant size that add up to exactly c.
func (ix *pathIndex) cut(m *Event, c int64) (int, bool) {
	return ix.cutLim(m, c, len(ix.p.Events))
}

// cutLim: as cut, using only the events before index lim of the path (what has been written by then).
func (ix *pathIndex) cutLim(m *Event, c int64, lim int) (int, bool) {
	if m == nil || (m.Kind != EvLen && m.Kind != EvBytes) {
		return 0, false
	}
	pos := ix.wirePos[m]
	mi := eventIndex(ix.p, m)
	if mi == lim && c == 0 {
		return pos, true // the observation is the very event up to which we look (len(Bytes()) of this Bytes())
	}
	if mi < 0 || mi >= lim {
		return 0, false
	}
	if c == 0 {
		return pos, true
	}
	if c > 0 {
		for _, e := range ix.p.Events[mi+1 : lim] {
			if !countsAsWire(e) {
				continue
			}
			if !sameBuf(e.Buf, m.Buf) {
				return 0, false
			}
			n, ok := eventBytes(e)
			if !ok || n > c {
				return 0, false
			}
			c -= n
			pos++
			if c == 0 {
				return pos, true
			}
		}
		return 0, false
	}
	c = -c
	for i := mi - 1; i >= 0; i-- {
		e := ix.p.Events[i]
		if !countsAsWire(e) {
			continue
		}
		if !sameBuf(e.Buf, m.Buf) {
			return 0, false
		}
		n, ok := eventBytes(e)
		if !ok || n > c {
			return 0, false
		}
		c -= n
		pos--
		if c == 0 {
			return pos, true
		}
	}
	return 0, false
}

// window: lo and hi are buffer positions (observation + constant) resolved over what was written before event at;
// returns the boundaries and a lower bound of the number of bytes between them (hi may be nil: the end of what was
// written before at).
func (ix *pathIndex) window(lo, hi *Val, at *Event) (pLo, pHi int, bytes int64, m *Event, ok bool) {
	lim := eventIndex(ix.p, at)
	if lim < 0 {
		return
	}
	affLo := affOf(stripIntConv(lo))
	if affLo.Top || len(affLo.Term) != 1 {
		return
	}
	for k, c := range affLo.Term {
		if c != 1 {
			return
		}
		m = ix.marker(affLo.Sym[k])
	}
	var okLo bool
	pLo, okLo = ix.cutLim(m, affLo.C, lim)
	if !okLo {
		return
	}
	if hi == nil {
		pHi = ix.wirePos[at]
	} else {
		affHi := affOf(stripIntConv(hi))
		if affHi.Top || len(affHi.Term) != 1 {
			return
		}
		var mh *Event
		for k, c := range affHi.Term {
			if c != 1 {
				return
			}
			mh = ix.marker(affHi.Sym[k])
		}
		var okHi bool
		pHi, okHi = ix.cutLim(mh, affHi.C, lim)
		if !okHi {
			// hi = lo + w with w bytes of constant-size events after lo
			d, isC := affHi.Add(affLo, -1).IsConst()
			if !isC || d < 0 {
				return
			}
			pHi, okHi = ix.cutLim(m, affLo.C+d, lim)
			if !okHi {
				return
			}
		}
		if mh != nil && !sameBuf(mh.Buf, m.Buf) {
			return
		}
	}
	if pHi < pLo {
		return
	}
	bytes = 0
	for _, e := range ix.p.Events[:lim] {
		if countsAsWire(e) && ix.wirePos[e] >= pLo && ix.wirePos[e] < pHi {
			if n, isC := eventBytes(e); isC {
				bytes += n // (atoms without a constant size count as zero: bytes is a lower bound)
			}
		}
	}
	ok = true
	return
}

// cutOf: v is (a buf.Len() observation) + constant; the boundary it denotes.
func (ix *pathIndex) cutOf(v *Val) (pos int, m *Event, ok bool) {
	if v == nil {
		return 0, nil, false
	}
	aff := affOf(stripIntConv(v))
	if aff.Top || len(aff.Term) != 1 {
		return 0, nil, false
	}
	for k, c := range aff.Term {
		if c != 1 {
			return 0, nil, false
		}
		m = ix.marker(aff.Sym[k])
	}
	if m == nil || (m.Kind != EvLen && m.Kind != EvBytes) {
		return 0, nil, false
	}
	pos, ok = ix.cut(m, aff.C)
	return pos, m, ok
}

func (ix *pathIndex) marker(v *Val) *Event {
	if v != nil && v.Op == "len" && len(v.Args) == 1 {
		// len(buf.Bytes()) is the buffer's length at the moment Bytes() was taken
		if b := stripCT(v.Args[0]); b.Op == "bufbytes" {
			return ix.byID[b.ID]
		}
	}
	if v == nil || (v.Op != "buflen" && v.Op != "bufbytes") {
		return nil
	}
	return ix.byID[v.ID]
}

func isRootBuf(v *Val) bool {
	v = stripIface(v)
	return v != nil && v.Op == "param" && isBufferType(v.Type)
}

// stripNarrow removes integer conversions (the length value is computed in int and narrowed to the field type).
func stripIntConv(v *Val) *Val {
	v = stripCT(v)
	for v != nil && v.Op == "conv" && isIntegerType(v.Type) {
		v = stripCT(v.Args[0])
	}
	return v
}

func containsInitField(v *Val, idx int) bool {
	return v.Contains(func(x *Val) bool {
		i, ok := recvField(x)
		return ok && i == idx && x.Op == "init"
	})
}

func goldenKinds(ct *CodecType) map[string]bool {
	m := map[string]bool{}
	if g, err := loadGolden(); err == nil {
		for _, f := range g.Types[ct.Name] {
			m[f.Kind] = true
		}
	}
	return m
}

// bodySpan: indices [first,last) of the layout fields that form the body of a length field at index li.
func bodySpan(l *Layout, li int, gold []*FieldLayout) (int, int) {
	end := len(l.Fields)
	for i := li + 1; i < len(l.Fields); i++ {
		// the trailer: the field computed by a checksum service – or, on a path where the service is not registered and
		// the caller's value is written as it is, the field the pinned schema marks as the checksum
		pinnedTrailer := false
		for _, gf := range gold {
			if gf.Kind == "checksum" && gf.Name != "" && gf.Name == l.Fields[i].Name {
				pinnedTrailer = true
			}
		}
		if l.Fields[i].Kind == "checksum" || pinnedTrailer {
			end = i
			break
		}
	}
	return li + 1, end
}

func topLevelCount(f *FieldLayout) int { return len(f.Ev) }

// ---------------------------------------------------------------------------
// C04

func (a *Analysis) CheckC04(rep *Report) {
	rep.Explanation = "On every success path of every frame Encode that patches a length placeholder (and every frame the pinned schema marks as carrying a computed length): L1 the patched value is the difference of two buf.Len() observations whose term segment is exactly the body atoms (starts right after the placeholder, ends right after the last body atom) and the same value is stored in the length field; L2 the patched byte range is [m, m+w) where m is the observation taken immediately before the placeholder and w the placeholder's width, same number type and byte order, taken from a Bytes() slice obtained after the last append; L3 the placeholder is a constant and the caller's stale length never reaches a write; L4 the patch happens on every success path, after the body and before the checksum. Offsets are kept relative to markers, so the verdict holds for every prior buffer state."
	rep.Trusted = append(trustedBase(), "bytes.Buffer.Len()/Bytes() are both relative to the unread region; Bytes() stays valid until the next append")
	rep.Exhaustive = true
	nframes := 0
	for _, ct := range a.U.Types {
		r := a.Result(ct)
		hasPatch := false
		for _, p := range r.EncPaths {
			for _, e := range p.Events {
				if e.Kind == EvPatch {
					hasPatch = true
				}
			}
		}
		gk := goldenKinds(ct)
		if !hasPatch && !gk["len"] {
			continue
		}
		nframes++
		pos := a.P.Pos(ct.Encode.Pos())
		rep.Ob("L0-analysable", ct.Name, r.EncErr == nil && len(r.Enc) > 0, pos, fmt.Sprint("Encode not analysable: ", r.EncErr))
		for _, pl := range r.Enc {
			a.checkLenPath(rep, ct, pl)
		}
		// the paths on which a checksum service is not registered (infeasible while nothing but start-up code changes
		// the registry, but Remove and Clear are exported): the length is computed and patched there all the same
		for _, pl := range r.EncUnregistered {
			a.checkLenPath(rep, ct, pl)
		}
		rep.Sample(map[string]interface{}{"frame": ct.Name, "success_paths": len(r.Enc), "example": describeLenPath(r)})
	}
	rep.Floor("frames_with_computed_length", nframes, 4)
}

func describeLenPath(r *TypeResult) string {
	for _, pl := range r.Enc {
		for _, e := range pl.Path.Events {
			if e.Kind == EvPatch {
				return e.String()
			}
		}
	}
	return ""
}

func (a *Analysis) checkLenPath(rep *Report, ct *CodecType, pl *PathLayout) {
	key := ct.Name + "[" + pl.Conds + "]"
	pos := a.P.Pos(ct.Encode.Pos())
	ix := indexPath(pl.Path)
	var patches []*Event
	var calc *Event
	for _, e := range pl.Path.Events {
		switch e.Kind {
		case EvPatch:
			// (in-place writes that fill a header field with the message's own value are that field's write, not a
			// computed length)
			fieldFill := false
			for _, f := range pl.Layout.Fields {
				if f.Patched {
					for _, x := range f.Ev {
						if x == e {
							fieldFill = true
						}
					}
				}
			}
			if !fieldFill {
				patches = append(patches, e)
			}
		case EvCalc:
			if calc == nil {
				calc = e
			}
		}
	}
	if !rep.Ob("L4-patch-on-every-path", key, len(patches) == 1, pos, fmt.Sprintf("%d in-place length patches on this success path (exactly one expected)", len(patches))) {
		return
	}
	patch := patches[0]
	ppos := a.P.Pos(patch.Pos)
	li := -1
	for i, f := range pl.Layout.Fields {
		if f.Kind == "len" {
			li = i
		}
	}
	if !rep.Ob("L2-patch-covers-placeholder", key, li >= 0, ppos, "the patched range does not start at the observation taken immediately before a constant placeholder: "+patch.Dst.Pretty()) {
		return
	}
	lf := pl.Layout.Fields[li]
	ph := lf.Ev[0]
	k := ix.wirePos[ph]
	// L2
	dst := flattenSlice(patch.Dst)
	okRange := false
	msg := "patched range " + patch.Dst.Pretty()
	if dst.Op == "slice" && dst.Args[1] != nil && stripCT(dst.Args[0]).Op == "bufbytes" {
		// PutUintN writes the first N bytes of the slice: the upper bound only has to leave room for them
		lo, hi := dst.Args[1], dst.Args[2]
		pLo, mLo, okLo := ix.cutOf(lo)
		pHi, mHi, okHi := ix.cutOf(hi)
		if hi == nil {
			pHi, mHi, okHi = ix.wirePos[patch], mLo, okLo
		}
		w, _ := fixedSize(ph.IntType)
		pw, _ := fixedSize(patch.IntType)
		bb := ix.marker(stripCT(dst.Args[0]))
		switch {
		case !okLo || pLo != k:
			msg += ": lower bound is not the buffer position at which the placeholder starts (a buf.Len() observation plus the constant sizes of the writes in between)"
		case !(okHi && pHi >= k+1 && isRootBuf(mHi.Buf)) && !(hi != nil && affOf(hi).Equal(affOf(lo).Add(affConst(w), 1))):
			msg += fmt.Sprintf(": upper bound is neither lower bound + %d nor a position at or after the end of the placeholder", w)
		case pw != w:
			msg += fmt.Sprintf(": patch writes %d bytes over a %d-byte placeholder", pw, w)
		case bb == nil || !isRootBuf(bb.Buf) || !isRootBuf(ph.Buf) || !isRootBuf(mLo.Buf):
			msg += ": bytes, marker and placeholder are not all on the output buffer"
		case ix.wirePos[bb] != ix.wirePos[patch]:
			msg += ": Bytes() was taken before later appends (the slice may no longer be the buffer's storage)"
		default:
			okRange = true
		}
	}
	rep.Ob("L2-patch-range", key, okRange, ppos, msg)
	zeroPh := false
	if z, isC := stripCT(ph.Src).Int64(); isC && z == 0 && ph.Order == "zero" {
		zeroPh = true // a run of zero bytes reserved for the field: no byte order of its own
	}
	rep.Ob("L2-patch-type-order", key, (patch.Order == ph.Order || zeroPh) && sameIntShape(patch.IntType, ph.IntType), ppos,
		fmt.Sprintf("placeholder is %s/%s but the patch writes %s/%s", typeStr(ph.IntType), ph.Order, typeStr(patch.IntType), patch.Order))
	// L1
	var gold []*FieldLayout
	if g, err := loadGolden(); err == nil {
		gold = g.Types[ct.Name]
	}
	first, last := bodySpan(pl.Layout, li, gold)
	nb := 0
	for i := first; i < last; i++ {
		nb += topLevelCount(pl.Layout.Fields[i])
	}
	inner := stripIntConv(patch.Src)
	aff := affOf(inner)
	var mS, mE *Event
	okVal := false
	vmsg := "patched value " + patch.Src.Pretty() + " is not the difference of two buf.Len() observations"
	if !aff.Top && len(aff.Term) == 2 {
		for kk, c := range aff.Term {
			m := ix.marker(aff.Sym[kk])
			if m == nil || (m.Kind != EvLen && m.Kind != EvBytes) {
				mS, mE = nil, nil
				break
			}
			if c == 1 {
				mE = m
			} else if c == -1 {
				mS = m
			}
		}
		if mS != nil && mE != nil {
			// (mE + c1) - (mS + c2): only c1 - c2 is known; it is attributed to the start (end - (start + c)) and, failing
			// that, to the end
			pS, okS := ix.cut(mS, -aff.C)
			pE, okE := ix.cut(mE, 0)
			if !okS {
				pS, okS = ix.cut(mS, 0)
				pE, okE = ix.cut(mE, aff.C)
			}
			switch {
			case !okS || !okE:
				vmsg = "patched value " + patch.Src.Pretty() + " is not the distance between two boundaries of written atoms"
			case pS != k+1:
				vmsg = fmt.Sprintf("the body is measured from wire position %d, but it starts at %d (right after the length placeholder)", pS, k+1)
			case pE != k+1+nb:
				vmsg = fmt.Sprintf("the body is measured up to wire position %d, but its last atom ends at %d", pE, k+1+nb)
			case !isRootBuf(mS.Buf) || !isRootBuf(mE.Buf):
				vmsg = "length observed on a different buffer"
			default:
				okVal = true
			}
		}
	}
	if z, isC := inner.Int64(); isC && z == 0 && nb == 0 {
		okVal = true // nothing was written between the placeholder and the patch: the body is empty and its size is the constant 0
	}
	rep.Ob("L1-length-is-body-size", key, okVal, ppos, vmsg)
	stored := false
	for idx, st := range storeTargets(pl.Path.Events) {
		if idx == lf.GoField && st.Src.Key() == patch.Src.Key() {
			stored = true
		}
	}
	rep.Ob("L1-field-reports-length", key, stored && lf.GoField >= 0, ppos, "the value patched into the buffer is not the value stored in the message's length field")
	// L3
	_, isConst := stripCT(ph.Src).Int64()
	rep.Ob("L3-placeholder-constant", key, isConst, a.P.Pos(ph.Pos), "length placeholder is written from "+ph.Src.Pretty()+" instead of a constant")
	leak := ""
	if lf.GoField >= 0 {
		for _, e := range pl.Path.Events {
			switch e.Kind {
			case EvWriteInt, EvWriteBytes, EvPatch, EvStore:
				if e.Src != nil && containsInitField(e.Src, lf.GoField) {
					leak = e.String() + " at " + a.P.Pos(e.Pos)
				}
			case EvCalc:
			}
		}
	}
	rep.Ob("L3-no-stale-length", key, leak == "", ppos, "the caller-supplied length field reaches the output: "+leak)
	// L4 ordering
	okOrder := ix.wirePos[patch] == k+1+nb
	omsg := fmt.Sprintf("patch happens at wire position %d, body ends at %d", ix.wirePos[patch], k+1+nb)
	if calc != nil && ix.p != nil {
		if eventIndex(pl.Path, calc) < eventIndex(pl.Path, patch) {
			okOrder = false
			omsg = "checksum is computed before the length is patched"
		}
	}
	rep.Ob("L4-patch-after-body-before-checksum", key, okOrder, ppos, omsg)
}

func eventIndex(p *Path, e *Event) int {
	for i, x := range p.Events {
		if x == e {
			return i
		}
	}
	return -1
}

func sameIntShape(a, b types.Type) bool {
	sa, ok1 := fixedSize(a)
	sb, ok2 := fixedSize(b)
	return ok1 && ok2 && sa == sb
}

// ---------------------------------------------------------------------------
// C05

func (a *Analysis) CheckC05(rep *Report) {
	rep.Explanation = "On every success path of every frame Encode that obtains a checksum from a registered service (and every frame the pinned schema marks as checksummed): K1 the argument of Calc denotes exactly the bytes from the first header byte of this call to the last body byte – a buffer constructed over buf.Bytes()[s:] where s is the buf.Len() observed before the first append of this call and Bytes() is taken after the last append – never the caller's whole buffer; K2 Calc comes after the length patch and only the trailer is appended afterwards; K3 the result is stored in the checksum field and the same value is the trailer; K4 the service name is the pinned algorithm, is registered at start-up, and the asserted interface is implemented by that service; K5 the caller's stale checksum cannot reach the wire while the service is registered."
	rep.Trusted = append(trustedBase(), "registered checksum services satisfy C14 (whole input, read-only)", "registry in its start-up configuration (no non-test code of the module calls Remove/Clear/Registry outside init) – checked statically, reported if false")
	rep.Exhaustive = true
	n := 0
	for _, ct := range a.U.Types {
		r := a.Result(ct)
		hasCalc := false
		for _, p := range r.EncPaths {
			for _, e := range p.Events {
				if e.Kind == EvCalc {
					hasCalc = true
				}
			}
		}
		gk := goldenKinds(ct)
		if !hasCalc && !gk["checksum"] {
			continue
		}
		n++
		pos := a.P.Pos(ct.Encode.Pos())
		rep.Ob("K0-analysable", ct.Name, r.EncErr == nil && len(r.Enc) > 0, pos, fmt.Sprint("Encode not analysable: ", r.EncErr))
		if !a.RegistryStartup {
			rep.Ob("K5-registry-startup", ct.Name, false, pos, "the registry can be emptied by module code ("+strings.Join(a.RegistryMutCall, "; ")+"); the frame then writes the caller's stale checksum")
		}
		for _, pl := range r.Enc {
			a.checkSumPath(rep, ct, pl)
		}
		// any success path (including pruned ones when the assumption does not hold) writing the stale field
		if !a.RegistryStartup {
			for _, p := range r.EncPaths {
				if _, miss := a.registryMiss(p); miss && pathKind(p) == "ok" {
					rep.Ob("K5-no-stale-checksum", ct.Name+"[registry-miss]", false, pos, "service not found: the stale checksum field is written")
				}
			}
		}
	}
	// K4: the numeric side is delegated to C14 – a frame's checksum is only as good as the service it calls
	scratch := NewReport("C14", "other", "quick", 0)
	a.CheckC14(scratch)
	for _, v := range scratch.Violations {
		rep.Ob("K4-service-verified-by-C14", v.Key, false, v.Pos, "the checksum service the frames rely on does not pass C14: "+v.Msg)
	}
	if len(scratch.Violations) == 0 {
		rep.Ob("K4-service-verified-by-C14", "all-services", true, "", "")
	}
	rep.Floor("checksummed_frames", n, 3)
}

func (a *Analysis) checkSumPath(rep *Report, ct *CodecType, pl *PathLayout) {
	key := ct.Name + "[" + pl.Conds + "]"
	pos := a.P.Pos(ct.Encode.Pos())
	ix := indexPath(pl.Path)
	var calcs []*Event
	var patch *Event
	for _, e := range pl.Path.Events {
		switch e.Kind {
		case EvCalc:
			calcs = append(calcs, e)
		case EvPatch:
			patch = e
		}
	}
	if !rep.Ob("K0-one-calc", key, len(calcs) == 1, pos, fmt.Sprintf("%d checksum computations on this success path (exactly one expected)", len(calcs))) {
		return
	}
	calc := calcs[0]
	cpos := a.P.Pos(calc.Pos)
	// K1 span
	arg := stripIface(calc.Args[0])
	ok, msg := false, ""
	switch {
	case isRootBuf(arg):
		msg = "Calc is applied to the caller's whole output buffer: it also covers whatever the buffer held before this frame ([0, start) is not part of the frame)"
	case arg.Op == "call" && (arg.Name == "bytes.NewBuffer" || arg.Name == "bytes.NewReader"):
		s := flattenSlice(arg.Args[0])
		if s.Op == "slice" && stripCT(s.Args[0]).Op == "bufbytes" && s.Args[1] != nil {
			bb := ix.marker(stripCT(s.Args[0]))
			pLo, lo, okLo := ix.cutOf(s.Args[1])
			hiOK := s.Args[2] == nil
			if !hiOK {
				// an explicit upper bound is fine when it is the end of what has been written (len(frame), len(Bytes()) …)
				if pHi, mHi, okHi := ix.cutOf(s.Args[2]); okHi && pHi == ix.wirePos[calc] && mHi != nil && isRootBuf(mHi.Buf) {
					hiOK = true
				}
			}
			switch {
			case !hiOK:
				msg = "checksummed span has an explicit upper bound " + s.Args[2].Pretty() + " (must extend to the last body byte)"
			case !okLo || lo == nil || pLo != 0 || !isRootBuf(lo.Buf):
				p := -1
				if okLo {
					p = pLo
				}
				msg = fmt.Sprintf("checksummed span starts at %s (wire position %d), not at the first header byte of this frame", s.Args[1].Pretty(), p)
			case bb == nil || !isRootBuf(bb.Buf):
				msg = "checksummed bytes are not the output buffer's"
			case ix.wirePos[bb] != ix.wirePos[calc]:
				msg = "Bytes() was taken before later appends: the span misses bytes of this frame"
			default:
				ok = true
			}
		} else if s.Op == "bufbytes" {
			msg = "Calc covers buf.Bytes() from the start of the unread buffer, not from this frame's first byte"
		} else {
			msg = "Calc argument is built over " + s.Pretty()
		}
	default:
		msg = "Calc argument " + arg.Pretty() + " is not a view of this frame's bytes"
	}
	rep.Ob("K1-span-is-this-frame", key, ok, cpos, msg)
	// K2 order
	trailerOK := false
	var trailer *FieldLayout
	for _, f := range pl.Layout.Fields {
		if f.Kind == "checksum" {
			trailer = f
		}
	}
	okOrder := true
	omsg := ""
	if patch != nil && eventIndex(pl.Path, patch) > eventIndex(pl.Path, calc) {
		okOrder, omsg = false, "checksum is computed before the length field is patched"
	}
	if trailer != nil {
		tpos := ix.wirePos[trailer.Ev[0]]
		if ix.wirePos[calc] != tpos {
			okOrder, omsg = false, "bytes are appended between the checksum computation and the trailer"
		}
		if tpos != ix.nwire-1 {
			okOrder, omsg = false, "the checksum trailer is not the last thing written"
		}
		trailerOK = stripSameWidth(trailer.Ev[0].Src).Key() == (&Val{Op: "calc", ID: calc.ID, Args: []*Val{calc.Recv, calc.Args[0]}}).Key()
	} else {
		okOrder, omsg = false, "no trailer is written from a computed checksum"
	}
	rep.Ob("K2-order", key, okOrder, cpos, omsg)
	// K3 plumbing
	stored := false
	if trailer != nil && trailer.GoField >= 0 {
		for idx, st := range storeTargets(pl.Path.Events) {
			if src := stripSameWidth(st.Src); idx == trailer.GoField && src != nil && src.Op == "calc" && src.ID == calc.ID {
				stored = true // (also through a named number type: `type Checksum int32`)
			}
		}
	}
	rep.Ob("K3-result-is-trailer-and-field", key, trailerOK && stored, cpos, "the computed checksum is not both stored in the checksum field and written as the trailer")
	// K4 algorithm
	algo := calcAlgo(&Val{Op: "x", Args: []*Val{calc.Recv}})
	want := ""
	if g, err := loadGolden(); err == nil {
		for _, f := range g.Types[ct.Name] {
			if f.Kind == "checksum" {
				want = f.Algo
			}
		}
	}
	svc := a.U.ServiceByName(algo)
	rep.Ob("K4-algorithm-name", key, algo != "" && algo == want, cpos, fmt.Sprintf("checksum service %q is looked up, the pinned schema says %q", algo, want))
	okImpl := false
	imsg := "service " + algo + " is not registered by codec's init"
	if svc != nil {
		// the asserted interface type is the static type of the receiver of Calc
		if it, isI := calc.Recv.Type.Underlying().(*types.Interface); isI {
			okImpl = types.Implements(types.NewPointer(svc.Type), it)
			imsg = fmt.Sprintf("*%s does not implement the asserted %s: the type assertion panics", svc.Type.Obj().Name(), typeStr(calc.Recv.Type))
		}
	}
	rep.Ob("K4-service-implements-assertion", key, okImpl, cpos, imsg)
	// K5
	leak := ""
	if trailer != nil && trailer.GoField >= 0 {
		for _, e := range pl.Path.Events {
			if (e.Kind == EvWriteInt || e.Kind == EvWriteBytes) && e.Src != nil && containsInitField(e.Src, trailer.GoField) {
				leak = e.String()
			}
		}
	}
	rep.Ob("K5-no-stale-checksum", key, leak == "", cpos, "the caller-supplied checksum reaches the wire: "+leak)
	if len(rep.Samples) < 6 {
		rep.Sample(map[string]interface{}{"frame": ct.Name, "path": pl.Conds, "calc_argument": arg.Pretty(), "algorithm": algo})
	}
}

// ---------------------------------------------------------------------------
// C06

func (a *Analysis) CheckC06(rep *Report) {
	rep.Explanation = "A1 append-only: on every path (success and error) of every Encode – with all module callees inlined, so this covers every function reachable from an Encode – each use of the output buffer is an appending atom, an observer (Len/Bytes), a nested Encode, an in-place patch whose range starts at a Len() observed during this call and covers a placeholder written after it, or a checksum over a view that starts at this call's first byte. A2 context-free: no written value, stored field or checksum input depends on the buffer's prior length or content: Len() observations occur only as differences of two observations, Bytes() content only inside the checksum view of this frame. A3 repeatable: the only receiver fields an Encode stores are computed fields (never read before they are stored) or a nil dynamic part materialised and encoded in the same call, and no package-level state is written."
	rep.Trusted = append(trustedBase(), "Len()/Bytes() are relative to the unread region, so markers are independent of how much was consumed")
	rep.Exhaustive = true
	npaths, nev := 0, 0
	for _, ct := range a.U.Types {
		r := a.Result(ct)
		pos := a.P.Pos(ct.Encode.Pos())
		if !rep.Ob("A0-analysable", ct.Name, r.EncErr == nil && len(r.EncPaths) > 0, pos, fmt.Sprint("Encode not analysable: ", r.EncErr)) {
			continue
		}
		for pi, p := range r.EncPaths {
			if name, miss := a.registryMiss(p); miss && a.RegistryStartup && a.U.ServiceByName(name) != nil {
				continue // the not-found arm of a registered service: infeasible under the start-up assumption (checked in C05)
			}
			npaths++
			ix := indexPath(p)
			key := fmt.Sprintf("%s.Encode", ct.Name)
			stores := map[int]*Event{}
			walkEvents(p.Events, func(e *Event, depth int) {
				nev++
				epos := a.P.Pos(e.Pos)
				switch e.Kind {
				case EvWriteInt, EvWriteBytes, EvLen, EvBytes:
					if e.Buf != nil {
						rep.Ob("A1-append-only", key+":"+e.Kind.String(), true, "", "")
					}
				case EvReadInt, EvReadBytes:
					rep.Ob("A1-append-only", key+":"+e.Kind.String(), false, epos, "encoding consumes bytes from a buffer: "+e.String())
				case EvBufOther:
					if !observerMethods[e.Mode] {
						rep.Ob("A1-append-only", key+":"+e.Mode, false, epos, "encoding uses the buffer through "+e.Mode+" (neither append nor observer)")
					}
				case EvObj:
					rep.Ob("A1-nested-encode", key+":obj", e.Dir == "Encode", epos, "encoding calls "+e.Dir+" on a nested part")
				case EvPatch:
					okp := false
					dst := flattenSlice(e.Dst)
					if depth == 0 && dst.Op == "slice" && dst.Args[1] != nil && stripCT(dst.Args[0]).Op == "bufbytes" {
						// the patched window lies between two boundaries of atoms this call has already appended, and is as
						// wide as the number written
						bb := ix.marker(stripCT(dst.Args[0]))
						if _, _, n, m, okw := ix.window(dst.Args[1], dst.Args[2], e); okw && bb != nil && isRootBuf(m.Buf) && sameBuf(bb.Buf, m.Buf) {
							w, _ := fixedSize(e.IntType)
							okp = n >= w
							if ix.wirePos[bb] != ix.wirePos[e] {
								// something was appended between taking Bytes() and writing through it: after a reallocation
								// the slice is no longer the buffer's storage, and whether that happens depends on the capacity
								// the buffer happens to have
								okp = false
							}
						}
					}
					rep.Ob("A1-patch-inside-own-bytes", key+":patch", okp, epos, "in-place write "+e.Dst.Pretty()+" is not provably inside the bytes appended by this call")
				case EvStore:
					if root := addrRoot(e.Dst); root != nil {
						if root.Op == "global" && !a.onceAssignment(e) {
							rep.Ob("A3-no-global-state", key+":"+root.Name, false, epos, "encoding writes package-level state "+e.Dst.Pretty())
						}
						if root.Op == "param" && isBufferType(root.Type) {
							rep.Ob("A1-append-only", key+":store-to-buffer", false, epos, "encoding overwrites the buffer object itself")
						}
					}
					if idx, ok := recvFieldAddr(e.Dst); ok && depth == 0 {
						stores[idx] = e
					} else if root := addrRoot(e.Dst); root != nil && root.Op == "param" && root.ID == 0 {
						// writes into memory reachable from the message (list elements, nested parts) change what a second encode sees
						rep.Ob("A3-message-not-modified", key+":"+stableKey(e.Dst.Pretty()), false, epos, "Encode writes into the message it encodes: "+e.Dst.Pretty()+" <- "+e.Src.Pretty())
					}
				case EvMapWrite:
					if r := addrRoot(stripCT(e.Recv)); r != nil {
						for r.Op == "init" {
							r = addrRoot(r.Args[0])
						}
						if r.Op == "global" {
							rep.Ob("A3-no-global-state", key+":"+r.Name, false, epos, "encoding updates package-level map "+e.Recv.Pretty())
						}
					}
				}
				// A2: dependence on prior buffer state
				for _, v := range []*Val{e.Src} {
					if v == nil {
						continue
					}
					switch e.Kind {
					case EvWriteInt, EvWriteBytes, EvPatch, EvStore:
						bad := markerDependence(v)
						rep.Ob("A2-context-free", key+":"+e.Kind.String(), bad == "", epos, "value "+v.Pretty()+" depends on the buffer's prior state: "+bad)
					}
				}
				if e.Kind == EvCalc {
					arg := stripIface(e.Args[0])
					okc := false
					if arg.Op == "call" && arg.Name == "bytes.NewBuffer" {
						s := flattenSlice(arg.Args[0])
						if s.Op == "slice" && s.Args[1] != nil {
							if pLo, m, okLo := ix.cutOf(s.Args[1]); okLo && m != nil && pLo == 0 {
								okc = true
							}
						}
					}
					rep.Ob("A2-checksum-input-own-bytes", key+":calc", okc, epos, "checksum input "+arg.Pretty()+" includes bytes that were in the buffer before this call")
				}
			})
			// A3: stored receiver fields
			for idx, st := range stores {
				fname := fmt.Sprintf("#%d", idx)
				if idx < len(ct.WireName) {
					fname = ct.WireName[idx]
				}
				k3 := fmt.Sprintf("%s.%s", key, fname)
				src := stripIface(st.Src)
				if i2, ok := recvField(src); ok && i2 == idx {
					rep.Ob("A3-stores-only-computed-or-materialised", k3, true, "", "") // p.X = p.X: no change
					continue
				}
				computed := src.Op == "calc" || stripIntConv(src).Contains(func(x *Val) bool { return x.Op == "buflen" || x.Op == "bufbytes" })
				if !computed {
					// the value the frame patches into its length placeholder on this path (C04 judges that value)
					for _, pe := range p.Events {
						if pe.Kind == EvPatch && pe.Src != nil && stripIface(pe.Src).Key() == src.Key() {
							computed = true
						}
					}
				}
				materialised := false
				if src.Op == "dyncall" || src.Op == "alloc" || src.IsNilConst() {
					// (nil stored into a part on the arm on which the part is nil – `p.Body, err = New…(key)` on a miss – changes nothing)
					nilArm := false
					for _, c := range p.Conds[:min(st.NCond, len(p.Conds))] {
						v := c.V
						if v.Op == "binop" && (v.Name == "==" || v.Name == "!=") && v.Args[1].IsNilConst() {
							if i2, ok := recvField(v.Args[0]); ok && i2 == idx && (v.Name == "==") == c.Taken {
								nilArm = true
							}
						}
					}
					materialised = nilArm
				}
				if !rep.Ob("A3-stores-only-computed-or-materialised", k3, computed || materialised, a.P.Pos(st.Pos),
					fmt.Sprintf("Encode stores %s into message field %s (neither a computed field nor a nil part materialised)", st.Src.Pretty(), fname)) {
					continue
				}
				if computed {
					// the field must not be read before it is stored, nor feed its own new value
					readBefore := ""
					for _, e := range p.Events {
						if e == st {
							break
						}
						if e.Src != nil && containsInitField(e.Src, idx) && (e.Kind == EvWriteInt || e.Kind == EvWriteBytes || e.Kind == EvPatch || e.Kind == EvStore) {
							readBefore = e.String()
						}
					}
					if containsInitField(st.Src, idx) {
						readBefore = "its own previous value"
					}
					rep.Ob("A3-computed-not-read-first", k3, readBefore == "", a.P.Pos(st.Pos), "computed field "+fname+" is read before it is recomputed: "+readBefore)
				}
			}
			_ = pi
		}
	}
	// A4: "depends only on the message" presupposes that the message's memory is its own: a decoded list or text that
	// is a window into the buffer it was read from changes when that buffer is written again – and with it the bytes a
	// later encode of the message appends (into that very buffer, for one). Whether decoded values own their memory is
	// what C16 decides.
	{
		scratch := NewReport("C16", "other", "quick", 0)
		a.CheckC16(scratch)
		for _, v := range scratch.Violations {
			rep.Ob("A4-messages-own-their-memory-verified-by-C16", v.Key, false, v.Pos, "a decoded value can share memory with a buffer (C16): encoding it is then not a function of the message alone: "+v.Msg)
		}
		if len(scratch.Violations) == 0 {
			rep.Ob("A4-messages-own-their-memory-verified-by-C16", "all-types", true, "", "")
		}
	}
	// A5: "what an encode appends depends only on the message" also rules out everything that outlives the call: a
	// pad table an earlier encode wrote into through spare capacity, a memo kept by a checksum service, a counter. No
	// state shared between calls is what C20 decides (for every function reachable from Encode and Decode alike); that
	// a checksum service answers from its input alone is C14's H2.
	{
		scratch := NewReport("C20", "other", "quick", 0)
		a.CheckC20(scratch, "quick")
		for _, v := range scratch.Violations {
			rep.Ob("A5-no-state-between-calls-verified-by-C20", v.Key, false, v.Pos, "state shared between codec calls (C20): what an encode appends can then depend on earlier calls: "+v.Msg)
		}
		if len(scratch.Violations) == 0 {
			rep.Ob("A5-no-state-between-calls-verified-by-C20", "whole-module", true, "", "")
		}
		scratch = NewReport("C14", "other", "quick", 0)
		a.CheckC14(scratch)
		n14 := 0
		for _, v := range scratch.Violations {
			if strings.HasPrefix(v.Rule, "H2-") || strings.HasPrefix(v.Rule, "H1-") {
				n14++
				rep.Ob("A5-checksum-services-stateless-verified-by-C14", v.Key, false, v.Pos, "a checksum service does not answer from its input alone (C14 "+v.Rule+"): the frame's trailer can then depend on earlier calls: "+v.Msg)
			}
		}
		if n14 == 0 {
			rep.Ob("A5-checksum-services-stateless-verified-by-C14", "all-services", true, "", "")
		}
	}
	rep.Counts["encode_paths"] = npaths
	rep.Counts["events"] = nev
	rep.Floor("codec_types", len(a.U.Types), goldenFloor("types", 170))
	rep.Sample(map[string]interface{}{"rule": "A2", "meaning": "buf.Len() observations may only appear as (Len@b - Len@a)", "example_ok": "uint32((Len@14 - Len@11))"})
}

// markerDependence: does v depend on a Len()/Bytes() observation other than through a difference of two Len() markers?
func markerDependence(v *Val) string {
	bad := ""
	var visit func(x *Val)
	visit = func(x *Val) {
		if bad != "" || x == nil {
			return
		}
		isLenOfBytes := func(y *Val) bool {
			return y.Op == "len" && len(y.Args) == 1 && stripCT(y.Args[0]).Op == "bufbytes"
		}
		if isLenOfBytes(x) {
			bad = "absolute " + x.Pretty() // the buffer's length when Bytes() was taken: an observation like Len()
			return
		}
		if x.Op == "bufbytes" || x.Op == "bufnext" {
			bad = "content of " + x.Pretty()
			return
		}
		if x.Op == "availbuf" {
			bad = "the buffer's spare capacity (whatever earlier use left there): " + x.Pretty()
			return
		}
		if x.Op == "calc" {
			return // checksum input is judged separately (A2-checksum-input-own-bytes)
		}
		if x.Op == "buflen" {
			bad = "absolute " + x.Pretty()
			return
		}
		if x.Op == "binop" && (x.Name == "+" || x.Name == "-") && x.Contains(func(y *Val) bool { return y.Op == "buflen" || isLenOfBytes(y) }) {
			aff := affOf(x)
			if aff.Top {
				bad = "non-affine use of a Len() observation in " + x.Pretty()
				return
			}
			sum := int64(0)
			for k, c := range aff.Term {
				if aff.Sym[k].Op == "buflen" || isLenOfBytes(aff.Sym[k]) {
					sum += c
				} else {
					visit(aff.Sym[k])
				}
			}
			if sum != 0 {
				bad = "Len() observations do not cancel in " + x.Pretty()
			}
			return
		}
		for _, a := range x.Args {
			visit(a)
		}
	}
	visit(v)
	return bad
}
