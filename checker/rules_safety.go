package main

import (
	"os"
	"fmt"
	"go/types"
	"sort"
	"strings"

	"golang.org/x/tools/go/ssa"
)

// walkWithConds visits every event of a path together with the branch conditions in force when it happened.
func walkWithConds(p *Path, f func(e *Event, conds []Cond, inRep []*Event)) {
	var rec func(evs []*Event, base []Cond, baseN int, reps []*Event)
	rec = func(evs []*Event, base []Cond, baseN int, reps []*Event) {
		var extra []Cond // invariants of loops left in the middle of an iteration: they hold for that iteration's values from there on
		for _, e := range evs {
			var conds []Cond
			if baseN == 0 {
				conds = p.Conds[:min(e.NCond, len(p.Conds))]
			} else {
				conds = base
			}
			if len(extra) > 0 {
				conds = append(append([]Cond(nil), conds...), extra...)
			}
			if len(e.Own) > 0 {
				conds = append(append([]Cond(nil), conds...), e.Own...)
			}
			f(e, conds, reps)
			if e.Kind == EvRep && e.Partial && e.Inv != nil {
				extra = append(extra, Cond{V: e.Inv, Taken: true})
			}
			if e.Kind == EvRep && e.Partial {
				for _, iv := range e.Invs {
					extra = append(extra, Cond{V: iv, Taken: true})
				}
			}
			for _, arm := range e.Iter {
				ac := append([]Cond(nil), conds...)
				if e.Kind == EvRep && e.Inv != nil {
					ac = append(ac, Cond{V: e.Inv, Taken: true})
				}
				if e.Kind == EvRep {
					for _, iv := range e.Invs {
						ac = append(ac, Cond{V: iv, Taken: true})
					}
				}
				ac = append(ac, arm.Conds...)
				r2 := reps
				if e.Kind == EvRep {
					r2 = append(append([]*Event(nil), reps...), e)
				}
				rec(arm.Events, ac, 1, r2)
			}
		}
	}
	rec(p.Events, nil, 0, nil)
}

// intFact is an integer inequality  G >= Lo  and/or  G <= Hi  over an affine expression G.
type intFact struct {
	G      *Affine
	Lo, Hi *int64
}

func i64(x int64) *int64 { return &x }

// factsOf turns the branch conditions in force (and the monotonicity of loop variables occurring in `about`) into integer facts.
func factsOf(conds []Cond, about ...*Val) []intFact {
	var fs []intFact
	for _, c := range conds {
		v := c.V
		if v.Op != "binop" {
			continue
		}
		op := v.Name
		neg := map[string]string{"<": ">=", ">=": "<", ">": "<=", "<=": ">", "==": "!=", "!=": "=="}
		if _, ok := neg[op]; !ok {
			continue
		}
		if !c.Taken {
			op = neg[op]
		}
		g := affOf(v.Args[0]).Add(affOf(v.Args[1]), -1) // l - r
		if g.Top {
			continue
		}
		switch op {
		case "<":
			fs = append(fs, intFact{G: g, Hi: i64(-1)})
		case "<=":
			fs = append(fs, intFact{G: g, Hi: i64(0)})
		case ">":
			fs = append(fs, intFact{G: g, Lo: i64(1)})
		case ">=":
			fs = append(fs, intFact{G: g, Lo: i64(0)})
		case "==":
			fs = append(fs, intFact{G: g, Lo: i64(0), Hi: i64(0)})
		case "!=":
			// x != 0 for a quantity that is never negative (a length, an unsigned value): x >= 1
			for side := 0; side < 2; side++ {
				if k, isC := v.Args[1-side].Int64(); isC && k == 0 && nonNegative(v.Args[side], nil) {
					fs = append(fs, intFact{G: affOf(v.Args[side]), Lo: i64(1)})
				}
			}
		}
	}
	seen := map[string]bool{}
	for _, a := range about {
		if a == nil {
			continue
		}
		a.Walk(func(x *Val) bool {
			if x.Op == "loopvar" && len(x.Args) == 1 && !seen[x.Key()] {
				seen[x.Key()] = true
				if step, ok := x.Aux.(int64); ok && step != 0 {
					g := affOf(x).Add(affOf(x.Args[0]), -1) // lv - init
					if step > 0 {
						fs = append(fs, intFact{G: g, Lo: i64(0)})
					} else {
						fs = append(fs, intFact{G: g, Hi: i64(0)})
					}
				}
			}
			if x.Op == "loopout" && len(x.Args) >= 1 && !seen[x.Key()] {
				seen[x.Key()] = true
				if step, ok := x.Aux.(int64); ok && step != 0 {
					g := affOf(x).Add(affOf(x.Args[0]), -1) // out - init
					if step > 0 {
						fs = append(fs, intFact{G: g, Lo: i64(0)})
					} else {
						fs = append(fs, intFact{G: g, Hi: i64(0)})
					}
					if len(x.Args) == 2 && (step == 1 || step == -1) {
						// unit step towards the bound: the exit value does not pass the bound when the initial value does not
						d := affOf(x.Args[0]).Add(affOf(x.Args[1]), -1) // init - bound
						if k, isC := d.IsConst(); isC {
							g2 := affOf(x).Add(affOf(x.Args[1]), -1) // out - bound
							if step < 0 && k >= 0 {
								fs = append(fs, intFact{G: g2, Lo: i64(0)})
							}
							if step > 0 && k <= 0 {
								fs = append(fs, intFact{G: g2, Hi: i64(0)})
							}
						}
					}
				}
			}
			if (x.Op == "len" || x.Op == "cap" || x.Op == "buflen") && !seen[x.Key()] {
				seen[x.Key()] = true
				fs = append(fs, intFact{G: affOf(x), Lo: i64(0)})
			}
			return true
		})
	}
	return fs
}

// boundsOf derives integer bounds of the affine expression d from single facts: d = ±G + k.
func boundsOf(d *Affine, fs []intFact) (lo, hi *int64) {
	lo, hi = boundsOf1(d, fs)
	if (lo == nil || hi == nil) && !d.Top && len(fs) >= 2 && len(fs) <= 48 {
		// two facts chained: i < n and n <= 32 give i < 32 (sums of pairs of facts are facts)
		var sums []intFact
		for i := 0; i < len(fs); i++ {
			for j := i + 1; j < len(fs); j++ {
				a, b := fs[i], fs[j]
				if a.G == nil || b.G == nil || a.G.Top || b.G.Top {
					continue
				}
				for _, sgn := range []int64{1, -1} {
					g := a.G.Add(b.G, sgn)
					if g.Top || len(g.Term) >= len(a.G.Term)+len(b.G.Term) {
						continue // nothing cancelled: not a chain
					}
					f := intFact{G: g}
					bl, bh := b.Lo, b.Hi
					if sgn < 0 {
						bl, bh = nil, nil
						if b.Hi != nil {
							bl = i64(-*b.Hi)
						}
						if b.Lo != nil {
							bh = i64(-*b.Lo)
						}
					}
					if a.Lo != nil && bl != nil {
						f.Lo = i64(*a.Lo + *bl)
					}
					if a.Hi != nil && bh != nil {
						f.Hi = i64(*a.Hi + *bh)
					}
					if f.Lo != nil || f.Hi != nil {
						sums = append(sums, f)
					}
				}
			}
		}
		if len(sums) > 0 {
			l2, h2 := boundsOf1(d, sums)
			if l2 != nil && (lo == nil || *l2 > *lo) {
				lo = l2
			}
			if h2 != nil && (hi == nil || *h2 < *hi) {
				hi = h2
			}
		}
	}
	return
}

func boundsOf1(d *Affine, fs []intFact) (lo, hi *int64) {
	if d.Top {
		return nil, nil
	}
	if k, ok := d.IsConst(); ok {
		return i64(k), i64(k)
	}
	upd := func(l, h *int64) {
		if l != nil && (lo == nil || *l > *lo) {
			lo = l
		}
		if h != nil && (hi == nil || *h < *hi) {
			hi = h
		}
	}
	for _, f := range fs {
		// d = m*G + k for an integer m with |m| >= 2 (d = 4*i - 4*n from i - n <= -1)
		if !f.G.Top && len(f.G.Term) > 0 {
			for key, g := range f.G.Term {
				dc, has := d.Term[key]
				if !has || g == 0 || dc%g != 0 {
					break
				}
				m := dc / g
				if m == 1 || m == -1 || m == 0 {
					break
				}
				if k, ok := d.Add(f.G, -m).IsConst(); ok {
					var l, h *int64
					lo2, hi2 := f.Lo, f.Hi
					if m < 0 {
						lo2, hi2 = f.Hi, f.Lo
					}
					if lo2 != nil {
						l = i64(*lo2*m + k)
					}
					if hi2 != nil {
						h = i64(*hi2*m + k)
					}
					upd(l, h)
				}
				break
			}
		}
		if k, ok := d.Add(f.G, -1).IsConst(); ok { // d = G + k
			var l, h *int64
			if f.Lo != nil {
				l = i64(*f.Lo + k)
			}
			if f.Hi != nil {
				h = i64(*f.Hi + k)
			}
			upd(l, h)
		}
		if k, ok := d.Add(f.G, 1).IsConst(); ok { // d = -G + k
			var l, h *int64
			if f.Hi != nil {
				l = i64(-*f.Hi + k)
			}
			if f.Lo != nil {
				h = i64(-*f.Lo + k)
			}
			upd(l, h)
		}
	}
	return
}

// condHolds: do the conditions in force establish `x op y` (op one of < <= > >=) over the integers?
func condHolds(conds []Cond, x *Val, op string, y *Val) bool {
	d := affOf(x).Add(affOf(y), -1)
	if d.Top {
		return false
	}
	lo, hi := boundsOf(d, factsOf(conds, x, y))
	switch op {
	case "<":
		return hi != nil && *hi <= -1
	case "<=":
		return hi != nil && *hi <= 0
	case ">":
		return lo != nil && *lo >= 1
	case ">=":
		return lo != nil && *lo >= 0
	}
	return false
}

// nonNegative: v is provably >= 0.
func nonNegative(v *Val, conds []Cond) bool {
	v = stripCT(v)
	if n, ok := v.Int64(); ok {
		return n >= 0
	}
	if v.Type != nil && (v.Op == "wire" || v.Op == "init" || v.Op == "param" || v.Op == "elem") {
		if b, ok := v.Type.Underlying().(*types.Basic); ok && b.Info()&types.IsUnsigned != 0 {
			return true // a value of an unsigned type
		}
	}
	switch v.Op {
	case "len", "cap", "buflen", "short":
		return true
	case "conv":
		in := stripCT(v.Args[0])
		if in.Type != nil {
			if b, ok := in.Type.Underlying().(*types.Basic); ok && b.Info()&types.IsUnsigned != 0 {
				bits, _ := intBits(b)
				tb, _ := intBits2(v.Type)
				if bits > 0 && tb > bits {
					return true // zero-extension of a narrower unsigned value
				}
				if bits > 0 && tb == bits {
					if vb, ok := v.Type.Underlying().(*types.Basic); ok && vb.Info()&types.IsUnsigned != 0 {
						return true
					}
				}
			}
		}
		if wideningInt(in.Type, v.Type) {
			return nonNegative(in, conds)
		}
	case "call":
		if v.Name == "copy" {
			return true // the number of elements copied
		}
		if v.Name == "min" || v.Name == "max" {
			all, any := true, false
			for _, a := range v.Args {
				if nonNegative(a, conds) {
					any = true
				} else {
					all = false
				}
			}
			if v.Name == "min" {
				return all
			}
			return any
		}
	case "choice":
		for _, a := range v.Args {
			if !nonNegative(a, conds) {
				return false
			}
		}
		return len(v.Args) > 0
	case "loopvar":
		return len(v.Args) == 1 && nonNegative(v.Args[0], conds)
	case "loopout":
		if up, _ := v.Aux.(string); up == "up" && len(v.Args) >= 1 && nonNegative(v.Args[0], conds) {
			return true // an accumulator of lengths that started non-negative
		}
	case "binop":
		if v.Name == "/" || v.Name == ">>" {
			// a non-negative value divided by a positive constant (shifted right) stays non-negative
			if k, ok := v.Args[1].Int64(); ok && (v.Name == "/" && k >= 1 || v.Name == ">>" && k >= 0) && nonNegative(v.Args[0], conds) {
				return true
			}
			// … or by a divisor the conditions in force say is positive
			if v.Name == "/" && nonNegative(v.Args[0], conds) {
				if lo, _ := boundsOf(affOf(v.Args[1]), factsOf(conds, v.Args[1])); lo != nil && *lo >= 1 {
					return true
				}
				if d := stripCT(v.Args[1]); d.Op == "call" && d.Name == "encoding/binary.Size" {
					return true // -1 only for a type encoding/binary refuses anyway; dividing by it is C09's panic site
				}
			}
		}
		if v.Name == "+" {
			// loopvar(init) + c with init + c >= 0 (counted loops step by +1)
			a := affOf(v)
			if !a.Top && len(a.Term) == 1 {
				for k, c := range a.Term {
					lv := a.Sym[k]
					if c == 1 && lv.Op == "loopvar" && len(lv.Args) == 1 {
						if init, ok := lv.Args[0].Int64(); ok && init+a.C >= 0 {
							return true
						}
					}
				}
			}
			return nonNegative(v.Args[0], conds) && nonNegative(v.Args[1], conds)
		}
		if v.Name == "-" {
			// x - y >= 0 if a condition says y <= x
			return condHolds(conds, v.Args[1], "<=", v.Args[0])
		}
		if v.Name == "*" {
			return nonNegative(v.Args[0], conds) && nonNegative(v.Args[1], conds)
		}
	}
	lo, _ := boundsOf(affOf(v), factsOf(conds, v))
	return lo != nil && *lo >= 0
}

func intBits2(t types.Type) (int, bool) {
	if t == nil {
		return 0, false
	}
	b, ok := t.Underlying().(*types.Basic)
	if !ok {
		return 0, false
	}
	return intBits(b)
}

// safety holds the whole-program facts the per-site discharges rely on.
type safety struct {
	a              *Analysis
	globalsNonNil  map[*ssa.Global]bool // pointer globals assigned once, in a package initialiser, with a fresh allocation
	tablesFresh    map[string]string    // table name -> "" if every registered factory returns a fresh non-nil allocation, else reason
	minSizeMemo    map[string]int64
	atomicMemo     map[string]string // struct.field -> "" (never nil) or the reason it may be
}

// freshNonNil: v is a heap allocation, a made map, or the result of a module function (a constructor) every return of
// which is one – a value that is provably not nil.
func freshNonNil(v ssa.Value, depth int) bool {
	switch x := v.(type) {
	case *ssa.Alloc:
		return x.Heap
	case *ssa.MakeMap:
		return true
	case *ssa.Call:
		callee := x.Call.StaticCallee()
		if callee == nil || callee.Blocks == nil || depth > 3 || callee.Signature.Results().Len() != 1 {
			return false
		}
		n := 0
		for _, b := range callee.Blocks {
			for _, in := range b.Instrs {
				if r, ok := in.(*ssa.Return); ok {
					n++
					if len(r.Results) != 1 || !freshNonNil(r.Results[0], depth+1) {
						return false
					}
				}
			}
		}
		return n > 0
	}
	return false
}

func (a *Analysis) newSafety() *safety {
	s := &safety{a: a, globalsNonNil: map[*ssa.Global]bool{}, tablesFresh: map[string]string{}, minSizeMemo: map[string]int64{}}
	for g, ok := range a.nonNilPtrGlobals() {
		s.globalsNonNil[g] = ok
	}
	for _, t := range a.U.Tables {
		reason := ""
		for _, r := range t.Regs {
			if !r.Fresh {
				reason = fmt.Sprintf("factory registered for key %s does not return a fresh non-nil &T{}", r.Key)
			}
			if !r.InInit {
				reason = fmt.Sprintf("registration of key %s outside init", r.Key)
			}
		}
		if len(t.OtherRefs) > 0 {
			reason = "table referenced outside its registrar and lookup"
		}
		s.tablesFresh[t.Name] = reason
	}
	return s
}

// nonNilByFacts: whole-program reasons for x being non-nil.
func (s *safety) nonNilByFacts(x *Val) (bool, string) {
	x = stripCT(x)
	switch x.Op {
	case "init":
		a := x.Args[0]
		if a.Op == "global" {
			if g, ok := a.Aux.(*ssa.Global); ok && s.globalsNonNil[g] {
				return true, "package-level pointer assigned once, by its initialiser, with a fresh allocation"
			}
		}
		if a.Op == "index" {
			return true, "list element (nil elements are outside the property)"
		}
	case "dyncall":
		f := x.Args[0]
		if f.Op == "lookup" {
			name := tableName(f.Args[0])
			if r, ok := s.tablesFresh[name]; ok {
				if r == "" {
					return true, "factory from table " + name + ": every registered closure returns a fresh &T{}"
				}
				return false, r
			}
		}
	case "atomicload":
		if a := stripCT(x.Args[0]); a.Op == "field" && len(a.Args) == 1 && a.Args[0].Type != nil {
			if pt, ok := a.Args[0].Type.Underlying().(*types.Pointer); ok {
				if named, ok := pt.Elem().(*types.Named); ok {
					if ok, why := s.atomicPtrNeverNil(named, a.ID); ok {
						return true, why
					}
				}
			}
		}
	case "tassert":
		return true, "result of a succeeded type assertion to an interface"
	case "lookup":
		// value stored in the checksum registry: Registry only stores values whose type assertion to the Algorithm interface succeeded
		return false, ""
	case "elem":
		return true, "list element (nil elements are outside the property)"
	}
	return false, ""
}

func (s *safety) dischargePanicSite(p *Path, ix *pathIndex, e *Event, conds []Cond) (bool, string) {
	switch e.Mode {
	case "nilderef", "nilinvoke", "nilrecv":
		x := e.Args[0]
		if ok, why := s.nonNilByFacts(x); ok {
			return true, why
		}
		return false, "possibly nil: " + x.Pretty()
	case "index":
		x, i := e.Args[0], e.Args[1]
		ln := mkLen(x)
		if x.Op == "init" || x.Op == "param" || x.Op == "collect" || x.Op == "makeslice" || x.Op == "conv" {
			ln = mkLen(x)
		}
		if nonNegative(i, conds) && condHolds(conds, i, "<", ln) {
			return true, "index bounded by a dominating i < len(x)"
		}
		// an unsigned (or non-negative) value modulo a constant k indexes an array of at least k elements
		if m := stripCT(i); m.Op == "binop" && m.Name == "%" && len(m.Args) == 2 {
			if k, isC := m.Args[1].Int64(); isC && k > 0 {
				unsigned := false
				if bt, isB := typeUnder(m.Type).(*types.Basic); isB && bt.Info()&types.IsUnsigned != 0 {
					unsigned = true
				}
				if n, isL := affOf(e.IntType2Len(x)).IsConst(); (unsigned || nonNegative(m.Args[0], conds)) && isL && k <= n {
					return true, "index is a value modulo a constant no larger than the array"
				}
			}
		}
		if os.Getenv("FPDEBUG") == "index" {
			fmt.Fprintln(os.Stderr, "INDEX", i.Pretty(), "len", ln.Pretty(), "ncond", e.NCond, "own", len(e.Own))
			for _, c := range conds {
				fmt.Fprintln(os.Stderr, "   cond", c.String())
			}
		}
		return false, fmt.Sprintf("index %s not provably within [0, %s)", i.Pretty(), ln.Pretty())
	case "slice":
		x, lo, hi := stripCT(e.Args[0]), e.Args[1], e.Args[2]
		if x.Op == "slice" {
			// a slice of a slice of Bytes(): judged in the coordinates of Bytes()
			if fl := flattenSlice(&Val{Op: "slice", Args: []*Val{x, lo, hi, nil}}); stripCT(fl.Args[0]).Op == "bufbytes" {
				inner := stripCT(e.Args[0])
				if inner.Args[2] == nil || hi != nil {
					x, lo, hi = stripCT(fl.Args[0]), fl.Args[1], fl.Args[2]
				} else if bb := ix.byID[stripCT(fl.Args[0]).ID]; bb != nil && fl.Args[1] != nil && fl.Args[2] != nil {
					// v[lo:] of a view v = Bytes()[a:b]: valid when a+lo and b are boundaries of atoms appended before
					// Bytes() was taken, in that order
					if _, _, _, m, okw := ix.window(fl.Args[1], fl.Args[2], bb); okw && sameBuf(m.Buf, bb.Buf) && !consumedBetween(p, m, bb) {
						return true, "bounds are boundaries of atoms appended to the same buffer before Bytes() was taken"
					}
				}
			}
		}
		if x.Op == "bufbytes" {
			bb := ix.byID[x.ID]
			// both bounds are boundaries of atoms appended (to this same buffer, with nothing consumed in between) before
			// Bytes() was taken
			if lo != nil && bb != nil {
				if _, _, _, m, okw := ix.window(lo, hi, bb); okw && sameBuf(m.Buf, bb.Buf) && !consumedBetween(p, m, bb) {
					return true, "bounds are boundaries of atoms appended to the same buffer before Bytes() was taken"
				}
			}
			if lo != nil && lo.Op == "buflen" {
				m := ix.byID[lo.ID]
				if m != nil && bb != nil && m.Kind == EvLen && eventIndex(p, m) < eventIndex(p, bb) && sameBuf(m.Buf, bb.Buf) && !consumedBetween(p, m, bb) {
					if hi == nil {
						return true, "lower bound is an earlier Len() of the same, only-growing buffer"
					}
					w, isC := affOf(hi).Add(affOf(lo), -1).IsConst()
					if isC && w >= 0 && appendedBetween(p, m, bb) >= w {
						return true, fmt.Sprintf("[m, m+%d) with at least %d bytes appended after the observation m", w, w)
					}
				}
			}
			return false, "slice of Bytes() with bounds " + valOrNil(lo) + ":" + valOrNil(hi) + " not provably inside the buffer"
		}
		ln := mkLen(x)
		if x.Op == "availbuf" && len(x.Args) == 2 && hi != nil {
			ln = x.Args[1] // re-slicing within the capacity that a preceding Grow guarantees
		}
		okLo := lo == nil || nonNegative(lo, conds)
		okHi := hi == nil || (condHolds(conds, hi, "<=", ln) && nonNegative(hi, conds))
		okOrd := lo == nil || hi == nil || condHolds(conds, lo, "<=", hi)
		if lo != nil && hi == nil {
			okOrd = condHolds(conds, lo, "<=", ln)
		}
		if okLo && okHi && okOrd {
			return true, "slice bounds dominated by length checks"
		}
		return false, fmt.Sprintf("slice bounds [%s:%s] of %s not provably valid", valOrNil(lo), valOrNil(hi), x.Pretty())
	case "putuint":
		sl, n := stripCT(e.Args[0]), e.Args[1]
		need, _ := n.Int64()
		if w, ok := affOf(mkLen(sl)).IsConst(); ok && w >= need {
			return true, "slice has the required constant length"
		}
		sl = flattenSlice(sl)
		if sl.Op == "slice" && stripCT(sl.Args[0]).Op == "bufbytes" && sl.Args[1] != nil {
			if bb := ix.byID[stripCT(sl.Args[0]).ID]; bb != nil {
				if _, _, w, m, okw := ix.window(sl.Args[1], sl.Args[2], bb); okw && w >= need && sameBuf(m.Buf, bb.Buf) {
					return true, "the slice spans atoms of the required total size"
				}
			}
		}
		return false, "PutUintN target " + sl.Pretty() + " may be shorter than the number"
	case "getuint":
		sl, n := stripCT(e.Args[0]), e.Args[1]
		need, _ := n.Int64()
		ln := mkLen(sl)
		if w, ok := affOf(ln).IsConst(); ok && w >= need {
			return true, "slice has the required constant length"
		}
		if condHolds(conds, n, "<=", ln) {
			return true, "slice length bounded below by dominating conditions"
		}
		return false, "UintN source " + sl.Pretty() + " may be shorter than the number"
	case "slice2array":
		x, n := e.Args[0], e.Args[1]
		if condHolds(conds, n, "<=", mkLen(x)) {
			return true, "slice is at least as long as the array"
		}
		return false, fmt.Sprintf("conversion of %s to an array of %s elements panics when the slice is shorter", x.Pretty(), n.Pretty())
	case "repeat-count":
		if nonNegative(e.Args[0], conds) {
			return true, "count non-negative on this arm"
		}
		return false, "repeat count " + e.Args[0].Pretty() + " may be negative"
	case "assert":
		x := stripCT(e.Args[0])
		for x.Op == "tassert" && x.Name == "" && len(x.Args) == 1 {
			x = stripCT(x.Args[0]) // an assertion on the result of an earlier (discharged) assertion of the same value
		}
		// the registry keeps a small record per name and hands out its one interface-typed field (the service itself)
		if x.Op == "fieldval" && len(x.Args) == 1 && x.Type != nil && types.IsInterface(x.Type) {
			if in := stripCT(x.Args[0]); in.Op == "lookup" && in.Type != nil {
				if st, isS := in.Type.Underlying().(*types.Struct); isS {
					n := 0
					for i := 0; i < st.NumFields(); i++ {
						if types.IsInterface(st.Field(i).Type()) {
							n++
						}
					}
					if n == 1 {
						x = in
					}
				}
			}
		}
		if x.Op == "lookup" && x.Args[1].IsConst() && s.a.isRegistryMap(x.Args[0]) && s.a.RegistryStartup {
			name := strings.Trim(x.Args[1].C.ExactString(), "\"")
			if svc := s.a.U.ServiceByName(name); svc != nil {
				if it, ok := e.IntType.Underlying().(*types.Interface); ok && types.Implements(types.NewPointer(svc.Type), it) {
					return true, "registry holds *" + svc.Type.Obj().Name() + " under " + name + ", which implements the asserted interface"
				}
				return false, "service registered as " + name + " does not implement " + typeStr(e.IntType)
			}
		}
		return false, "type assertion without comma-ok on " + x.Pretty()
	case "negcount":
		if nonNegative(e.Args[0], conds) {
			return true, "count is non-negative"
		}
		return false, "(*Buffer).Next panics on a negative count: " + e.Args[0].Pretty() + " may be negative"
	case "divide", "shift":
		return false, e.Mode + " by a non-constant " + e.Args[1].Pretty()
	case "panic":
		return false, "explicit panic"
	}
	return false, "unrecognised panic site " + e.Mode
}

func valOrNil(v *Val) string {
	if v == nil {
		return ""
	}
	return v.Pretty()
}

func sameBuf(a, b *Val) bool {
	return a != nil && b != nil && stripIface(a).Key() == stripIface(b).Key()
}

func consumedBetween(p *Path, from, to *Event) bool {
	i, j := eventIndex(p, from), eventIndex(p, to)
	for _, e := range p.Events[i:j] {
		if isRead(e) || (e.Kind == EvBufOther && !observerMethods[e.Mode]) {
			return true
		}
	}
	return false
}

func appendedBetween(p *Path, from, to *Event) int64 {
	i, j := eventIndex(p, from), eventIndex(p, to)
	var n int64
	for _, e := range p.Events[i:j] {
		if e.Kind == EvWriteInt {
			if sz, ok := fixedSize(e.IntType); ok && sz > 0 {
				n += sz
			}
		}
	}
	return n
}

// minSize: the least number of bytes a successful Decode of the type consumes.
func (s *safety) minSize(name string) int64 {
	if v, ok := s.minSizeMemo[name]; ok {
		return v
	}
	s.minSizeMemo[name] = 0 // cycles: conservative
	ct := s.a.U.TypeByName[name]
	if ct == nil {
		return 0
	}
	tl := s.a.Layouts(ct)
	if tl.DecMain == nil {
		return 0
	}
	var total int64
	for _, f := range tl.DecMain.Layout.Fields {
		total += s.minFieldSize(f)
	}
	s.minSizeMemo[name] = total
	return total
}

func typeBytes(name string) int64 {
	switch name {
	case "int8", "uint8", "bool":
		return 1
	case "int16", "uint16":
		return 2
	case "int32", "uint32", "float32":
		return 4
	case "int64", "uint64", "float64":
		return 8
	}
	return 0
}

func (s *safety) minFieldSize(f *FieldLayout) int64 {
	switch f.Kind {
	case "int", "len", "checksum", "const":
		return typeBytes(f.Type)
	case "fixed":
		return f.Width
	case "ptext", "list":
		return typeBytes(f.Prefix)
	case "obj":
		return s.minSize(f.Obj)
	}
	return 0
}

// iterationMinBytes: least number of bytes a completed iteration of a decode loop consumes.
func (s *safety) iterationMinBytes(arm *Arm) int64 {
	var n int64
	for _, e := range arm.Events {
		if e.Failed {
			continue // a failed read may have consumed nothing
		}
		switch e.Kind {
		case EvReadInt:
			if sz, ok := fixedSize(e.IntType); ok && sz > 0 {
				n += sz
			} else if ok && sz == -1 && numberTypeSet(e.IntType) {
				n++ // generic body: some fixed-size number type, at least one byte
			}
		case EvReadBytes:
			if c, ok := affOf(e.Size).IsConst(); ok && c > 0 {
				n += c
			}
		case EvObj:
			if e.Dir == "Decode" {
				if ct := s.a.U.TypeOf(e.ObjType); ct != nil && e.Callee != nil {
					n += s.minSize(ct.Name)
				} else if e.Callee == nil {
					// dynamic: unknown type; look for a statically known allocation
				}
				if e.Callee == nil {
					if r := stripCT(e.Recv); r.Op == "alloc" && r.Type != nil {
						if ct := s.a.U.TypeOf(r.Type); ct != nil {
							n += s.minSize(ct.Name)
						}
					}
				}
			}
		case EvAlt:
			var m int64 = -1
			for _, a := range e.Iter {
				x := s.iterationMinBytes(a)
				if m < 0 || x < m {
					m = x
				}
			}
			if m > 0 {
				n += m
			}
		}
	}
	return n
}

// checkNoPanic applies P1/N-rules to all paths of a root.
func (s *safety) checkNoPanic(rep *Report, prefix string, key string, fn *ssa.Function, paths []*Path, decode bool) {
	for _, p := range paths {
		ix := indexPath(p)
		if p.Trunc != "" {
			rep.Ob(prefix+"0-analysable", key, false, s.a.P.Pos(fn.Pos()), "path analysis gave up: "+p.Trunc)
			continue
		}
		heldExcl := map[string]bool{} // mutexes this path holds exclusively at this point
		walkWithConds(p, func(e *Event, conds []Cond, reps []*Event) {
			epos := s.a.P.Pos(e.Pos)
			site := siteKey(e)
			if len(heldExcl) > 0 && (e.Kind == EvObj || e.Kind == EvCalc || e.Kind == EvCall || e.Kind == EvGo) {
				// while a mutex is held exclusively nothing may run that could come back for it (a nested codec, a
				// service, unknown code): the goroutine would wait for itself
				rep.Ob(prefix+"4-locks", key+":held-across:"+e.Kind.String(), false, epos, "codec path runs "+e.String()+" while holding a mutex exclusively (re-entry would block for ever)")
			}
			switch e.Kind {
			case EvPanicSite:
				ok, why := s.dischargePanicSite(p, ix, e, conds)
				rule := prefix + "1-" + map[string]string{"nilderef": "nil", "nilinvoke": "nil", "nilrecv": "nil", "index": "bounds", "slice": "bounds", "putuint": "bounds", "getuint": "bounds", "repeat-count": "bounds", "slice2array": "bounds", "assert": "type-assertion", "divide": "arith", "shift": "arith", "panic": "explicit-panic"}[e.Mode]
				rep.Ob(rule, key+":"+e.Mode+"@"+site, ok, epos, e.Mode+" may panic: "+why)
				if ok && len(rep.Samples) < 8 {
					rep.Sample(map[string]interface{}{"root": key, "site": epos, "panic_site": e.String(), "discharged_by": why})
				}
			case EvAlloc:
				if e.Mode == "makeslice" {
					okl := nonNegative(e.Args[0], conds)
					okc := nonNegative(e.Args[1], conds)
					rep.Ob(prefix+"1-make-size", key+":make@"+site, okl && okc, epos, "make with a size that may be negative: "+prettyVals(e.Args))
				}
			case EvBufOther:
				if e.Mode == "Grow" && len(e.Args) == 1 {
					rep.Ob(prefix+"1-make-size", key+":grow@"+site, nonNegative(e.Args[0], conds), epos, "(*Buffer).Grow panics on a negative count: "+prettyVals(e.Args))
				}
			case EvCall:
				switch {
				case strings.HasPrefix(e.Mode, "recursion:"):
					rep.Ob(prefix+"3-no-recursion", key+":"+e.Mode, false, epos, "recursive call: depth not bounded by the analysis")
				case strings.HasPrefix(e.Mode, "truncated:"):
					rep.Ob(prefix+"0-analysable", key+":"+site, false, epos, e.Mode)
				case e.Mode == "dynamic":
					f := stripCT(e.Recv)
					ok, why := false, "call of a function value of unknown origin: "+f.Pretty()
					if f.Op == "lookup" {
						name := tableName(f.Args[0])
						if r, found := s.tablesFresh[name]; found && r == "" {
							ok, why = true, ""
						} else if found {
							why = r
						}
					}
					rep.Ob(prefix+"1-callee-known", key+":dynamic@"+site, ok, epos, why)
				case strings.HasPrefix(e.Mode, "invoke:"):
					rep.Ob(prefix+"1-callee-known", key+":"+e.Mode+"@"+site, false, epos, "interface method call outside the model: "+e.Mode)
				default:
					rep.Ob(prefix+"1-callee-known", key+":"+e.Mode, false, epos, "call to "+e.Mode+" which has no summary and no entry in the library model (may panic or block)")
				}
			case EvGo:
				rep.Ob(prefix+"4-no-concurrency", key+":"+e.Mode, false, epos, "codec path uses "+e.Mode)
			case EvLock:
				// the registry's read lock, or a short exclusive section (a registry guarded by a plain Mutex): acquired once,
				// released on this path, nothing but the look-up in between
				okLock := e.Mode == "RLock" || e.Mode == "RUnlock"
				if e.Recv != nil {
					k := e.Recv.Key()
					switch e.Mode {
					case "Lock":
						okLock = !heldExcl[k]
						heldExcl[k] = true
					case "Unlock":
						okLock = heldExcl[k]
						delete(heldExcl, k)
					}
				}
				rep.Ob(prefix+"4-locks", key+":"+e.Mode, okLock, epos, "codec path takes "+e.Mode+" on "+e.Recv.Pretty()+" outside the acquire-once / release-on-this-path discipline")
			case EvRep:
				bounded := e.Bounded == "counted" || e.Bounded == "range" || e.Bounded == "counted-down" || e.Bounded == "bulk"
				if e.Bounded == "shrinking" {
					// runs at most once per element of a slice already in memory (whose allocation C10 bounds by the input)
					rep.Ob(prefix+"2-loop-bounded", key+":loop@"+site, true, "", "")
					return
				}
				if decode {
					// the trip count must be bounded by the input size: either the count does not derive from
					// wire data at all (a constant or parameter), or each completed iteration consumes at least one byte
					minb := int64(-1)
					for _, arm := range e.Iter {
						b := s.iterationMinBytes(arm)
						if minb < 0 || b < minb {
							minb = b
						}
					}
					countFromWire := e.Count.Contains(func(x *Val) bool { return x.Op == "wire" || x.Op == "unknown" || x.Op == "short" })
					if e.Bounded == "range" {
						// ranges over a slice, array or string already in memory: at most one iteration per element, and the
						// size of what is in memory is bounded by the input (C10)
						countFromWire = false
					}
					if bounded && !countFromWire {
						rep.Ob(prefix+"2-loop-bounded", key+":loop@"+site, true, "", "")
					} else {
						rep.Ob(prefix+"2-loop-consumes", key+":loop@"+site, minb >= 1, epos,
							fmt.Sprintf("a loop iteration can complete without consuming input (min %d bytes): with a hostile count the loop runs independently of the input size", minb))
						rep.Ob(prefix+"2-loop-bounded", key+":loop@"+site, bounded || minb >= 1, epos, "loop without a recognised counter whose iterations do not all consume input")
					}
				} else {
					rep.Ob(prefix+"2-loop-bounded", key+":loop@"+site, bounded, epos, "loop without a recognised bound (count "+e.Count.Pretty()+")")
				}
			}
		})
	}
}

// siteKey names an event by the chain of functions it was inlined through and its ordinal among same-mode events of that function (no line numbers).
func siteKey(e *Event) string {
	var parts []string
	for s := e.Site; s != nil; s = s.Parent {
		parts = append(parts, s.Callee.Name())
	}
	name := strings.Join(parts, "<")
	if name == "" {
		name = "root"
	}
	// ordinal of the instruction inside its function
	if e.Instr != nil && e.Instr.Block() != nil {
		n := 0
		for _, b := range e.Instr.Parent().Blocks {
			for _, in := range b.Instrs {
				if in == e.Instr {
					return fmt.Sprintf("%s#%d", name, n)
				}
				if sameInstrClass(in, e.Instr) {
					n++
				}
			}
		}
	}
	return name
}

func sameInstrClass(a, b ssa.Instruction) bool {
	return fmt.Sprintf("%T", a) == fmt.Sprintf("%T", b)
}

// containment graph of codec types (P3)
func (s *safety) containmentCycle() []string {
	edges := map[string][]string{}
	tbl := map[string]*Table{}
	for _, t := range s.a.U.Tables {
		tbl[t.Name] = t
	}
	for _, ct := range s.a.U.Types {
		tl := s.a.Layouts(ct)
		if tl.DecMain == nil {
			continue
		}
		var visit func(f *FieldLayout)
		visit = func(f *FieldLayout) {
			switch f.Kind {
			case "obj":
				edges[ct.Name] = append(edges[ct.Name], f.Obj)
			case "dyn":
				if t := tbl[f.Table]; t != nil {
					for _, r := range t.Regs {
						edges[ct.Name] = append(edges[ct.Name], r.Type)
					}
				}
			case "list":
				if f.Elem != nil {
					visit(f.Elem)
				}
			}
		}
		for _, f := range tl.DecMain.Layout.Fields {
			visit(f)
		}
	}
	state := map[string]int{}
	var stack []string
	var cyc []string
	var dfs func(n string) bool
	dfs = func(n string) bool {
		state[n] = 1
		stack = append(stack, n)
		for _, m := range edges[n] {
			if state[m] == 1 {
				cyc = append(append([]string(nil), stack...), m)
				return true
			}
			if state[m] == 0 && dfs(m) {
				return true
			}
		}
		state[n] = 2
		stack = stack[:len(stack)-1]
		return false
	}
	var names []string
	for n := range edges {
		names = append(names, n)
	}
	sort.Strings(names)
	for _, n := range names {
		if state[n] == 0 && dfs(n) {
			return cyc
		}
	}
	return nil
}

// ---------------------------------------------------------------------------
// C09

func (a *Analysis) CheckC09(rep *Report) {
	rep.Explanation = "Over every path of every Decode (all module callees – primitives, lookups, factory closures – inlined; nested Decode calls are the other roots): P1 every instruction that can panic is enumerated (nil dereference/invoke, index, slice, type assertion without comma-ok, integer division/shift by a non-constant, make with a possibly negative size, explicit panic, calls without a summary or model entry) and discharged by a dominating guard or a whole-program fact (factories return fresh allocations, the registry pointer is assigned once); P2 every loop is a counted loop with a loop-invariant bound and every completed iteration consumes at least one input byte while a failing read leaves the loop, so the trip count is bounded by the input size; P3 no recursion among module functions and the containment graph of codec types (nested parts, list elements, table registrations) is acyclic; P4 no goroutines, channels or locks other than the registry's read lock; P5 a failing atom yields a non-nil error (C11). Unbounded allocation is C10."
	rep.Trusted = append(trustedBase(), "no-panic entries of the stdlib model (fmt, errors, bytes.Trim*, string conversions); 64-bit int")
	rep.Exhaustive = true
	s := a.newSafety()
	cyc := s.containmentCycle()
	rep.Ob("P3-containment-acyclic", "codec-types", cyc == nil, "-", "codec types contain each other cyclically: "+strings.Join(cyc, " -> "))
	for _, ct := range a.U.Types {
		r := a.Result(ct)
		if !rep.Ob("P0-analysable", ct.Name, r.DecErr == nil && len(r.DecPaths) > 0, a.P.Pos(ct.Decode.Pos()), fmt.Sprint("Decode not analysable: ", r.DecErr)) {
			continue
		}
		s.checkNoPanic(rep, "P", ct.Name+".Decode", ct.Decode, r.DecPaths, true)
		rep.Counts["decode_paths"] += len(r.DecPaths)
	}
	for _, t := range a.U.Tables {
		rep.Ob("P1-factories-fresh", t.Name, s.tablesFresh[t.Name] == "", a.P.Pos(t.Global.Pos()), s.tablesFresh[t.Name])
	}
	// failure leaves loop / returns error: shared with C11 (reported there); here only counted
	rep.Floor("codec_types", len(a.U.Types), goldenFloor("types", 170))
	rep.Floor("tables", len(a.U.Tables), goldenFloor("tables", 18))
}

// ---------------------------------------------------------------------------
// C17

func (a *Analysis) CheckC17(rep *Report) {
	rep.Explanation = "Over every path of every Encode (module callees inlined): N1 every dereference of, or interface/method call on, a value loaded from a receiver field of pointer or interface type is dominated by a non-nil guard or by a materialising store on the nil arm (zero and constructor values have these fields nil; constructors are checked to return a plain allocation); N2 slice and index expressions are dominated by the length checks that make them valid, the in-place patch lies within bytes appended after its marker, bytes.Repeat counts are non-negative on their arm; N3 the only type assertion without comma-ok is the checksum-service assertion, discharged by the registered service implementing the asserted interface; N4/N5 no explicit panic, no division by a non-constant, no callee outside the model; loops are bounded by a slice length. Nil elements inside lists and typed-nil interface values are outside the property and outside the rule."
	rep.Trusted = append(trustedBase(), "no-panic entries of the stdlib model; bytes.Buffer growth failure (out of memory) is not modelled")
	rep.Exhaustive = true
	s := a.newSafety()
	for _, ct := range a.U.Types {
		r := a.Result(ct)
		if !rep.Ob("N0-analysable", ct.Name, r.EncErr == nil && len(r.EncPaths) > 0, a.P.Pos(ct.Encode.Pos()), fmt.Sprint("Encode not analysable: ", r.EncErr)) {
			continue
		}
		s.checkNoPanic(rep, "N", ct.Name+".Encode", ct.Encode, r.EncPaths, false)
		rep.Counts["encode_paths"] += len(r.EncPaths)
		if ct.NewFn != nil {
			rep.Ob("N1-constructor-plain", ct.Name, plainConstructor(ct.NewFn), a.P.Pos(ct.NewFn.Pos()), "constructor does more than return a fresh zero value")
		}
	}
	rep.Floor("codec_types", len(a.U.Types), goldenFloor("types", 170))
}

// plainConstructor: the function returns a fresh allocation and performs no calls.
func plainConstructor(fn *ssa.Function) bool { return plainConstructorDepth(fn, 0) }

func plainConstructorDepth(fn *ssa.Function, depth int) bool {
	if fn.Blocks == nil || depth > 3 {
		return false
	}
	// what the caller handed in: the parameters, their elements (functional options: `for _, o := range opts { o(p) }`)
	fromParam := map[ssa.Value]bool{}
	for _, p := range fn.Params {
		fromParam[p] = true
	}
	for changed := true; changed; {
		changed = false
		for _, b := range fn.Blocks {
			for _, in := range b.Instrs {
				switch in := in.(type) {
				case *ssa.IndexAddr:
					if fromParam[in.X] && !fromParam[in] {
						fromParam[in], changed = true, true
					}
				case *ssa.UnOp:
					if fromParam[in.X] && !fromParam[in] {
						fromParam[in], changed = true, true
					}
				}
			}
		}
	}
	for _, b := range fn.Blocks {
		for _, in := range b.Instrs {
			switch in := in.(type) {
			case *ssa.Alloc, *ssa.Return, *ssa.DebugRef, *ssa.MakeInterface:
			case *ssa.Store, *ssa.FieldAddr:
				_ = in
			case *ssa.Phi, *ssa.BinOp, *ssa.If, *ssa.Jump:
				// the counter and test of a loop over the options
			case *ssa.IndexAddr, *ssa.UnOp:
				if !fromParam[in.(ssa.Value)] {
					return false
				}
			case *ssa.Call:
				if bi, ok := in.Call.Value.(*ssa.Builtin); ok && bi.Name() == "len" && len(in.Call.Args) == 1 && fromParam[in.Call.Args[0]] {
					continue
				}
				// a nested part made by its own plain constructor (`&Request{SubOrder: NewSubOrder()}`)
				if callee := in.Call.StaticCallee(); callee != nil && len(in.Call.Args) == 0 && plainConstructorDepth(callee, depth+1) {
					continue
				}
				// an option supplied by the caller applied to the new value: what it does to it is the caller's own doing,
				// like assigning the fields after the constructor returned
				if in.Call.IsInvoke() || !fromParam[in.Call.Value] {
					return false
				}
			default:
				return false
			}
		}
	}
	return true
}

// ---------------------------------------------------------------------------
// C10

// boundedByInput: is the allocation size v dominated by a comparison with the bytes present in a buffer?
func boundedByInput(v *Val, conds []Cond) (bool, string) {
	v = stripCT(v)
	if !v.Contains(func(x *Val) bool { return x.Op == "wire" || x.Op == "short" || x.Op == "bufbytes" || x.Op == "bufnext" }) {
		return true, "not derived from wire data"
	}
	// min(x, buf.Len())
	inner := v
	for inner.Op == "conv" {
		inner = stripCT(inner.Args[0])
	}
	if inner.Op == "choice" && len(inner.Args) > 0 {
		// the value of one of several effect-free alternatives: bounded when each of them is
		all := true
		forks, _ := inner.Aux.([]*choiceFork)
		for i, alt := range inner.Args {
			// (each alternative under the conditions of the way that produced it: `if count > remaining { return
			// remaining }; return count` is min(count, remaining) written out)
			cs := conds
			if i < len(forks) && forks[i] != nil && len(forks[i].Conds) > 0 {
				cs = append(append([]Cond(nil), conds...), forks[i].Conds...)
			}
			if ok, _ := boundedByInput(alt, cs); !ok {
				all = false
			}
		}
		if all {
			return true, "every alternative bounded"
		}
	}
	if inner.Op == "call" && inner.Name == "min" {
		for _, a := range inner.Args {
			a = stripCT(a)
			for a.Op == "conv" {
				a = stripCT(a.Args[0])
			}
			if a.Op == "buflen" {
				return true, "min(…, buf.Len())"
			}
			// buf.Len() / k with a constant k >= 1: still bounded by the bytes present
			if a.Op == "binop" && a.Name == "/" {
				num := stripCT(a.Args[0])
				for num.Op == "conv" {
					num = stripCT(num.Args[0])
				}
				// buf.Len() >= 0, so buf.Len()/k <= buf.Len() for every k for which the division is defined (k = 0
				// panics and negative results make the allocation panic: both are C09's concern, not an allocation)
				if num.Op == "buflen" {
					return true, "min(…, buf.Len()/k)"
				}
			}
			if _, isC := a.Int64(); isC {
				return true, "min with a constant bound"
			}
		}
	}
	for _, c := range conds {
		cv := c.V
		if cv.Op != "binop" {
			continue
		}
		for _, side := range []int{0, 1} {
			o := stripCT(cv.Args[1-side])
			for o.Op == "conv" {
				o = stripCT(o.Args[0])
			}
			// what the comparison says about the claimed value holds over the integers only if the compared expression
			// cannot wrap: `n*recordSize > uint32(buf.Len())` computed in uint32 lets a large n through
			if !wrapFreeGuard(cv.Args[side]) {
				continue
			}
			if _, div := lenOverConst(o); div {
				// v <= buf.Len()/k implies v <= buf.Len()
				if saysAtMost(c, side) && affOf(stripIntConv(cv.Args[side])).Equal(affOf(stripIntConv(v))) && !affOf(stripIntConv(v)).Top {
					return true, "guarded by " + c.String()
				}
				continue
			}
			if o.Op != "buflen" {
				continue
			}
			if condHolds([]Cond{c}, v, "<=", cv.Args[1-side]) {
				return true, "guarded by " + c.String()
			}
			// k*v <= buf.Len() with a constant k >= 1 and v >= 0 implies v <= buf.Len()
			if saysAtMost(c, side) && nonNegative(v, conds) {
				av, ao := affOf(stripIntConv(v)), affOf(cv.Args[side])
				if !av.Top && !ao.Top && len(av.Term) == 1 && av.C == 0 {
					for key, cv1 := range av.Term {
						if co, has := ao.Term[key]; has && cv1 > 0 && co >= cv1 && co%cv1 == 0 && ao.Equal(av.Scale(co/cv1)) {
							return true, "guarded by " + c.String()
						}
					}
				}
			}
		}
	}
	return false, ""
}

func (a *Analysis) CheckC10(rep *Report) {
	rep.Explanation = "Taint rule over every path of every Decode (module callees inlined) and of every reader primitive in its generic body and every instantiation. Sources: values read from the buffer (binary.Read targets, read byte counts). Sinks: the length and capacity of every make, the count of bytes.Repeat/strings.Repeat, (*Buffer).Grow. A sink whose size derives from a source must be sanitised: dominated on the path by a comparison of that same value with buf.Len() that leaves with an error when larger, or be min(value, buf.Len()). T3: a sync.Pool asked for memory on a decode path is not selected by a wire value (an empty pool allocates its size class). Loop growth by append is bounded by C09-P2 (every iteration consumes input). Constant sizes (all fixedLen arguments are literals at the call sites) are untainted. The evidence lists every sink with its sanitiser."
	rep.Trusted = append(trustedBase(), "allocator behaviour and the constant factor (element size x bytes present) are reported, not judged")
	rep.Exhaustive = true
	nsinks, nloops := 0, 0
	sf := &safety{a: a, minSizeMemo: map[string]int64{}}
	check := func(key string, fn *ssa.Function, paths []*Path) {
		for _, p := range paths {
			walkWithConds(p, func(e *Event, conds []Cond, reps []*Event) {
				epos := a.P.Pos(e.Pos)
				var sizes []*Val
				what := ""
				switch {
				case e.Kind == EvAlloc && e.Mode == "makeslice":
					sizes, what = e.Args, "make("+typeStr(e.IntType)+")"
				case e.Kind == EvAlloc && (e.Mode == "bytes.Repeat" || e.Mode == "strings.Repeat"):
					sizes, what = e.Args, e.Mode
				case e.Kind == EvAlloc && e.Mode == "makemap" && e.Src != nil:
					sizes, what = []*Val{e.Src}, "make(map)"
				case e.Kind == EvBufOther && e.Mode == "Grow":
					sizes, what = e.Args, "Grow"
				case e.Kind == EvCall && e.Callee != nil && fullName(e.Callee) == "(*sync.Pool).Get" && len(e.Args) > 0:
					// T3: memory taken from a pool: an empty pool makes a new object with its New function, so *which* pool is
					// asked decides how much is allocated. A pool picked by a value read from the wire (size classes
					// indexed by the announced length) allocates by that value, whatever the input holds.
					nsinks++
					sel := e.Args[0]
					fromWire := sel.Contains(func(x *Val) bool { return x.Op == "wire" || x.Op == "short" })
					rep.Ob("T3-pool-not-selected-by-wire", fmt.Sprintf("%s:pool.Get@%s", key, siteKey(e)), !fromWire, epos,
						fmt.Sprintf("the pool asked for memory is selected by a value read from the wire (%s): an empty pool allocates a new object of that pool's size class, so the allocation follows the announced value, not the bytes present", sel.Pretty()))
					return
				case e.Kind == EvRep:
					// T2: work and memory per decode call are bounded by the input only if a loop whose trip count comes off
					// the wire consumes input on every completed iteration (or leaves): an iteration that can complete
					// without reading – a failed element whose error is noted and the loop carried on – makes a fresh
					// element, or at least a turn, per announced element whatever the input holds
					countFromWire := e.Count != nil && e.Count.Contains(func(x *Val) bool { return x.Op == "wire" || x.Op == "unknown" || x.Op == "short" })
					if e.Bounded == "range" || e.Bounded == "shrinking" || !countFromWire {
						return
					}
					minb := int64(-1)
					symbolic := false
					for _, arm := range e.Iter {
						if b := sf.iterationMinBytes(arm); minb < 0 || b < minb {
							minb = b
						}
						walkEvents(arm.Events, func(x *Event, _ int) {
							if _, isC := affOf(x.Size).IsConst(); x.Kind == EvReadBytes && !x.Failed && x.Size != nil && !isC && !x.Size.Contains(func(y *Val) bool { return y.Op == "wire" || y.Op == "short" || y.Op == "unknown" }) {
								symbolic = true // a width that is a parameter of the primitive: decided where it is a literal, in the Decode that calls it
							}
							if _, isTP := x.IntType.(*types.TypeParam); x.Kind == EvReadInt && !x.Failed && isTP && !numberTypeSet(x.IntType) {
								symbolic = true // a number whose type is a type parameter admitting int/uint: decided per instantiation
							}
							if x.Kind == EvObj && x.Dir == "Decode" && !x.Failed && x.Callee == nil {
								if r := stripCT(x.Recv); r == nil || r.Op != "alloc" || r.Type == nil || a.U.TypeOf(r.Type) == nil {
									symbolic = true // an element whose type is the primitive's type parameter: decided per instantiation, in the Decode that calls it
								}
							}
						})
					}
					if symbolic && minb < 1 {
						return
					}
					nloops++
					rep.Ob("T2-wire-counted-loop-consumes-input", key+":loop@"+siteKey(e), minb >= 1, epos,
						fmt.Sprintf("a loop that runs once per element announced on the wire (%s) can complete an iteration without consuming input: its work and allocations follow the announced count, not the bytes present", valOrNil(e.Count)))
					return
				default:
					return
				}
				nsinks++
				for i, sz := range sizes {
					ok, why := boundedByInput(sz, conds)
					k := fmt.Sprintf("%s:%s@%s/%d", key, what, siteKey(e), i)
					rep.Ob("T1-allocation-bounded-by-input", k, ok, epos,
						fmt.Sprintf("%s is sized by %s, a value read from the wire, without first checking it against the bytes actually present (buf.Len())", what, sz.Pretty()))
					if ok && why != "not derived from wire data" && len(rep.Samples) < 10 {
						rep.Sample(map[string]interface{}{"sink": what, "at": epos, "size": sz.Pretty(), "sanitiser": why})
					}
				}
			})
		}
	}
	for _, ct := range a.U.Types {
		r := a.Result(ct)
		if !rep.Ob("T0-analysable", ct.Name, r.DecErr == nil && len(r.DecPaths) > 0, a.P.Pos(ct.Decode.Pos()), fmt.Sprint("Decode not analysable: ", r.DecErr)) {
			continue
		}
		check(ct.Name+".Decode", ct.Decode, r.DecPaths)
	}
	np := 0
	for _, pp := range a.allPrimPaths() {
		if !hasEvent(pp.paths, isRead) {
			continue
		}
		np++
		if !rep.Ob("T0-analysable", FuncName(pp.fn), pp.err == nil, a.P.Pos(pp.fn.Pos()), fmt.Sprint(pp.err)) {
			continue
		}
		check(FuncName(pp.fn), pp.fn, pp.paths)
	}
	rep.Counts["allocation_sinks"] = nsinks
	rep.Counts["wire_counted_loops"] = nloops
	rep.Counts["reader_primitives_and_instances"] = np
	rep.Floor("allocation_sinks", nsinks, 100)
	rep.Floor("codec_types", len(a.U.Types), goldenFloor("types", 170))
}

// ---------------------------------------------------------------------------
// C18

// narrowingLenPrefix: src = T(L) where L involves len(x) and T is narrower than int.
func narrowingLenPrefix(src *Val) (*Val, bool) {
	src = stripCT(src)
	if src.Op != "conv" || src.Type == nil || !(isIntegerType(src.Type) || integerTypeSet(src.Type)) {
		return nil, false
	}
	in := stripCT(src.Args[0])
	if !in.Contains(func(x *Val) bool { return x.Op == "len" }) {
		return nil, false
	}
	// a length (or an affine expression of lengths), not something that merely mentions a length somewhere inside
	// (a checksum computed over buf.Bytes()[s:len(…)] is not a length)
	if aff := affOf(stripIntConv(in)); aff.Top {
		return nil, false
	} else {
		for k := range aff.Term {
			if op := aff.Sym[k].Op; op != "len" && op != "cap" {
				return nil, false
			}
		}
	}
	if wideningInt(in.Type, src.Type) {
		return nil, false
	}
	if _, isTP := src.Type.(*types.TypeParam); isTP {
		return in, true
	}
	bits, _ := intBits2(src.Type)
	if bits >= 64 {
		return nil, false // uint64/uint hold every non-negative int
	}
	return in, true
}

// unsignedTypeSet: every type in the type parameter's type set is an unsigned integer.
func unsignedTypeSet(tp *types.TypeParam) bool {
	var all func(t types.Type, depth int) bool
	all = func(t types.Type, depth int) bool {
		if depth > 6 {
			return false
		}
		switch u := t.(type) {
		case *types.Union:
			if u.Len() == 0 {
				return false
			}
			for i := 0; i < u.Len(); i++ {
				if !all(u.Term(i).Type(), depth+1) {
					return false
				}
			}
			return true
		case *types.Interface:
			any := false
			for i := 0; i < u.NumEmbeddeds(); i++ {
				if !all(u.EmbeddedType(i), depth+1) {
					return false
				}
				any = true
			}
			return any
		case *types.Named:
			return all(u.Underlying(), depth+1)
		case *types.Basic:
			return u.Info()&types.IsUnsigned != 0
		}
		return false
	}
	return all(tp.Constraint().Underlying(), 0)
}

// overflowGuard recognises the accepted guard idioms over value L being narrowed to conv:
// round trip  int(T(L)) != L   (failing when true)
// max compare L > maxT  /  uint64(L) > uint64(maxT)  with maxT exactly the maximum of T
func overflowGuard(c Cond, narrowed *Val) (isGuard bool, failing bool) {
	v := c.V
	if v.Op != "binop" {
		return false, false
	}
	L := stripCT(narrowed.Args[0])
	l, r := stripCT(v.Args[0]), stripCT(v.Args[1])
	rt := func(x, y *Val) bool { // x = int(T(L)), y = L
		x0 := x
		for x0.Op == "conv" && wideningInt(stripCT(x0.Args[0]).Type, x0.Type) {
			x0 = stripCT(x0.Args[0])
		}
		return x0.Key() == stripCT(narrowed).Key() && affOf(y).Equal(affOf(L))
	}
	switch v.Name {
	case "!=":
		if rt(l, r) || rt(r, l) {
			return true, c.Taken
		}
	case "==":
		if rt(l, r) || rt(r, l) {
			return true, !c.Taken
		}
	case ">", "<", ">=", "<=":
		// generic body: the largest value of an unsigned type parameter T is ^T(0); L > uint64(^T(0)) is the exact
		// max comparison for whatever T turns out to be
		if tp, isTP := narrowed.Type.(*types.TypeParam); isTP && unsignedTypeSet(tp) {
			isMax := func(x *Val) bool {
				for x != nil && x.Op == "conv" && len(x.Args) == 1 && x.Type != nil && isIntegerType(x.Type) {
					x = stripCT(x.Args[0]) // widened for the comparison
				}
				if x == nil || x.Op != "unop" || x.Name != "^" || len(x.Args) != 1 {
					return false
				}
				z := stripCT(x.Args[0])
				if z.Op == "conv" && len(z.Args) == 1 && z.Type != nil && typeStr(z.Type) == typeStr(tp) {
					z = stripCT(z.Args[0])
				} else if !(x.Type != nil && typeStr(x.Type) == typeStr(tp)) {
					return false
				}
				n, ok := z.Int64()
				return ok && n == 0
			}
			unw := func(x *Val) *Val {
				for x.Op == "conv" {
					x = stripCT(x.Args[0])
				}
				return x
			}
			if affOf(unw(l)).Equal(affOf(L)) && isMax(r) {
				switch v.Name {
				case ">":
					return true, c.Taken
				case "<=":
					return true, !c.Taken
				}
			}
			if affOf(unw(r)).Equal(affOf(L)) && isMax(l) {
				switch v.Name {
				case "<":
					return true, c.Taken
				case ">=":
					return true, !c.Taken
				}
			}
			return false, false
		}
		bits, uns := intBits2(narrowed.Type)
		if bits == 0 || bits >= 64 {
			return false, false
		}
		max := int64(1)<<uint(bits) - 1
		if !uns {
			max = int64(1)<<uint(bits-1) - 1
		}
		unwrap := func(x *Val) *Val {
			for x.Op == "conv" {
				x = stripCT(x.Args[0])
			}
			return x
		}
		lu, ru := unwrap(l), unwrap(r)
		// L > max (fail when true) ; L <= max (fail when false) ; max < L ; max >= L
		if affOf(lu).Equal(affOf(L)) {
			if n, ok := ru.Int64(); ok {
				switch v.Name {
				case ">":
					return n == max, c.Taken
				case "<=":
					return n == max, !c.Taken
				case ">=":
					return n == max+1, c.Taken
				case "<":
					return n == max+1, !c.Taken
				}
			}
		}
		if affOf(ru).Equal(affOf(L)) {
			if n, ok := lu.Int64(); ok {
				switch v.Name {
				case "<":
					return n == max, c.Taken
				case ">=":
					return n == max, !c.Taken
				case "<=":
					return n == max+1, c.Taken
				case ">":
					return n == max+1, !c.Taken
				}
			}
		}
	}
	return false, false
}

func (a *Analysis) CheckC18(rep *Report) {
	rep.Explanation = "O1: over every path of every Encode (module callees inlined) and of every writer primitive, each number written from a narrowing conversion T(len(x)) – the outer count and every per-element prefix – must be dominated by an overflow guard on that same length: the round-trip test int(T(n)) != n or an exact comparison with T's maximum (both exact, so the limit itself still encodes). O2: every path on which such a guard fails returns a provably non-nil error – in the primitive and, because callees are inlined, in every Encode that reaches it (a caller that drops the error shows up as a success path that took the failing arm)."
	rep.Trusted = append(trustedBase(), "64-bit int")
	rep.Exhaustive = true
	nprefix := 0
	guardedPrefix := map[*Event]bool{} // prefix writes that O1 found guarded
	check := func(key string, fn *ssa.Function, paths []*Path) {
		for _, p := range paths {
			// O2: failing guard arms must be error paths
			var failingGuards []Cond
			var narrowedVals []*Val
			walkWithConds(p, func(e *Event, conds []Cond, reps []*Event) {
				if e.Kind != EvWriteInt {
					return
				}
				if _, ok := narrowingLenPrefix(e.Src); !ok {
					return
				}
				nprefix++
				narrowed := stripCT(e.Src)
				narrowedVals = append(narrowedVals, narrowed)
				guarded := false
				for _, c := range conds {
					if g, failing := overflowGuard(c, narrowed); g && !failing {
						guarded = true
					}
				}
				inner := originName(e.Fn)
				ord := "count"
				if len(reps) > 0 {
					ord = "element-prefix"
				}
				if os.Getenv("FPDEBUG") == "o1" {
					fmt.Fprintln(os.Stderr, "O1", key, originName(e.Fn), "narrowed", narrowed.Key(), "guarded", guarded)
					for _, c := range conds {
						g, f := overflowGuard(c, narrowed)
						fmt.Fprintln(os.Stderr, "    cond", c.V.Key(), c.Taken, "->", g, f)
					}
				}
				if guarded {
					guardedPrefix[e] = true
				}
				rep.Ob("O1-prefix-guarded", fmt.Sprintf("%s:%s(%s)", key, inner, ord), guarded, a.P.Pos(e.Pos),
					fmt.Sprintf("%s is written as a length prefix without a dominating overflow check: a value longer than the prefix can represent wraps around and the full data follows", e.Src.Pretty()))
			})
			// O5: a count kept in the prefix's own type (`var n T; for … { n++ }`, written or patched in afterwards) wraps
			// like a narrowing conversion does: the number of iterations must be shown to fit
			loopsByID := map[int]*Event{}
			walkEvents(p.Events, func(e *Event, _ int) {
				if e.Kind == EvRep {
					loopsByID[e.LoopID] = e
				}
			})
			walkWithConds(p, func(e *Event, conds []Cond, reps []*Event) {
				if (e.Kind != EvWriteInt && e.Kind != EvPatch) || e.Src == nil {
					return
				}
				v := stripCT(e.Src)
				for v.Op == "conv" && len(v.Args) == 1 {
					v = stripCT(v.Args[0])
				}
				if v.Op != "loopout" || v.Type == nil || len(v.Args) != 1 {
					return
				}
				bt, isB := v.Type.Underlying().(*types.Basic)
				if !isB || bt.Info()&types.IsInteger == 0 {
					return
				}
				bits, uns := intBits(bt)
				if bits == 0 || bits >= 64 {
					return
				}
				loop := loopsByID[v.ID]
				if loop == nil {
					return
				}
				counts := false
				for _, arm := range loop.Iter {
					if nx := arm.Next[v.Name]; nx != nil {
						lv := &Val{Op: "loopvar", ID: v.ID, Name: v.Name, Args: v.Args}
						if d, okD := affOf(nx).Add(affOf(lv), -1).IsConst(); okD && d > 0 {
							counts = true
						}
					}
				}
				if !counts {
					return
				}
				max := int64(1)<<uint(bits) - 1
				if !uns {
					max = int64(1)<<uint(bits-1) - 1
				}
				fits := loop.Count != nil && !affOf(loop.Count).Top && condHolds(conds, loop.Count, "<=", mkInt(max))
				nprefix++
				rep.Ob("O5-counter-in-prefix-type-fits", fmt.Sprintf("%s:%s", key, originName(e.Fn)), fits, a.P.Pos(e.Pos),
					fmt.Sprintf("%s is a counter of type %s incremented once per element and written as the prefix: nothing shows that the number of elements (%s) fits, so it wraps around silently", e.Src.Pretty(), typeStr(v.Type), valOrNil(loop.Count)))
			})
			// collect failing guard conditions on this path (top-level conds cover aborted iterations too)
			for _, c := range p.Conds {
				v := c.V
				if v.Op != "binop" {
					continue
				}
				// a guard over any narrowed length: reconstruct the narrowed value from the condition itself
				for _, cand := range guardCandidates(v) {
					if g, failing := overflowGuard(c, cand); g && failing {
						failingGuards = append(failingGuards, c)
					}
				}
			}
			// a failing guard hidden inside an alternative of an inlined callee (or a completed loop iteration): the caller
			// cannot tell that outcome from success – the refusal is swallowed whatever the function returns
			var nested func(evs []*Event)
			nested = func(evs []*Event) {
				for _, ev := range evs {
					for _, arm := range ev.Iter {
						for _, c := range arm.Conds {
							if c.V.Op != "binop" {
								continue
							}
							for _, cand := range guardCandidates(c.V) {
								if g, failing := overflowGuard(c, cand); g && failing {
									rep.Ob("O2-overflow-returns-error", key+":swallowed:"+c.V.Pretty(), false, a.condPos(c, fn),
										fmt.Sprintf("the overflow check %s fails inside a callee whose failing and succeeding outcomes look the same to its caller: the refusal is dropped", c.String()))
								}
							}
						}
						nested(arm.Events)
					}
				}
			}
			nested(p.Events)
			for _, c := range failingGuards {
				kind := pathKind(p)
				rep.Ob("O2-overflow-returns-error", key+":"+c.V.Pretty(), kind == "err", a.P.Pos(c.Pos),
					fmt.Sprintf("the overflow check %s failed on this path, yet the function can return without a non-nil error (path kind %s): the caller drops the error", c.String(), kind))
			}
		}
	}
	for _, ct := range a.U.Types {
		r := a.Result(ct)
		if !rep.Ob("O0-analysable", ct.Name, r.EncErr == nil && len(r.EncPaths) > 0, a.P.Pos(ct.Encode.Pos()), fmt.Sprint("Encode not analysable: ", r.EncErr)) {
			continue
		}
		check(ct.Name+".Encode", ct.Encode, r.EncPaths)
		// O6: O1 finds prefixes by their shape (a number written from a narrowed length). Which fields HAVE a prefix is
		// not a matter of shape: every counted list and every length-prefixed text of the type's wire layout must have
		// its prefix among the writes O1 examined and found guarded – a prefix written some other way (assembled in a
		// scratch array, shifted out byte by byte) with a check of its own is not one this rule can vouch for
		tl := a.Layouts(ct)
		if tl.EncMain == nil {
			continue
		}
		var gold []*FieldLayout
		if g, err := loadGolden(); err == nil {
			gold = g.Types[ct.Name]
		}
		if len(gold) > 0 && len(gold) != len(tl.EncMain.Layout.Fields) {
			prefixed := false
			for _, gf := range gold {
				if gf.Kind == "list" || gf.Kind == "ptext" {
					prefixed = true
				}
			}
			if prefixed {
				rep.Ob("O6-every-prefix-of-the-layout-guarded", ct.Name+":layout", false, a.P.Pos(ct.Encode.Pos()),
					fmt.Sprintf("Encode writes %d wire fields where the schema has %d: the counts and length prefixes of the schema's lists and texts cannot be located among them, so nothing shows that they are guarded", len(tl.EncMain.Layout.Fields), len(gold)))
			}
			continue
		}
		for i, f := range tl.EncMain.Layout.Fields {
			var need []*FieldLayout
			kind, elemKind := f.Kind, ""
			if f.Elem != nil {
				elemKind = f.Elem.Kind
			}
			if i < len(gold) && len(gold) == len(tl.EncMain.Layout.Fields) {
				// (the pinned schema says which fields are counted or prefixed, however the tree writes them)
				kind = gold[i].Kind
				if gold[i].Elem != nil {
					elemKind = gold[i].Elem.Kind
				}
			}
			switch kind {
			case "ptext":
				need = append(need, f)
			case "list":
				need = append(need, f)
				if elemKind == "ptext" {
					el := f.Elem
					if el == nil {
						el = &FieldLayout{Kind: "irregular"}
					}
					need = append(need, el)
				}
			}
			for j, nf := range need {
				okP := len(nf.Ev) > 0 && nf.Ev[0].Kind == EvWriteInt && guardedPrefix[nf.Ev[0]]
				what := "count"
				if nf.Kind == "ptext" {
					what = "length"
				}
				pos := a.P.Pos(ct.Encode.Pos())
				src := "?"
				if len(nf.Ev) > 0 {
					pos = a.P.Pos(rootPos(nf.Ev[0]))
					if nf.Ev[0].Src != nil {
						src = nf.Ev[0].Src.Pretty()
					}
				}
				rep.Ob("O6-every-prefix-of-the-layout-guarded", fmt.Sprintf("%s#%d.%d(%s)", ct.Name, i, j, f.Name), okP, pos,
					fmt.Sprintf("the %s prefix of field %s is written from %s, which is not a narrowed length behind one of the accepted overflow checks: nothing shows that exactly the values that fit are accepted", what, f.Name, src))
			}
		}
	}
	np := 0
	for _, pp := range a.allPrimPaths() {
		if !hasEvent(pp.paths, isWrite) {
			continue
		}
		np++
		if !rep.Ob("O0-analysable", FuncName(pp.fn), pp.err == nil, a.P.Pos(pp.fn.Pos()), fmt.Sprint(pp.err)) {
			continue
		}
		check(FuncName(pp.fn), pp.fn, pp.paths)
	}
	// O3: at and below the limit the value round-trips – a reader must not refuse a complete value. Every error path of
	// a reader primitive that is not a failed read must be an exact availability check.
	for _, pp := range a.allPrimPaths() {
		if !hasEvent(pp.paths, isRead) || pp.err != nil {
			continue
		}
		rej := a.spuriousRejections(pp.paths, genericRoot(pp.fn))
		rep.Ob("O3-reader-accepts-values-at-the-limit", FuncName(pp.fn), len(rej) == 0, a.P.Pos(pp.fn.Pos()),
			"the reader can refuse a complete value: "+strings.Join(rej, "; "))
		// O4: a list at the limit has as many elements as the largest prefix says: the loop that reads them must be one
		// whose trip count is known for every count of the prefix type – a counter of the prefix's own type tested with
		// `<=` steps past the type's maximum and starts again when the count is that maximum
		seenLoop := map[int]bool{}
		for _, p := range pp.paths {
			walkEvents(p.Events, func(e *Event, _ int) {
				if e.Kind != EvRep || seenLoop[e.LoopID] || !altHasWire(e) {
					return
				}
				seenLoop[e.LoopID] = true
				rep.Ob("O4-list-loop-counted-for-every-count", fmt.Sprintf("%s:loop#%d", FuncName(pp.fn), len(seenLoop)), e.Bounded != "", a.P.Pos(e.Pos),
					"the loop reading the elements is not shown to run exactly once per element for every count the prefix type can hold (trip count "+valOrNil(e.Count)+"): a counter that wraps at the type's limit, or a test other than counter-against-count")
			})
		}
	}
	rep.Counts["length_prefix_writes"] = nprefix
	rep.Counts["writer_primitives_and_instances"] = np
	rep.Floor("length_prefix_writes", nprefix, 100)
	rep.Sample(map[string]interface{}{"accepted_guards": []string{"if int(T(n)) != n { return err }", "if n > <max of T> { return err }"}, "sink": "binary.Write(buf, order, T(len(x)))"})
}

func originName(fn *ssa.Function) string {
	if o := fn.Origin(); o != nil {
		fn = o
	}
	return FuncName(fn)
}

// guardCandidates: narrowed values T(L) that a comparison might be guarding.
func guardCandidates(v *Val) []*Val {
	var out []*Val
	for _, side := range v.Args {
		side.Walk(func(x *Val) bool {
			if _, ok := narrowingLenPrefix(x); ok {
				out = append(out, stripCT(x))
			}
			return true
		})
	}
	// max-compare form: L > const – synthesise candidates for every unsigned width
	if len(out) == 0 {
		for i, side := range v.Args {
			other := v.Args[1-i]
			s := stripCT(side)
			for s.Op == "conv" {
				s = stripCT(s.Args[0])
			}
			if s.Contains(func(x *Val) bool { return x.Op == "len" }) {
				if _, ok := stripIntConv(other).Int64(); ok {
					for _, t := range []types.Type{types.Typ[types.Uint8], types.Typ[types.Uint16], types.Typ[types.Uint32]} {
						out = append(out, &Val{Op: "conv", Name: "convert", Args: []*Val{s}, Type: t})
					}
				}
			}
		}
	}
	return out
}

// atomicPtrNeverNil: field `field` of the module's struct type `named` is a sync/atomic.Pointer that never holds nil:
// every Store/Swap/CompareAndSwap on it in the module publishes the address of a fresh variable, every value of the
// struct type is made by a function that stores into the field before it returns (so before anyone else can load),
// and no value of the type exists that was not made that way (no package-level or embedded value of the struct type).
func (s *safety) atomicPtrNeverNil(named *types.Named, field int) (bool, string) {
	key := fmt.Sprintf("%s.%d", named.String(), field)
	if s.atomicMemo == nil {
		s.atomicMemo = map[string]string{}
	}
	if r, ok := s.atomicMemo[key]; ok {
		return r == "", "atomic pointer " + key + ": set by the constructor of every instance, only ever replaced by addresses of fresh variables"
	}
	a := s.a
	reason := ""
	fail := func(r string) {
		if reason == "" {
			reason = r
		}
	}
	isField := func(v ssa.Value) (*ssa.FieldAddr, bool) {
		fa, ok := v.(*ssa.FieldAddr)
		if !ok || fa.Field != field {
			return nil, false
		}
		pt, ok := fa.X.Type().Underlying().(*types.Pointer)
		if !ok {
			return nil, false
		}
		n, ok := pt.Elem().(*types.Named)
		return fa, ok && n == named
	}
	for fn := range a.P.AllFuncs {
		if !a.P.InModule(fn) || fn.Blocks == nil || a.P.IsTestFile(fn.Pos()) {
			continue
		}
		var allocs []*ssa.Alloc
		type storeAt struct {
			fa *ssa.FieldAddr
			b  *ssa.BasicBlock
		}
		var stores []storeAt
		for _, b := range fn.Blocks {
			for _, in := range b.Instrs {
				switch in := in.(type) {
				case *ssa.Alloc:
					if pt, ok := in.Type().Underlying().(*types.Pointer); ok {
						if n, ok := pt.Elem().(*types.Named); ok && n == named {
							allocs = append(allocs, in)
						}
					}
				case ssa.CallInstruction:
					c := in.Common()
					callee := c.StaticCallee()
					if callee == nil || len(c.Args) == 0 || !strings.HasPrefix(fullName(callee), "(*sync/atomic.Pointer[") {
						continue
					}
					fa, ok := isField(c.Args[0])
					if !ok {
						continue
					}
					m := fullName(callee)
					m = m[strings.LastIndex(m, ".")+1:]
					var stored ssa.Value
					switch m {
					case "Store", "Swap":
						stored = c.Args[1]
					case "CompareAndSwap":
						stored = c.Args[2]
					case "Load":
						continue
					default:
						fail("method " + m + " of the atomic pointer is outside the model")
						continue
					}
					if !freshNonNil(stored, 0) {
						fail("a value that is not the address of a fresh variable is published at " + a.P.Pos(in.Pos()))
					}
					if m == "Store" {
						stores = append(stores, storeAt{fa, in.Block()})
					}
				}
			}
		}
		for _, al := range allocs {
			// the function that makes the value stores into the field on every way to a return
			ok := false
			for _, st := range stores {
				if st.fa.X != ssa.Value(al) {
					continue
				}
				dominatesAll := true
				for _, b := range fn.Blocks {
					if len(b.Instrs) == 0 {
						continue
					}
					if _, isRet := b.Instrs[len(b.Instrs)-1].(*ssa.Return); isRet && !st.b.Dominates(b) {
						dominatesAll = false
					}
				}
				if dominatesAll {
					ok = true
				}
			}
			if !ok {
				fail("a " + named.Obj().Name() + " is made at " + a.P.Pos(al.Pos()) + " without its atomic pointer being set before the function returns")
			}
		}
	}
	// no value of the struct type outside the constructors: package-level values and fields of other types
	var holds func(t types.Type, depth int) bool
	holds = func(t types.Type, depth int) bool {
		if depth > 4 {
			return false
		}
		if n, ok := t.(*types.Named); ok && n == named {
			return true
		}
		switch u := t.Underlying().(type) {
		case *types.Struct:
			for i := 0; i < u.NumFields(); i++ {
				if holds(u.Field(i).Type(), depth+1) {
					return true
				}
			}
		case *types.Array:
			return holds(u.Elem(), depth+1)
		}
		return false
	}
	for _, pk := range a.P.Pkgs {
		scope := pk.Types.Scope()
		for _, n := range scope.Names() {
			switch o := scope.Lookup(n).(type) {
			case *types.Var:
				if holds(o.Type(), 0) {
					fail("package-level value " + o.Name() + " of the struct type starts with a nil atomic pointer")
				}
			case *types.TypeName:
				if nt, ok := o.Type().(*types.Named); ok && nt != named {
					if st, ok := nt.Underlying().(*types.Struct); ok {
						for i := 0; i < st.NumFields(); i++ {
							if holds(st.Field(i).Type(), 0) {
								fail("type " + o.Name() + " embeds the struct by value")
							}
						}
					}
				}
			}
		}
	}
	s.atomicMemo[key] = reason
	return reason == "", "atomic pointer " + key + ": set by the constructor of every instance, only ever replaced by addresses of fresh variables"
}

// IntType2Len: the length of the indexed operand when it is an array (or pointer to array) – a constant of its type.
func (e *Event) IntType2Len(x *Val) *Val {
	t := e.IntType
	if t == nil && x != nil {
		t = x.Type
	}
	for i := 0; i < 2 && t != nil; i++ {
		switch u := t.Underlying().(type) {
		case *types.Array:
			return mkInt(u.Len())
		case *types.Pointer:
			t = u.Elem()
			continue
		}
		break
	}
	return mkLen(x)
}

// genericRoot: fn is a generic function's own body, or an instantiation some of whose type arguments are themselves
// type parameters (the instance a generic caller makes): type parameters are symbolic in it.
func genericRoot(fn *ssa.Function) bool {
	if fn.TypeParams().Len() == 0 {
		return false
	}
	if len(fn.TypeArgs()) == 0 {
		return true
	}
	for _, ta := range fn.TypeArgs() {
		if _, isTP := ta.(*types.TypeParam); isTP {
			return true
		}
	}
	return false
}


// wrapFreeGuard: the expression (one side of an availability comparison) is computed without the possibility of a
// wrap-around as far as values off the wire are concerned: no product, sum or shift of a wire-derived value in an
// integer type narrower than 64 bits, and no conversion of a wire-derived value to a type narrower than the one it has.
func wrapFreeGuard(v *Val) bool {
	ok := true
	fromWire := func(x *Val) bool {
		return x != nil && x.Contains(func(y *Val) bool { return y.Op == "wire" || y.Op == "short" || y.Op == "bufbytes" || y.Op == "bufnext" })
	}
	v.Walk(func(x *Val) bool {
		if !ok {
			return false
		}
		switch x.Op {
		case "binop":
			switch x.Name {
			case "*", "+", "<<":
				if !fromWire(x) {
					return true
				}
				bits, known := intBits2(x.Type)
				if !known {
					for _, a := range x.Args {
						if a != nil && a.Type != nil {
							if b2, k2 := intBits2(a.Type); k2 && (bits == 0 || b2 < bits) {
								bits, known = b2, true
							}
						}
					}
				}
				if known && bits < 64 {
					// a narrow product is harmless when the factors themselves are narrow enough: u16 * const in u32
					if x.Name == "*" && len(x.Args) == 2 {
						for i := 0; i < 2; i++ {
							if k, isC := x.Args[i].Int64(); isC && k > 0 {
								inner := stripCT(x.Args[1-i])
								for inner.Op == "conv" && len(inner.Args) == 1 {
									src := stripCT(inner.Args[0])
									sb, sk := intBits2(src.Type)
									tb, tk := intBits2(inner.Type)
									if !sk || !tk || tb < sb {
										break
									}
									inner = src
								}
								if ib, ik := intBits2(inner.Type); ik && ib < bits {
									lim := int64(1) << uint(bits-ib)
									if k <= lim {
										return true
									}
								}
							}
						}
					}
					ok = false
					return false
				}
			}
		case "conv":
			if len(x.Args) == 1 && fromWire(x.Args[0]) {
				src := stripCT(x.Args[0])
				sb, sk := intBits2(src.Type)
				tb, tk := intBits2(x.Type)
				if sk && tk && tb < sb {
					ok = false
					return false
				}
			}
		}
		return true
	})
	return ok
}

// nonNilPtrGlobals: the package-level variables assigned exactly once, by a package initialiser, with a fresh
// allocation (or the result of a constructor every return of which is one): never nil once initialisation is over.
func (a *Analysis) nonNilPtrGlobals() map[*ssa.Global]bool {
	a.ptrGlobalsOnce.Do(func() {
		out := map[*ssa.Global]bool{}
		stores := map[*ssa.Global][]*ssa.Store{}
		for fn := range a.P.AllFuncs {
			if !a.P.InModule(fn) || fn.Blocks == nil || a.P.IsTestFile(fn.Pos()) {
				continue
			}
			for _, b := range fn.Blocks {
				for _, in := range b.Instrs {
					if st, ok := in.(*ssa.Store); ok {
						if g, ok := st.Addr.(*ssa.Global); ok {
							stores[g] = append(stores[g], st)
						}
					}
				}
			}
		}
		for g, sts := range stores {
			ok := len(sts) == 1
			for _, st := range sts {
				fn := st.Parent()
				if !isInitFunc(fn) {
					ok = false
				}
				if !freshNonNil(st.Val, 0) {
					ok = false
				}
			}
			out[g] = ok
		}
		a.ptrGlobals = out
	})
	return a.ptrGlobals
}
