package main

import (
	"fmt"
	"os"
	"go/types"
	"sort"
	"strings"

	"golang.org/x/tools/go/ssa"
)

// textPrim is one fixed-text primitive analysed under one valuation of its bool parameters.
type textPrim struct {
	fn      *ssa.Function
	val     string // "", "padLeft=true", "padLeft=false"
	left    *bool
	writer  bool
	list    bool
	field   *FieldLayout // the fixed field (element for list variants)
	outer   *FieldLayout
	hasPad  bool // has a pad (rune) parameter
	problem string
}

// roleArgs builds symbolic arguments named by role, with the bool parameters fixed by the valuation bits.
func roleArgs(fn *ssa.Function, bits int) (args []*Val, left *bool, nbool int, hasPad bool) {
	counts := map[string]int{}
	bi := 0
	for i, p := range fn.Params {
		t := p.Type()
		role := ""
		switch u := t.Underlying().(type) {
		case *types.Basic:
			switch {
			case u.Kind() == types.Bool:
				v := bits&(1<<uint(bi)) != 0
				bi++
				args = append(args, mkBool(v))
				vv := v
				left = &vv
				continue
			case u.Kind() == types.Int32:
				role = "pad"
				hasPad = true
			case u.Info()&types.IsInteger != 0:
				role = "N"
			case u.Info()&types.IsString != 0:
				role = "s"
			}
		case *types.Slice:
			role = "values"
		case *types.Pointer:
			role = "buf"
		case *types.Signature:
			role = "fn"
		}
		if role == "" {
			role = "x"
		}
		if counts[role] > 0 {
			role = fmt.Sprintf("%s%d", role, counts[role])
		}
		counts[strings.TrimRight(role, "0123456789")]++
		args = append(args, &Val{Op: "param", ID: i, Name: role, Type: t})
	}
	return args, left, bi, hasPad
}

func (a *Analysis) textPrims(rep *Report) []*textPrim {
	var out []*textPrim
	for _, f := range a.U.Prims {
		_, _, nb, _ := roleArgs(f, 0)
		for bits := 0; bits < 1<<uint(nb); bits++ {
			args, left, _, hasPad := roleArgs(f, bits)
			e := a.engineFor(f)
			paths, err := e.AnalyzeRoot(f, args)
			if err != nil {
				continue
			}
			tp := &textPrim{fn: f, left: left, hasPad: hasPad}
			if left != nil {
				tp.val = fmt.Sprintf("padLeft=%v", *left)
			}
			var fields []*FieldLayout
			canon := ""
			nOK := 0
			var okPaths []*Path
			for _, p := range paths {
				if pathKind(p) == "ok" && !outsideDomain(p) {
					okPaths = append(okPaths, p)
				}
			}
			nOK = len(okPaths)
			sinkFor := func(p *Path) func(ids []int, loop int) (string, int, *Val, bool) {
				return func(ids []int, loop int) (string, int, *Val, bool) {
					if len(p.Ret) == 0 {
						return "", -1, nil, false
					}
					r := p.Ret[0]
					for _, id := range ids {
						if containsWire(r, id) {
							return "ret", 0, r, true
						}
					}
					if loop != 0 && containsCollect(r, loop) {
						return "ret", 0, r, true
					}
					return "", -1, nil, false
				}
			}
			if hasEvent(okPaths, isRead) {
				for _, p := range okPaths {
					c := &layoutCtx{u: a.U, path: p}
					fs := c.extractDec(p.Events, sinkFor(p))
					cs := (&Layout{Fields: fs}).Canon()
					if canon == "" {
						canon, fields = cs, fs
					} else if canon != cs {
						tp.problem = "success paths render different layouts: " + canon + " / " + cs
					}
				}
			} else if hasEvent(okPaths, isWrite) {
				tp.writer = true
				// the success paths of a writer are the alternative arms of one rendering
				if len(okPaths) == 1 {
					c := &layoutCtx{u: a.U, path: okPaths[0]}
					fields = c.extractEnc(okPaths[0].Events)
				} else {
					alt := &Event{Kind: EvAlt}
					for _, p := range okPaths {
						alt.Iter = append(alt.Iter, &Arm{Conds: p.Conds, Events: p.Events})
					}
					c := &layoutCtx{u: a.U, path: &Path{Events: []*Event{alt}}} // (each arm carries its own conditions)
					fields = c.extractEnc([]*Event{alt})
				}
			}
			if os.Getenv("FPCHECK_DEBUG") != "" {
				fmt.Printf("textprim %s bits=%d ok=%d fields=%s\n", FuncName(f), bits, nOK, (&Layout{Fields: fields}).Canon())
			}
			if nOK == 0 || len(fields) != 1 {
				continue
			}
			f0 := fields[0]
			switch {
			case f0.Kind == "fixed":
				tp.field, tp.outer = f0, f0
			case f0.Kind == "list" && f0.Elem != nil && f0.Elem.Kind == "fixed":
				tp.list, tp.field, tp.outer = true, f0.Elem, f0
			case f0.Kind == "irregular" && strings.Contains(f0.Note, "without data bytes"):
				continue // a pad-only helper (it writes no value bytes); it is checked where it is inlined
			case f0.Kind == "irregular" && (strings.Contains(f0.Note, "text field") || strings.Contains(f0.Note, "pad")):
				tp.field, tp.outer = f0, f0
			default:
				continue
			}
			out = append(out, tp)
		}
	}
	return out
}

// ---------------------------------------------------------------------------
// C13

func (a *Analysis) CheckC13(rep *Report) {
	rep.Explanation = "The fixed-text primitives of package codec are found by what they do (a single text field rendered by byte writes / one exact read), and analysed with symbolic width N, symbolic pad and each valuation of their bool parameters. X1: on every success path of a writer the bytes appended sum to exactly N (cut arm: len(data[:N]) = N; pad arm: (N - len) + len = N) – decided in the affine domain for every N and every value length. X2: the cut keeps the first N bytes of the value's bytes (lower bound absent, no rune conversion). X3: pad bytes are the pad parameter converted to a byte, emitted before the data iff padLeft. X4: a reader consumes exactly N bytes and returns them with only the boundary on the pad side moved, each move conditioned on the boundary byte being equal to that same pad byte (the boundary-scan idiom), or through bytes.TrimLeft/TrimRight whose cutset then must denote exactly that byte. X5: writer and reader agree on pad byte and side under every valuation. X6: list variants apply the scalar rendering per element with width, pad and side forwarded unchanged, behind a count prefix; the default-pad wrappers of both directions fix the same pad and side. X7: every call site in the 170 message codecs passes a literal width and pad."
	rep.Trusted = append(trustedBase(), "bytes.Repeat(b, n) has length n*len(b)")
	rep.Exhaustive = true
	tps := a.textPrims(rep)
	nW, nR := 0, 0
	type key struct {
		val  string
		list bool
	}
	writers, readers := map[key][]string{}, map[key][]string{}
	wrapW, wrapR := map[bool][]string{}, map[bool][]string{}
	for _, tp := range tps {
		name := FuncName(tp.fn)
		k := name
		if tp.val != "" {
			k += "[" + tp.val + "]"
		}
		pos := a.P.Pos(tp.fn.Pos())
		if tp.writer {
			nW++
		} else {
			nR++
		}
		f := tp.field
		if !rep.Ob("X0-single-rendering", k, tp.problem == "", pos, tp.problem) {
			continue
		}
		if tp.writer {
			if !rep.Ob("X1-exactly-N-bytes", k, f.Kind == "fixed", pos, "writer does not emit the same number of bytes on every path: "+f.Note) {
				continue
			}
			rep.Ob("X1-exactly-N-bytes", k+":width", f.WidthSym == "N", pos, "bytes emitted total "+widthOf(f)+", not the width parameter")
			rep.Ob("X2-cut-is-first-N-bytes", k, len(f.ValueOps) == 0 && (f.Name == "s" || tp.list), pos, "value bytes are not taken verbatim from byte 0: "+strings.Join(f.ValueOps, "; ")+" (subject "+f.Name+")")
		} else {
			if !rep.Ob("X4-reads-exactly-N", k, f.Kind == "fixed" && f.WidthSym == "N", pos, "reader does not consume exactly the width parameter: "+f.Note+" "+widthOf(f)) {
				continue
			}
			rep.Ob("X4-strips-only-pad-side", k, len(f.ValueOps) == 0, pos, "returned text is derived through: "+strings.Join(f.ValueOps, "; "))
		}
		if tp.hasPad {
			wantSide := "right"
			if tp.left != nil && *tp.left {
				wantSide = "left"
			}
			if tp.writer {
				rep.Ob("X3-pad-side", k, f.Side == wantSide, pos, fmt.Sprintf("pads on the %s with %s", f.Side, tp.val))
				rep.Ob("X3-pad-byte", k, f.Pad == "pad", pos, "pad bytes are "+f.Pad+", not the pad parameter as a byte")
			} else {
				rep.Ob("X4-strip-side", k, f.Side == wantSide, pos, fmt.Sprintf("strips on the %s with %s", f.Side, tp.val))
				rep.Ob("X4-strip-byte-exact", k, f.Pad == "pad", pos, "the bytes stripped are "+f.Pad+", which is not exactly the byte the writer pads with (byte(pad)) for every pad value")
			}
			kk := key{tp.val, tp.list}
			if tp.writer {
				writers[kk] = append(writers[kk], anon(tp.outer))
			} else {
				readers[kk] = append(readers[kk], anon(tp.outer))
			}
		} else {
			if tp.writer {
				wrapW[tp.list] = append(wrapW[tp.list], anon(tp.outer))
			} else {
				wrapR[tp.list] = append(wrapR[tp.list], anon(tp.outer))
			}
		}
		if len(rep.Samples) < 8 {
			rep.Sample(map[string]interface{}{"primitive": k, "direction": map[bool]string{true: "write", false: "read"}[tp.writer], "rendering": tp.outer.Canon()})
		}
	}
	// X5 / X6
	setEq := func(a, b []string) (bool, string) {
		sa, sb := uniq(a), uniq(b)
		return strings.Join(sa, " | ") == strings.Join(sb, " | "), strings.Join(sa, " | ") + "   vs   " + strings.Join(sb, " | ")
	}
	for _, list := range []bool{false, true} {
		for _, v := range []string{"padLeft=true", "padLeft=false"} {
			kk := key{v, list}
			// list variants come in BE and LE: compare the element/prefix-order-stripped form for the scalar comparison, full form between directions
			ok, d := setEq(writers[kk], readers[kk])
			rep.Ob("X5-writer-reader-agree", fmt.Sprintf("list=%v,%s", list, v), ok && len(writers[kk]) > 0, "-", "writers and readers of fixed text do not render the same field: "+d)
		}
		ok, d := setEq(wrapW[list], wrapR[list])
		rep.Ob("X6-default-wrappers-agree", fmt.Sprintf("list=%v", list), ok && len(wrapW[list]) > 0, "-", "default-pad wrappers of the two directions differ: "+d)
	}
	// X6: element rendering of list variants equals the scalar rendering under the same valuation
	for _, v := range []string{"padLeft=true", "padLeft=false"} {
		var scalar []string
		for _, tp := range tps {
			if !tp.list && tp.val == v && tp.hasPad && tp.field.Kind == "fixed" {
				c := *tp.field
				c.Name = ""
				scalar = append(scalar, c.Canon())
			}
		}
		for _, tp := range tps {
			if tp.list && tp.val == v && tp.hasPad && tp.field.Kind == "fixed" {
				c := *tp.field
				c.Name = ""
				ok := false
				for _, s := range scalar {
					if s == c.Canon() {
						ok = true
					}
				}
				rep.Ob("X6-list-forwards-parameters", FuncName(tp.fn)+"["+v+"]", ok, a.P.Pos(tp.fn.Pos()), "per-element rendering "+c.Canon()+" is not the scalar rendering "+strings.Join(uniq(scalar), " | ")+" with width, pad and side forwarded")
			}
		}
	}
	// X7 call sites
	nsites := 0
	for _, ct := range a.U.Types {
		tl := a.Layouts(ct)
		for dir, pl := range map[string]*PathLayout{"Encode": tl.EncMain, "Decode": tl.DecMain} {
			if pl == nil {
				continue
			}
			for _, f := range pl.Layout.Fields {
				for _, x := range []*FieldLayout{f, f.Elem} {
					if x == nil || x.Kind != "fixed" {
						continue
					}
					nsites++
					padConst := isDecimal(x.Pad) || x.Pad == ""
					rep.Ob("X7-literal-width-and-pad", fmt.Sprintf("%s.%s.%s", ct.Name, dir, f.Name), x.Width >= 0 && x.WidthSym == "" && padConst, a.P.Pos(f.Pos), fmt.Sprintf("fixed text field with width %s and pad %q is not built from literals", widthOf(x), x.Pad))
				}
			}
		}
	}
	rep.Counts["fixed_text_writers_x_valuations"] = nW
	rep.Counts["fixed_text_readers_x_valuations"] = nR
	rep.Counts["fixed_text_call_sites"] = nsites
	rep.Floor("fixed_text_writers_x_valuations", nW, 6)
	rep.Floor("fixed_text_readers_x_valuations", nR, 6)
	rep.Floor("fixed_text_call_sites", nsites, 1000)
}

func widthOf(f *FieldLayout) string {
	if f.WidthSym != "" {
		return f.WidthSym
	}
	return fmt.Sprint(f.Width)
}

func isDecimal(s string) bool {
	if s == "" {
		return false
	}
	for _, c := range s {
		if c < '0' || c > '9' {
			return false
		}
	}
	return true
}

func uniq(s []string) []string {
	m := map[string]bool{}
	for _, x := range s {
		m[x] = true
	}
	var out []string
	for x := range m {
		out = append(out, x)
	}
	sort.Strings(out)
	return out
}

// anon: canonical rendering without the subject's name (writers name the value parameter, readers the result).
func anon(f *FieldLayout) string {
	c := *f
	c.Name = ""
	return c.Canon()
}

// outsideDomain: the path needs a negative width (or count) parameter – the property speaks about widths N >= 0, and
// every call site passes a non-negative literal (X7).
func outsideDomain(p *Path) bool { return outsideDomainConds(p.Conds) }

func outsideDomainConds(conds []Cond) bool {
	for _, c := range conds {
		v := c.V
		if v.Op != "binop" || len(v.Args) != 2 {
			continue
		}
		d := affOf(v.Args[0]).Add(affOf(v.Args[1]), -1)
		if d.Top || len(d.Term) == 0 {
			continue
		}
		var facts []intFact
		onlyParams := true
		for k := range d.Term {
			sym := d.Sym[k]
			if sym.Op != "param" || sym.Type == nil || !isIntegerType(sym.Type) {
				onlyParams = false
			}
			facts = append(facts, intFact{G: affOf(sym), Lo: i64(0)})
		}
		if !onlyParams {
			continue
		}
		lo, hi := boundsOf(d, facts)
		op := v.Name
		if !c.Taken {
			op = map[string]string{"<": ">=", ">=": "<", ">": "<=", "<=": ">"}[op]
		}
		switch op {
		case "<":
			if lo != nil && *lo >= 0 {
				return true
			}
		case "<=":
			if lo != nil && *lo >= 1 {
				return true
			}
		case ">":
			if hi != nil && *hi <= 0 {
				return true
			}
		case ">=":
			if hi != nil && *hi <= -1 {
				return true
			}
		}
	}
	return false
}
