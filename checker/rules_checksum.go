package main

import (
	"os"
	"fmt"
	"go/constant"
	"go/token"
	"go/types"
	"math"
	"strings"

	"golang.org/x/tools/go/ssa"
)

// ---------------------------------------------------------------------------
// E8 – interval analysis over SSA (integers, wrap-aware)

type itv struct {
	lo, hi       float64 // ±Inf allowed; integers up to 2^64 are exact enough for containment tests here
	bottom       bool
}

func point(x float64) itv   { return itv{lo: x, hi: x} }
func (a itv) String() string { return fmt.Sprintf("[%s, %s]", fnum(a.lo), fnum(a.hi)) }
func fnum(x float64) string {
	if math.IsInf(x, 1) {
		return "+inf"
	}
	if math.IsInf(x, -1) {
		return "-inf"
	}
	return fmt.Sprintf("%.0f", x)
}
func (a itv) join(b itv) itv {
	if a.bottom {
		return b
	}
	if b.bottom {
		return a
	}
	return itv{lo: math.Min(a.lo, b.lo), hi: math.Max(a.hi, b.hi)}
}
func (a itv) within(b itv) bool { return a.bottom || (a.lo >= b.lo && a.hi <= b.hi) }
func (a itv) eq(b itv) bool     { return a.bottom == b.bottom && a.lo == b.lo && a.hi == b.hi }

func typeRange(t types.Type) (itv, bool) {
	b, ok := t.Underlying().(*types.Basic)
	if !ok || b.Info()&types.IsInteger == 0 {
		return itv{}, false
	}
	bits, uns := intBits(b)
	if bits == 0 {
		return itv{}, false
	}
	if uns {
		return itv{lo: 0, hi: math.Pow(2, float64(bits)) - 1}, true
	}
	return itv{lo: -math.Pow(2, float64(bits-1)), hi: math.Pow(2, float64(bits-1)) - 1}, true
}

type intervalResult struct {
	vals     map[ssa.Value]itv
	overflow map[ssa.Instruction]string // instructions whose mathematical result may leave the type's range (value wraps)
	rets     []itv
}

func pow2ceil(x float64) float64 {
	p := 1.0
	for p <= x {
		p *= 2
	}
	return p
}

var intervalDepth int

// context of an inter-procedural step of the interval analysis: what the call site knows about the callee's parameters
// (the interval of a number argument, the function a function-valued argument is)
var (
	intervalParamItv = map[*ssa.Parameter]itv{}
	intervalParamFn  = map[*ssa.Parameter]*ssa.Function{}
)

// staticFuncValue: v is a function known at this point (a function, or a closure that captures nothing).
func staticFuncValue(v ssa.Value) *ssa.Function {
	switch x := v.(type) {
	case *ssa.Function:
		return x
	case *ssa.MakeClosure:
		if f, ok := x.Fn.(*ssa.Function); ok && len(x.Bindings) == 0 {
			return f
		}
	case *ssa.ChangeType:
		return staticFuncValue(x.X)
	case *ssa.Parameter:
		return intervalParamFn[x]
	}
	return nil
}

// intervals runs the analysis to a fixpoint with widening at phis.
func intervals(fn *ssa.Function) *intervalResult {
	res := &intervalResult{vals: map[ssa.Value]itv{}, overflow: map[ssa.Instruction]string{}}
	get := func(v ssa.Value) itv {
		if c, ok := v.(*ssa.Const); ok {
			if c.Value != nil && c.Value.Kind() == constant.Int {
				f, _ := constant.Float64Val(constant.ToFloat(c.Value))
				return point(f)
			}
			if c.Value == nil {
				return point(0)
			}
		}
		if x, ok := res.vals[v]; ok {
			return x
		}
		if p, isParam := v.(*ssa.Parameter); isParam {
			if x, ok := intervalParamItv[p]; ok {
				return x
			}
		}
		if _, isInstr := v.(ssa.Instruction); isInstr {
			return itv{bottom: true}
		}
		if r, ok := typeRange(v.Type()); ok {
			return r
		}
		return itv{lo: math.Inf(-1), hi: math.Inf(1)}
	}
	wrap := func(in ssa.Instruction, x itv, t types.Type) itv {
		r, ok := typeRange(t)
		if !ok || x.bottom {
			return x
		}
		if x.within(r) {
			return x
		}
		res.overflow[in] = fmt.Sprintf("mathematical range %s exceeds %s %s: the value wraps", x, typeStr(t), r)
		return r
	}
	for _, p := range fn.Params {
		if x, ok := intervalParamItv[p]; ok {
			res.vals[p] = x // what the call site knows (seen by the branch pruning below)
		}
	}
	visits := map[*ssa.Phi]int{}
	for iter := 0; iter < 200; iter++ {
		changed := false
		// branches the current ranges decide (`if modulus != 0` with modulus = 256 handed in): values that only flow in
		// over a dead edge do not reach the phi. Ranges only grow from one round to the next, so an edge found dead in
		// the final round was dead in every earlier one.
		deadEdge := deadEdgeFunc(fn, res)
		set := func(v ssa.Value, x itv) {
			if old, ok := res.vals[v]; !ok || !old.eq(x) {
				res.vals[v] = x
				changed = true
			}
		}
		for _, b := range fn.Blocks {
			for _, in := range b.Instrs {
				switch in := in.(type) {
				case *ssa.Phi:
					x := itv{bottom: true}
					for i, e := range in.Edges {
						if i < len(in.Block().Preds) && deadEdge(in.Block().Preds[i], in.Block()) {
							continue
						}
						x = x.join(get(e))
					}
					if old, ok := res.vals[in]; ok && !old.bottom && !x.bottom {
						visits[in]++
						if visits[in] > 3 { // widen
							if x.hi > old.hi {
								x.hi = math.Inf(1)
							}
							if x.lo < old.lo {
								x.lo = math.Inf(-1)
							}
							x = x.join(old)
						}
					}
					if r, ok := typeRange(in.Type()); ok && !x.bottom && !x.within(r) {
						// the phi itself cannot hold more than its type: the producing op is where it wrapped
						x = itv{lo: math.Max(x.lo, r.lo), hi: math.Min(x.hi, r.hi)}
					}
					set(in, x)
				case *ssa.BinOp:
					x, y := get(in.X), get(in.Y)
					if x.bottom || y.bottom {
						continue
					}
					var r itv
					nonneg := x.lo >= 0 && y.lo >= 0
					switch in.Op {
					case token.ADD:
						r = itv{lo: x.lo + y.lo, hi: x.hi + y.hi}
					case token.SUB:
						r = itv{lo: x.lo - y.hi, hi: x.hi - y.lo}
					case token.MUL:
						c := []float64{x.lo * y.lo, x.lo * y.hi, x.hi * y.lo, x.hi * y.hi}
						r = itv{lo: math.Min(math.Min(c[0], c[1]), math.Min(c[2], c[3])), hi: math.Max(math.Max(c[0], c[1]), math.Max(c[2], c[3]))}
					case token.AND:
						switch {
						case y.lo == y.hi && y.lo >= 0:
							r = itv{lo: 0, hi: y.hi}
						case x.lo == x.hi && x.lo >= 0:
							r = itv{lo: 0, hi: x.hi}
						case nonneg:
							r = itv{lo: 0, hi: math.Min(x.hi, y.hi)}
						default:
							r, _ = typeRange(in.Type())
						}
					case token.OR, token.XOR:
						if nonneg && !math.IsInf(x.hi, 1) && !math.IsInf(y.hi, 1) {
							r = itv{lo: 0, hi: pow2ceil(math.Max(x.hi, y.hi)) - 1}
						} else {
							r, _ = typeRange(in.Type())
						}
					case token.REM:
						if y.lo == y.hi && y.lo > 0 {
							c := y.lo
							switch {
							case x.lo >= 0:
								r = itv{lo: 0, hi: math.Min(x.hi, c-1)}
							case x.hi <= 0:
								r = itv{lo: -(c - 1), hi: 0}
							default:
								r = itv{lo: -(c - 1), hi: c - 1}
							}
						} else {
							r, _ = typeRange(in.Type())
						}
					case token.QUO:
						if y.lo == y.hi && y.lo > 0 {
							r = itv{lo: math.Trunc(x.lo / y.lo), hi: math.Trunc(x.hi / y.lo)}
						} else {
							r, _ = typeRange(in.Type())
						}
					case token.SHR:
						if x.lo >= 0 && y.lo == y.hi {
							d := math.Pow(2, y.lo)
							r = itv{lo: math.Floor(x.lo / d), hi: math.Floor(x.hi / d)}
						} else if x.lo >= 0 {
							r = itv{lo: 0, hi: x.hi}
						} else {
							r, _ = typeRange(in.Type())
						}
					case token.SHL:
						if y.lo == y.hi && x.lo >= 0 {
							d := math.Pow(2, y.lo)
							r = itv{lo: x.lo * d, hi: x.hi * d}
						} else {
							r, _ = typeRange(in.Type())
						}
					case token.AND_NOT:
						if x.lo >= 0 {
							r = itv{lo: 0, hi: x.hi}
						} else {
							r, _ = typeRange(in.Type())
						}
					default: // comparisons
						continue
					}
					set(in, wrap(in, r, in.Type()))
				case *ssa.Convert:
					x := get(in.X)
					if x.bottom {
						continue
					}
					if _, ok := typeRange(in.Type()); ok {
						if _, ok2 := typeRange(in.X.Type()); ok2 {
							set(in, wrap(in, x, in.Type()))
							continue
						}
					}
					if r, ok := typeRange(in.Type()); ok {
						set(in, r)
					}
				case *ssa.ChangeType:
					set(in, get(in.X))
				case *ssa.UnOp:
					if in.Op == token.SUB {
						x := get(in.X)
						if !x.bottom {
							set(in, wrap(in, itv{lo: -x.hi, hi: -x.lo}, in.Type()))
						}
						continue
					}
					if r, ok := typeRange(in.Type()); ok {
						set(in, r)
					}
				case *ssa.Return:
				case *ssa.Call:
					// a helper of the same package: use the interval of what it returns (parameters at their type ranges)
					callee := in.Call.StaticCallee()
					if callee == nil && !in.Call.IsInvoke() {
						callee = staticFuncValue(in.Call.Value) // a function handed in by the caller (fold(data, init, step))
					}
					if callee != nil && ssaPkgOf(callee) == ssaPkgOf(fn) && callee.Blocks != nil && callee != fn && intervalDepth < 4 && callee.Signature.Results().Len() == 1 {
						// what this call site knows about the callee's parameters
						savedI, savedF := map[*ssa.Parameter]itv{}, map[*ssa.Parameter]*ssa.Function{}
						for i, a := range in.Call.Args {
							if i >= len(callee.Params) {
								break
							}
							p := callee.Params[i]
							if old, ok := intervalParamItv[p]; ok {
								savedI[p] = old
							}
							if old, ok := intervalParamFn[p]; ok {
								savedF[p] = old
							}
							if _, isNum := typeRange(p.Type()); isNum {
								if x := get(a); !x.bottom {
									intervalParamItv[p] = x
								} else {
									delete(intervalParamItv, p)
								}
							}
							if f := staticFuncValue(a); f != nil {
								intervalParamFn[p] = f
							}
						}
						intervalDepth++
						sub := intervals(callee)
						intervalDepth--
						for i := range in.Call.Args {
							if i >= len(callee.Params) {
								break
							}
							p := callee.Params[i]
							delete(intervalParamItv, p)
							delete(intervalParamFn, p)
							if old, ok := savedI[p]; ok {
								intervalParamItv[p] = old
							}
							if old, ok := savedF[p]; ok {
								intervalParamFn[p] = old
							}
						}
						for k, m := range sub.overflow {
							res.overflow[k] = m
						}
						if len(sub.rets) == 1 && !sub.rets[0].bottom {
							set(in, sub.rets[0])
							continue
						}
					}
					if r, ok := typeRange(in.Type()); ok {
						set(in, r)
					}
				default:
					if v, ok := in.(ssa.Value); ok {
						if r, ok := typeRange(v.Type()); ok {
							set(v, r)
						}
					}
				}
			}
		}
		if !changed {
			break
		}
	}
	for _, b := range fn.Blocks {
		for _, in := range b.Instrs {
			if r, ok := in.(*ssa.Return); ok {
				for _, v := range r.Results {
					x := get(v)
					if i := len(res.rets); i == 0 {
						res.rets = append(res.rets, x)
					} else {
						res.rets[0] = res.rets[0].join(x)
					}
				}
			}
		}
	}
	return res
}

// ---------------------------------------------------------------------------
// byte-sum structure: value path from the input bytes to the result

// byteSumOps checks that every integer operation on the path from the data bytes to the
// return value preserves congruence modulo 256 and that the only reductions are & 0xFF / % 256.
func byteSumOps(fn *ssa.Function) []string {
	var bad []string
	// values derived from a byte element or the accumulator: everything of integer type in this function except loop counters
	isCounter := func(v ssa.Value) bool {
		phi, ok := v.(*ssa.Phi)
		if !ok {
			return false
		}
		if strings.Contains(phi.Comment, "rangeindex") || phi.Comment == "i" {
			return true
		}
		// an induction variable whatever it is called (also the hidden one of `for i := range n`): every edge that
		// depends on the phi is the phi plus or minus a constant
		steps := 0
		for _, e := range phi.Edges {
			if bo, isB := e.(*ssa.BinOp); isB && (bo.Op == token.ADD || bo.Op == token.SUB) {
				_, yc := bo.Y.(*ssa.Const)
				_, xc := bo.X.(*ssa.Const)
				if (bo.X == ssa.Value(phi) && yc) || (bo.Op == token.ADD && bo.Y == ssa.Value(phi) && xc) {
					steps++
					continue
				}
			}
			if _, isC := e.(*ssa.Const); !isC {
				if _, isP := e.(*ssa.Parameter); !isP {
					return false
				}
			}
		}
		return steps > 0
	}
	adds := 0
	paramCtx := map[*ssa.Parameter]itv{}
	// the sum may live in helpers: look at the function and every module function it (transitively) calls
	var fns []*ssa.Function
	seenFn := map[*ssa.Function]bool{}
	var collect func(f *ssa.Function)
	collect = func(f *ssa.Function) {
		if f == nil || seenFn[f] || f.Blocks == nil {
			return
		}
		seenFn[f] = true
		fns = append(fns, f)
		for _, b := range f.Blocks {
			for _, in := range b.Instrs {
				if c, ok := in.(ssa.CallInstruction); ok {
					if callee := c.Common().StaticCallee(); callee != nil && ssaPkgOf(callee) == ssaPkgOf(fn) {
						// constants handed to a helper (`byteSumMod(data, 256)`): what its parameters are on the sum path
						for i, a := range c.Common().Args {
							if i >= len(callee.Params) {
								break
							}
							if k, isC := a.(*ssa.Const); isC && k.Value != nil && k.Value.Kind() == constant.Int {
								f64, _ := constant.Float64Val(constant.ToFloat(k.Value))
								pp := callee.Params[i]
								if old, has := paramCtx[pp]; has {
									paramCtx[pp] = old.join(point(f64))
								} else {
									paramCtx[pp] = point(f64)
								}
							}
						}
						collect(callee)
					}
				}
				// functions handed on as values (the step of a fold) take part in the computation as well
				for _, op := range in.Operands(nil) {
					if op == nil || *op == nil {
						continue
					}
					var f *ssa.Function
					switch x := (*op).(type) {
					case *ssa.Function:
						f = x
					case *ssa.MakeClosure:
						f, _ = x.Fn.(*ssa.Function)
					}
					if f != nil && ssaPkgOf(f) == ssaPkgOf(fn) {
						collect(f)
					}
				}
			}
		}
	}
	collect(fn)
	var blocks []*ssa.BasicBlock
	ivOf := map[*ssa.Function]*intervalResult{}
	for _, f := range fns {
		// (blocks behind a branch the value ranges rule out – an asserted invariant – are not part of the computation)
		var set []*ssa.Parameter
		for _, pp := range f.Params {
			if x, has := paramCtx[pp]; has {
				if _, already := intervalParamItv[pp]; !already {
					intervalParamItv[pp] = x
					set = append(set, pp)
				}
			}
		}
		ivOf[f] = intervals(f)
		for _, pp := range set {
			delete(intervalParamItv, pp)
		}
		dead := deadBlocksByIntervals(f, ivOf[f])
		for _, b := range f.Blocks {
			if !dead[b] {
				blocks = append(blocks, b)
			}
		}
	}
	// the constant an operand is: a literal, or a value the ranges pin to one number (a parameter every call site on
	// the sum path passes the same constant for)
	constOf := func(in ssa.Instruction, v ssa.Value) (int64, bool) {
		if c, ok := v.(*ssa.Const); ok && c.Value != nil && c.Value.Kind() == constant.Int {
			return c.Int64(), true
		}
		if iv := ivOf[in.Parent()]; iv != nil {
			w := v
			for {
				if cv, isCv := w.(*ssa.Convert); isCv {
					w = cv.X
					continue
				}
				break
			}
			if x, ok := iv.vals[w]; ok && !x.bottom && x.lo == x.hi {
				return int64(x.lo), true
			}
		}
		return 0, false
	}
	for _, b := range blocks {
		for _, in := range b.Instrs {
			switch in := in.(type) {
			case *ssa.BinOp:
				if _, ok := typeRange(in.Type()); !ok {
					continue
				}
				if isCounter(in.X) || isCounter(in.Y) {
					continue
				}
				switch in.Op {
				case token.ADD:
					adds++
				case token.AND:
					c, ok := constOf(in, in.Y)
					if !ok {
						c, ok = constOf(in, in.X)
					}
					if !ok || c != 0xFF {
						bad = append(bad, fmt.Sprintf("mask %s is not & 0xFF", in.String()))
					}
				case token.REM:
					c, ok := constOf(in, in.Y)
					if !ok || c != 256 {
						bad = append(bad, fmt.Sprintf("reduction %s is not %% 256", in.String()))
					}
				default:
					bad = append(bad, fmt.Sprintf("operation %s on the sum path is not one of +, & 0xFF, %% 256", in.String()))
				}
			case *ssa.Convert:
				if r, ok := typeRange(in.Type()); ok {
					if r.hi-r.lo+1 < 256 {
						bad = append(bad, "conversion to a type narrower than 8 bits")
					}
				} else if _, isInt := typeRange(in.X.Type()); isInt {
					bad = append(bad, "sum leaves the integers: "+in.String())
				}
			}
		}
	}
	if adds != 1 {
		bad = append(bad, fmt.Sprintf("%d additions on the sum path (exactly one per byte expected)", adds))
	}
	return bad
}

// ---------------------------------------------------------------------------
// C14

func (a *Analysis) CheckC14(rep *Report) {
	rep.Explanation = "For every type registered as a checksum service by codec's init: H1 Calc uses its buffer only through the observers Bytes/Len, never stores through the slice it obtains and passes it only to library functions modelled read-only – it neither consumes nor modifies; H2 Calc reads no mutable package state and calls nothing non-deterministic; H3 the bytes folded are the entire data.Bytes(): one full range in ascending index order with no early exit, or the whole slice handed to hash/crc32; H4 for the byte-sum services an interval analysis over the SSA form (wrap-aware, widening at loop heads) shows the returned value lies in [0,255] for every input length, and every operation on the value path preserves congruence modulo 256 (one addition per byte, reductions only & 0xFF or % 256, conversions among types of at least 8 bits); H5 CRC-16: the byte enters by zero-extension and the state stays within 16 bits; CRC-32: the result is hash/crc32's IEEE checksum of the whole input. Not decided: that the CRC-16 bit loop's constants are those of CRC-16/MODBUS (value-level; the repository's check-value test remains the witness)."
	rep.Trusted = append(trustedBase(), "hash/crc32.ChecksumIEEE is CRC-32/IEEE, pure and read-only")
	rep.Exhaustive = true
	rep.Floor("checksum_services", len(a.U.Services), 4)
	for _, svc := range a.U.Services {
		name := svc.Type.Obj().Name()
		fn := svc.Calc
		pos := a.P.Pos(fn.Pos())
		paths, err := a.engineFor(fn).AnalyzeRoot(fn, nil)
		if !rep.Ob("H0-analysable", name, err == nil, pos, fmt.Sprint(err)) {
			continue
		}
		rep.Ob("H0-algorithm-name-constant", name, svc.Name != "", pos, "Algorithm() does not return one constant name")
		// the property publishes a definition for four names; a service registered under any other name (an Adler-32 or
		// XOR service added beside them) is held to H1 and the no-shared-state part of H2 only
		pinned := map[string]bool{"SSE_BIN": true, "SZSE_BIN": true, "CRC16": true, "CRC32": true}[svc.Name] || svc.Name == ""
		// branches the value ranges rule out (`if checksum > 0xFF { … }` after every step masked to eight bits – an
		// asserted invariant): the paths through them do not exist
		paths = pruneByIntervals(paths, fn, intervals(fn))
		var data *Val
		if len(fn.Params) >= 2 {
			data = &Val{Op: "param", ID: 1, Name: fn.Params[1].Name(), Type: fn.Params[1].Type()}
		}
		okPaths := 0
		// shortcuts: a success path taken only for an empty (or absent) input that returns the constant the full
		// computation yields for no bytes (the accumulator's initial value, folded through the same reductions)
		shortcut := map[*Path]bool{}
		var mainRet *Val
		for _, p := range paths {
			if pathKind(p) == "ok" && !p.Panic && len(p.Ret) == 1 && !emptyInputPath(p, data) {
				mainRet = p.Ret[0]
			}
		}
		if mainRet != nil {
			if want, ok := evalEmpty(mainRet); ok {
				for _, p := range paths {
					if pathKind(p) == "ok" && !p.Panic && len(p.Ret) == 1 && emptyInputPath(p, data) {
						if got, ok2 := evalEmpty(p.Ret[0]); ok2 && constant.Compare(got, token.EQL, want) && !hasEvent([]*Path{p}, func(e *Event) bool {
							if e.Kind != EvRep {
								return false
							}
							n, isC := affOf(e.Count).IsConst() // a loop over the empty input it was handed runs zero times
							return !(isC && n == 0 && !e.Partial)
						}) {
							shortcut[p] = true
						}
					}
				}
			}
		}
		for _, p := range paths {
			if pathKind(p) == "ok" && !p.Panic && !shortcut[p] {
				okPaths++
			}
			walkEvents(p.Events, func(e *Event, _ int) {
				epos := a.P.Pos(e.Pos)
				switch e.Kind {
				case EvBytes, EvLen:
					rep.Ob("H1-read-only", name+":observer", true, "", "")
				case EvReadInt, EvReadBytes:
					rep.Ob("H1-read-only", name+":consume", false, epos, "Calc consumes bytes from its input buffer: "+e.String())
				case EvWriteInt, EvWriteBytes, EvPatch:
					if e.Buf != nil && data != nil && stripIface(e.Buf).Key() == data.Key() || e.Kind == EvPatch && e.Buf != nil {
						rep.Ob("H1-read-only", name+":modify", false, epos, "Calc writes to its input buffer: "+e.String())
					}
				case EvBufOther:
					rep.Ob("H1-read-only", name+":"+e.Mode, observerMethods[e.Mode], epos, "Calc uses its input buffer through "+e.Mode+" (consumes, modifies or lets it escape)")
				case EvStore:
					if e.Dst.Contains(func(x *Val) bool { return x.Op == "bufbytes" || x.Op == "bufnext" }) {
						rep.Ob("H1-read-only", name+":store", false, epos, "Calc stores into the buffer's bytes: "+e.Dst.Pretty())
					}
					if g := globalWritten(e); g != "" && !a.onceAssignment(e) {
						rep.Ob("H2-deterministic", name+":"+g, false, epos, "Calc writes package-level state "+g)
					}
					if r := addrRoot(e.Dst); r != nil && r.Op == "param" && r.ID == 0 {
						rep.Ob("H2-service-stateless", name+":store", false, epos, "Calc stores into the registered (shared) service object: "+e.Dst.Pretty())
					}
				case EvLoadGlobal:
					okTable := false
					if r := addrRoot(e.Recv); r != nil && r.Op == "global" {
						if g, isG := r.Aux.(*ssa.Global); isG && a.immutableTable(g) {
							okTable = true // a lookup table fixed at start-up and only ever indexed for reading
						}
					}
					rep.Ob("H2-deterministic", name+":"+e.Recv.Pretty(), okTable, epos, "Calc reads package-level state "+e.Recv.Pretty())
				case EvCall:
					if pinned {
						rep.Ob("H2-deterministic", name+":"+e.Mode, false, epos, "Calc calls "+e.Mode+", which is outside the model")
					}
				case EvMapRead, EvMapWrite, EvGo, EvLock:
					rep.Ob("H2-deterministic", name+":"+e.Kind.String(), false, epos, "Calc performs "+e.String())
				}
			})
			fromReceiver := func(v *Val) bool {
				return v != nil && v.Contains(func(x *Val) bool {
					if x.Op != "init" {
						return false
					}
					rt := addrRoot(x.Args[0])
					return rt != nil && rt.Op == "param" && rt.ID == 0
				})
			}
			// what the loops carry from one byte to the next (the running value) and what decides their course
			walkEvents(p.Events, func(e *Event, _ int) {
				for _, arm := range e.Iter {
					for nm, nx := range arm.Next {
						if fromReceiver(nx) {
							rep.Ob("H2-service-stateless", name+":loop:"+nm, false, a.P.Pos(e.Pos), "the running value depends on state held in the service object: "+nx.Pretty())
						}
					}
					for _, c := range arm.Conds {
						if fromReceiver(c.V) {
							rep.Ob("H2-service-stateless", name+":loopcond", false, a.P.Pos(e.Pos), "the course of the computation depends on state held in the service object: "+c.V.Pretty())
						}
					}
				}
			})
			for _, c := range p.Conds {
				if fromReceiver(c.V) {
					rep.Ob("H2-service-stateless", name+":cond", false, pos, "the course of the computation depends on state held in the service object: "+c.V.Pretty())
				}
			}
			for _, r := range p.Ret {
				if fromReceiver(r) {
					rep.Ob("H2-service-stateless", name+":ret", false, pos, "the result depends on state held in the service object: "+r.Pretty())
				}
				if r.Contains(func(x *Val) bool {
					return x.Op == "call" && (strings.HasPrefix(x.Name, "time.") || strings.HasPrefix(x.Name, "math/rand"))
				}) {
					rep.Ob("H2-deterministic", name+":ret", false, pos, "result depends on "+r.Pretty())
				}
			}
		}
		if !pinned {
			rep.Notes = append(rep.Notes, "service "+name+" ("+svc.Name+") has no published definition in the property; only H1 and the no-shared-state rules apply")
			continue
		}
		rep.Ob("H3-single-success-path", name, okPaths == 1, pos, fmt.Sprintf("Calc has %d normal return paths (one expected: any early return skips input)", okPaths))
		class := map[string]string{"SSE_BIN": "bytesum", "SZSE_BIN": "bytesum", "CRC16": "crc16", "CRC32": "crc32"}[svc.Name]
		sumByTerm := false
		// H3 whole input
		for _, p := range paths {
			if pathKind(p) != "ok" || shortcut[p] {
				continue
			}
			whole, why := wholeInput(p, data, class == "crc32")
			if !whole && class == "bytesum" && len(p.Ret) == 1 {
				// the other way to see it: the returned term itself is the sum of all bytes of data.Bytes(), each once,
				// reduced modulo 256 (a traversal in groups with a scalar tail, say)
				if ok, _ := byteSumTerm(p, data); ok {
					whole, sumByTerm = true, true
				}
			}
			rep.Ob("H3-whole-input", name, whole, pos, "Calc does not fold every byte of its input exactly once in order: "+why)
		}
		iv := intervals(fn)
		switch class {
		case "bytesum":
			want := itv{lo: 0, hi: 255}
			got := itv{bottom: true}
			if len(iv.rets) > 0 {
				got = iv.rets[0]
			}
			var ofl []string
			for in, m := range iv.overflow {
				ofl = append(ofl, a.P.Pos(in.Pos())+": "+m)
			}
			rep.Ob("H4-result-in-0-255", name, !got.bottom && got.within(want), pos,
				fmt.Sprintf("interval analysis: the returned value ranges over %s, not within [0, 255] (accumulator notes: %s)", got, strings.Join(ofl, "; ")))
			bad := byteSumOps(fn)
			if sumByTerm {
				bad = nil // the term analysis has shown the value to be the byte sum modulo 256
			}
			rep.Ob("H4-sum-mod-256-preserved", name, len(bad) == 0, pos, "value path is not a plain byte sum modulo 256: "+strings.Join(bad, "; "))
			rep.Sample(map[string]interface{}{"service": name, "algorithm": svc.Name, "returned_interval": got.String(), "wraps": len(iv.overflow)})
		case "crc16":
			rep.Ob("H5-crc16-state-16-bit", name, svc.ResultT != nil && typeStr(svc.ResultT) == "uint16", pos, "CRC-16 result type is "+typeStr(svc.ResultT))
			// the byte must enter by zero extension: every conversion of a uint8 value goes to an unsigned or wider type, never through a signed 8-bit type
			for _, b := range fn.Blocks {
				for _, in := range b.Instrs {
					if cv, ok := in.(*ssa.Convert); ok {
						if fb, ok := cv.X.Type().Underlying().(*types.Basic); ok && fb.Kind() == types.Uint8 {
							tb, _ := cv.Type().Underlying().(*types.Basic)
							okz := tb != nil && tb.Info()&types.IsInteger != 0 && tb.Kind() != types.Int8
							rep.Ob("H5-byte-zero-extended", name, okz, a.P.Pos(cv.Pos()), "input byte converted to "+typeStr(cv.Type())+": bytes >= 0x80 are sign-extended")
						}
						if fb, ok := cv.X.Type().Underlying().(*types.Basic); ok && fb.Kind() == types.Int8 {
							rep.Ob("H5-byte-zero-extended", name, false, a.P.Pos(cv.Pos()), "a signed 8-bit value is widened: bytes >= 0x80 are sign-extended")
						}
					}
				}
			}
			if len(iv.rets) > 0 {
				rep.Ob("H5-crc16-state-16-bit", name+":interval", iv.rets[0].within(itv{lo: 0, hi: 65535}), pos, "returned value ranges over "+iv.rets[0].String())
			}
			if os.Getenv("FPDEBUG") == "crc" {
				for _, p := range paths {
					fmt.Fprintln(os.Stderr, "crc16 path", pathKind(p), "ret", prettyVals(p.Ret))
					walkEvents(p.Events, func(e *Event, d int) {
						if e.Kind == EvRep {
							fmt.Fprintln(os.Stderr, "  REP depth", d, "count", valOrNil(e.Count), "arms", len(e.Iter))
							for _, arm := range e.Iter {
								for nm, nx := range arm.Next {
									fmt.Fprintln(os.Stderr, "    next", nm, "=", nx.Key())
								}
								for _, c := range arm.Conds {
									fmt.Fprintln(os.Stderr, "    cond", c.String())
								}
							}
						}
					})
				}
			}
			// H6: where the computation has one of the two textbook shapes, its constants are decided: the bit-by-bit loop
			// (state ^= byte; eight times: shift right, xor the polynomial when the bit shifted out was set) with initial
			// value 0xFFFF and polynomial 0xA001, or the byte-at-a-time loop state = state>>8 ^ T[byte(state) ^ b] over a
			// table T whose 256 entries – established by evaluating the one function that fills it – are those of that
			// polynomial. Any other shape is left undecided (a note, no verdict).
			decided := false
			for _, p := range paths {
				if pathKind(p) != "ok" || shortcut[p] {
					continue
				}
				form, problems := a.crc16Form(p)
				if form == "" {
					continue
				}
				decided = true
				rep.Ob("H6-crc16-modbus-constants", name+":"+form, len(problems) == 0, pos, "CRC-16 in its "+form+" form is not CRC-16/MODBUS: "+strings.Join(problems, "; "))
				rep.Sample(map[string]interface{}{"service": name, "algorithm": svc.Name, "form": form, "decided": "initial value 0xFFFF, reflected polynomial 0xA001" + map[bool]string{true: ", 256 table entries", false: ""}[form == "table-driven"]})
			}
			if !decided {
				rep.Notes = append(rep.Notes, "CRC16: the computation has neither the bit-by-bit nor the table-driven textbook shape (or its table could not be evaluated): polynomial, initial value and reflection are not decided (DESIGN §6)")
			}
		case "crc32":
			// handled by wholeInput(crc32 form)
			rep.Sample(map[string]interface{}{"service": name, "algorithm": svc.Name, "form": "hash/crc32.ChecksumIEEE(data.Bytes())"})
		default:
			rep.Notes = append(rep.Notes, "service "+name+" ("+svc.Name+") has no published definition in the property; only H1–H3 apply")
		}
	}
	// the four pinned names are all registered
	for _, n := range []string{"CRC16", "CRC32", "SSE_BIN", "SZSE_BIN"} {
		rep.Ob("H0-service-registered", n, a.U.ServiceByName(n) != nil, "-", "no service is registered under "+n+" by codec's init")
	}
}

// wholeInput: the success path folds all of data.Bytes().
func wholeInput(p *Path, data *Val, crc32 bool) (bool, string) {
	var bytesEv *Event
	for _, e := range p.Events {
		if e.Kind == EvBytes && data != nil && stripIface(e.Buf).Key() == data.Key() {
			bytesEv = e
		}
	}
	if bytesEv == nil {
		return false, "it never takes data.Bytes()"
	}
	bb := &Val{Op: "bufbytes", ID: bytesEv.ID, Args: []*Val{bytesEv.Buf}}
	if crc32 {
		for _, r := range p.Ret {
			r = stripCT(r)
			for r.Op == "conv" {
				r = stripCT(r.Args[0])
			}
			if r.Op == "call" && (r.Name == "hash/crc32.ChecksumIEEE") && len(r.Args) == 1 && stripCT(r.Args[0]).Key() == bb.Key() {
				return true, ""
			}
			if r.Op == "call" && (r.Name == "hash/crc32.Checksum" || r.Name == "hash/crc32.Update") {
				last := stripCT(r.Args[len(r.Args)-1])
				if r.Name == "hash/crc32.Checksum" {
					last = stripCT(r.Args[0])
				}
				tab := ""
				for _, x := range r.Args {
					if x.Contains(func(y *Val) bool { return y.Op == "global" && strings.Contains(y.Name, "IEEETable") }) {
						tab = "IEEE"
					}
				}
				if last.Key() == bb.Key() && tab == "IEEE" {
					return true, ""
				}
			}
			if ok, why := crcChunkWalk(p, r, bb); ok {
				return true, ""
			} else if why != "" {
				return false, why
			}
			return false, "result is " + r.Pretty() + ", not hash/crc32's IEEE checksum of data.Bytes()"
		}
		return false, "no result"
	}
	for _, e := range p.Events {
		if e.Kind != EvRep {
			continue
		}
		if e.Partial {
			return false, "the loop over the bytes can be left early"
		}
		if !affEq(e.Count, mkLen(bb)) {
			continue
		}
		// element index ascending from 0
		asc := false
		for _, arm := range e.Iter {
			walkEvents(arm.Events, func(x *Event, _ int) {
				if x.Kind == EvPanicSite && x.Mode == "index" && stripCT(x.Args[0]).Key() == bb.Key() {
					aff := affOf(x.Args[1])
					if !aff.Top && len(aff.Term) == 1 {
						for k, c := range aff.Term {
							lv := aff.Sym[k]
							if c == 1 && lv.Op == "loopvar" && len(lv.Args) == 1 {
								if init, ok := lv.Args[0].Int64(); ok && init+aff.C == 0 {
									asc = true
								}
							}
						}
					}
				}
			})
		}
		if len(e.Iter) != 1 && !asc {
			return false, "iteration paths differ"
		}
		if asc {
			return true, ""
		}
		return false, "the loop does not index the bytes 0,1,2,… in order"
	}
	return false, "no loop ranges over exactly len(data.Bytes()) bytes"
}

// emptyInputPath: the path is taken only when the input holds no bytes (Len() == 0, len(Bytes()) == 0, or no buffer).
func emptyInputPath(p *Path, data *Val) bool {
	for _, c := range p.Conds {
		v := c.V
		if v.Op != "binop" || len(v.Args) != 2 {
			continue
		}
		for side := 0; side < 2; side++ {
			x, k := stripCT(v.Args[side]), v.Args[1-side]
			for x.Op == "conv" {
				x = stripCT(x.Args[0])
			}
			isLen := x.Op == "buflen" || (x.Op == "len" && len(x.Args) == 1 && stripCT(x.Args[0]).Op == "bufbytes")
			if isLen {
				n, isC := k.Int64()
				if !isC {
					continue
				}
				op := v.Name
				if side == 1 { // k op len  ->  len op' k
					op = map[string]string{"<": ">", ">": "<", "<=": ">=", ">=": "<=", "==": "==", "!=": "!="}[op]
				}
				if !c.Taken {
					op = map[string]string{"<": ">=", ">": "<=", "<=": ">", ">=": "<", "==": "!=", "!=": "=="}[op]
				}
				if (op == "==" && n == 0) || (op == "<=" && n == 0) || (op == "<" && n == 1) {
					return true
				}
			}
			if data != nil && stripIface(x).Key() == data.Key() && k.IsNilConst() && ((v.Name == "==") == c.Taken) {
				return true
			}
		}
	}
	return false
}

// evalEmpty: the constant a result term denotes when the input holds no bytes – loops over the input run zero times
// (an accumulator keeps its initial value), hash/crc32 of nothing is its seed.
func evalEmpty(v *Val) (constant.Value, bool) {
	v = stripCT(v)
	if v == nil {
		return nil, false
	}
	switch v.Op {
	case "const":
		if v.C != nil && v.C.Kind() == constant.Int {
			return v.C, true
		}
	case "loopout", "loopvar":
		if len(v.Args) >= 1 {
			return evalEmpty(v.Args[0])
		}
	case "conv":
		c, ok := evalEmpty(v.Args[0])
		if !ok || v.Type == nil {
			return nil, false
		}
		b, isB := v.Type.Underlying().(*types.Basic)
		if !isB || b.Info()&types.IsInteger == 0 {
			return nil, false
		}
		bits, unsigned := intBits(b)
		if bits == 0 {
			bits = 64
		}
		mod := constant.Shift(constant.MakeInt64(1), token.SHL, uint(bits))
		r := constant.BinaryOp(c, token.REM, mod)
		if constant.Sign(r) < 0 {
			r = constant.BinaryOp(r, token.ADD, mod)
		}
		if !unsigned {
			half := constant.Shift(constant.MakeInt64(1), token.SHL, uint(bits-1))
			if constant.Compare(r, token.GEQ, half) {
				r = constant.BinaryOp(r, token.SUB, mod)
			}
		}
		return r, true
	case "binop":
		a, ok1 := evalEmpty(v.Args[0])
		b, ok2 := evalEmpty(v.Args[1])
		if !ok1 || !ok2 {
			return nil, false
		}
		tok := map[string]token.Token{"+": token.ADD, "-": token.SUB, "*": token.MUL, "&": token.AND, "|": token.OR, "^": token.XOR, "%": token.REM}[v.Name]
		if tok == token.ILLEGAL {
			return nil, false
		}
		if tok == token.REM && constant.Sign(b) == 0 {
			return nil, false
		}
		return constant.BinaryOp(a, tok, b), true
	case "call":
		switch v.Name {
		case "hash/crc32.ChecksumIEEE", "hash/crc32.Checksum":
			return constant.MakeInt64(0), true
		case "hash/crc32.Update":
			if len(v.Args) == 3 {
				return evalEmpty(v.Args[0])
			}
		}
	}
	return nil, false
}

// ssaPkgOf: the package a function belongs to; instantiations of generic functions are not package members themselves.
func ssaPkgOf(f *ssa.Function) *ssa.Package {
	if f.Pkg != nil {
		return f.Pkg
	}
	if o := f.Origin(); o != nil {
		return o.Pkg
	}
	if p := f.Parent(); p != nil {
		return ssaPkgOf(p)
	}
	return nil
}

// crcChunkWalk: the result is a running hash/crc32.Update (IEEE table, starting from 0) over data.Bytes() taken front
// to back in chunks: `for rest := data.Bytes(); len(rest) > 0; rest = rest[n:] { crc = crc32.Update(crc, IEEETable,
// rest[:n]) }` with 0 < n <= len(rest) on every iteration. By Update's streaming law that is the IEEE checksum of the
// whole slice. why is non-empty when the shape is this one but a condition fails.
func crcChunkWalk(p *Path, r, bb *Val) (bool, string) {
	if r.Op != "loopout" || len(r.Args) != 1 || !isZero(r.Args[0]) {
		return false, ""
	}
	var loop *Event
	for _, e := range p.Events {
		if e.Kind == EvRep && e.LoopID == r.ID {
			loop = e
		}
	}
	if loop == nil || len(loop.Iter) == 0 {
		return false, ""
	}
	if loop.Partial {
		return false, "the chunk loop can be left early"
	}
	for _, arm := range loop.Iter {
		next := stripCT(arm.Next[r.Name])
		if next == nil || next.Op != "call" || next.Name != "hash/crc32.Update" || len(next.Args) != 3 {
			return false, ""
		}
		acc := stripCT(next.Args[0])
		if acc.Op != "loopvar" || acc.ID != loop.LoopID || acc.Name != r.Name {
			return false, "a chunk is not chained onto the running value"
		}
		if !next.Args[1].Contains(func(y *Val) bool { return y.Op == "global" && strings.Contains(y.Name, "IEEETable") }) {
			return false, "the running CRC does not use the IEEE table"
		}
		chunk := stripCT(next.Args[2])
		if chunk.Op != "slice" || len(chunk.Args) < 3 || !(chunk.Args[1] == nil || isZero(chunk.Args[1])) || chunk.Args[2] == nil {
			return false, "the chunk is not a prefix rest[:n] of what is left"
		}
		rest := stripCT(chunk.Args[0])
		if rest.Op != "loopvar" || rest.ID != loop.LoopID || len(rest.Args) != 1 || stripCT(rest.Args[0]).Key() != bb.Key() {
			return false, "the chunks are not taken from data.Bytes()"
		}
		n := chunk.Args[2]
		rn := stripCT(arm.Next[rest.Name])
		if rn == nil || rn.Op != "slice" || stripCT(rn.Args[0]).Key() != rest.Key() || rn.Args[1] == nil || rn.Args[2] != nil || !affEq(rn.Args[1], n) {
			return false, "what is left after a chunk is not rest[n:] for the chunk's own n"
		}
		L := mkLen(rest)
		okN := false
		if affEq(n, L) && condHolds(arm.Conds, L, ">", mkInt(0)) {
			okN = true
		}
		if k, isC := n.Int64(); isC && k > 0 && condHolds(arm.Conds, L, ">=", n) {
			okN = true
		}
		if !okN {
			return false, "a chunk length is not shown to satisfy 0 < n <= len(rest)"
		}
	}
	return true, ""
}

// byteSumTerm: the value the path returns is, by its own term, (the sum of every byte of data.Bytes(), each exactly
// once) modulo 256, possibly widened afterwards. Accepted shape: a final reduction to eight bits (conversion to uint8,
// `& 0xFF`, or `% 256` of a non-negative value) of an accumulator that starts at 0 and is carried through loops over
// data.Bytes() front to back – loops that take K bytes per iteration off the front of what is left (`for len(p) >= K
// { … p[0] … p[K-1] …; p = p[K:] }`, every one of the K bytes added once) and a final full range over the rest.
// Wrap-around of the accumulator is harmless: 256 divides 2^k for every integer type of at least 8 bits.
func byteSumTerm(p *Path, data *Val) (bool, string) {
	var bb *Val
	for _, e := range p.Events {
		if e.Kind == EvBytes && data != nil && stripIface(e.Buf).Key() == data.Key() {
			bb = &Val{Op: "bufbytes", ID: e.ID, Args: []*Val{e.Buf}}
		}
	}
	if bb == nil {
		return false, "it never takes data.Bytes()"
	}
	loops := map[int]*Event{}
	for _, e := range p.Events {
		if e.Kind == EvRep {
			loops[e.LoopID] = e
		}
	}
	// 1. the final reduction
	v := stripCT(p.Ret[0])
	reduced := false
	for {
		switch {
		case v.Op == "conv" && len(v.Args) == 1 && v.Type != nil && isIntegerType(v.Type):
			if bt, ok := v.Type.Underlying().(*types.Basic); ok && bt.Kind() == types.Uint8 {
				reduced = true
			} else if in := stripCT(v.Args[0]); in.Type == nil || !wideningInt(in.Type, v.Type) {
				if !reduced {
					return false, "narrowing conversion other than to uint8 before the value is reduced"
				}
			}
			v = stripCT(v.Args[0])
			continue
		case v.Op == "binop" && v.Name == "&" && len(v.Args) == 2:
			if k, ok := v.Args[1].Int64(); ok && k == 0xFF {
				reduced = true
				v = stripCT(v.Args[0])
				continue
			}
		case v.Op == "binop" && v.Name == "%" && len(v.Args) == 2:
			if k, ok := v.Args[1].Int64(); ok && k == 256 && v.Type != nil && !isSignedType(v.Type) {
				reduced = true
				v = stripCT(v.Args[0])
				continue
			}
		}
		break
	}
	if !reduced {
		return false, "the value is not reduced to eight bits at the end"
	}
	// 2. the accumulator through the loops, outermost (last) first
	byteOf := func(t *Val, base *Val, idx int64) bool { // t is the zero-extended byte base[idx]
		t = stripCT(t)
		for t.Op == "conv" && len(t.Args) == 1 {
			in := stripCT(t.Args[0])
			if in.Type == nil || t.Type == nil || !isIntegerType(t.Type) {
				return false
			}
			if bt, ok := in.Type.Underlying().(*types.Basic); !ok || bt.Info()&types.IsUnsigned == 0 {
				return false // a signed byte would be sign-extended
			}
			t = in
		}
		if t.Op == "init" && len(t.Args) == 1 && t.Args[0].Op == "index" {
			t = &Val{Op: "elem", Args: t.Args[0].Args}
		}
		if t.Op != "elem" || len(t.Args) != 2 {
			return false
		}
		return sameElement(stripCT(t.Args[0]), t.Args[1], base, mkInt(idx))
	}
	var rest func(acc *Val, depth int) (*Val, bool) // returns what is left of data.Bytes() before acc's loop started summing … after it
	// walk: acc is the accumulator value after some loops; returns the slice that remains unsummed after them
	rest = func(acc *Val, depth int) (*Val, bool) {
		acc = stripCT(acc)
		if depth > 6 {
			return nil, false
		}
		if isZero(acc) {
			return bb, true
		}
		if acc.Op != "loopout" || len(acc.Args) != 1 {
			return nil, false
		}
		loop := loops[acc.ID]
		if loop == nil || loop.Partial || len(loop.Iter) != 1 {
			return nil, false
		}
		before, ok := rest(acc.Args[0], depth+1)
		if !ok {
			return nil, false
		}
		arm := loop.Iter[0]
		lvAcc := &Val{Op: "loopvar", ID: loop.LoopID, Name: acc.Name, Args: acc.Args}
		next := stripCT(arm.Next[acc.Name])
		if next == nil {
			return nil, false
		}
		// strip reductions kept inside the loop
		for next.Op == "binop" && len(next.Args) == 2 && ((next.Name == "&" && isConstK(next.Args[1], 0xFF)) || (next.Name == "%" && isConstK(next.Args[1], 256) && next.Type != nil && !isSignedType(next.Type))) {
			next = stripCT(next.Args[0])
		}
		// the summands: next = acc + t1 + t2 + …
		var terms []*Val
		var flat func(x *Val) bool
		flat = func(x *Val) bool {
			x = stripCT(x)
			if x.Op == "binop" && x.Name == "+" && len(x.Args) == 2 {
				return flat(x.Args[0]) && flat(x.Args[1])
			}
			terms = append(terms, x)
			return true
		}
		if !flat(next) {
			return nil, false
		}
		nAcc := 0
		var bytes []*Val
		for _, t := range terms {
			if t.Key() == lvAcc.Key() {
				nAcc++
			} else {
				bytes = append(bytes, t)
			}
		}
		if nAcc != 1 || len(bytes) == 0 {
			return nil, false
		}
		// (a) a full range over what is left: one byte per iteration, index = the range index
		if loop.Bounded == "range" || loop.Bounded == "counted" {
			if len(bytes) != 1 || !affEq(loop.Count, mkLen(before)) {
				return nil, false
			}
			t := stripCT(bytes[0])
			for t.Op == "conv" && len(t.Args) == 1 {
				in := stripCT(t.Args[0])
				if bt, okB := typeUnder(in.Type).(*types.Basic); !okB || bt.Info()&types.IsUnsigned == 0 {
					return nil, false
				}
				t = in
			}
			if t.Op == "init" && len(t.Args) == 1 && t.Args[0].Op == "index" {
				t = &Val{Op: "elem", Args: t.Args[0].Args}
			}
			if t.Op != "elem" || len(t.Args) != 2 || prefixBase(stripCT(t.Args[0])).Key() != prefixBase(before).Key() {
				return nil, false
			}
			// the index runs 0,1,2,… (range index, or a counter from 0 in steps of one)
			ia := affOf(t.Args[1])
			if ia.Top || len(ia.Term) != 1 {
				return nil, false
			}
			for k, c := range ia.Term {
				lv := ia.Sym[k]
				if c != 1 || lv.Op != "loopvar" || lv.ID != loop.LoopID || len(lv.Args) != 1 {
					return nil, false
				}
				init, isC := lv.Args[0].Int64()
				if !isC || init+ia.C != 0 {
					return nil, false
				}
				if nx := arm.Next[lv.Name]; nx == nil {
					return nil, false
				} else if d, okD := affOf(nx).Add(affOf(lv), -1).IsConst(); !okD || d != 1 {
					return nil, false
				}
			}
			return &Val{Op: "slice", Args: []*Val{before, mkLen(before), nil, nil}, Type: before.Type}, true // nothing left
		}
		// (b) K bytes off the front per iteration
		var pv *Val
		for name, nx := range arm.Next {
			sn := stripCT(nx)
			if sn != nil && sn.Op == "slice" && len(sn.Args) >= 3 && sn.Args[2] == nil && sn.Args[1] != nil {
				if b := stripCT(sn.Args[0]); b.Op == "loopvar" && b.ID == loop.LoopID && b.Name == name && len(b.Args) == 1 && stripCT(b.Args[0]).Key() == before.Key() {
					pv = b
				}
			}
		}
		if pv == nil {
			return nil, false
		}
		K, isC := stripCT(arm.Next[pv.Name]).Args[1].Int64()
		if !isC || K <= 0 || int64(len(bytes)) != K {
			return nil, false
		}
		if !condHolds(arm.Conds, mkLen(pv), ">=", mkInt(K)) {
			return nil, false
		}
		seen := map[int64]bool{}
		for _, t := range bytes {
			hit := false
			for k := int64(0); k < K; k++ {
				if !seen[k] && byteOf(t, pv, k) {
					seen[k], hit = true, true
					break
				}
			}
			if !hit {
				return nil, false
			}
		}
		return &Val{Op: "loopout", ID: loop.LoopID, Name: pv.Name, Args: pv.Args, Type: pv.Type}, true
	}
	left, ok := rest(v, 0)
	if !ok {
		return false, "the accumulator is not carried front to back over data.Bytes()"
	}
	if n, isC := affOf(mkLen(left)).IsConst(); !(isC && n == 0) {
		// what is left must be empty: the last loop was a full range over the remainder
		if sl := stripCT(left); !(sl.Op == "slice" && sl.Args[1] != nil && affEq(sl.Args[1], mkLen(sl.Args[0]))) {
			return false, "some bytes of data.Bytes() are left unsummed"
		}
	}
	return true, ""
}

func isConstK(v *Val, k int64) bool {
	n, ok := v.Int64()
	return ok && n == k
}

// crc16Form recognises the two textbook shapes of a reflected CRC-16 on a success path of Calc and checks their
// constants against CRC-16/MODBUS. form is "" when the path has neither shape (or the table cannot be evaluated).
func (a *Analysis) crc16Form(p *Path) (form string, problems []string) {
	if len(p.Ret) != 1 {
		return "", nil
	}
	ret := stripCT(p.Ret[0])
	if ret.Op != "loopout" || len(ret.Args) == 0 {
		return "", nil
	}
	var outer *Event
	for _, e := range p.Events {
		if e.Kind == EvRep && e.LoopID == ret.ID {
			outer = e
		}
	}
	if outer == nil || len(outer.Iter) != 1 || outer.Partial {
		return "", nil
	}
	arm := outer.Iter[0]
	next := stripCT(arm.Next[ret.Name])
	if next == nil {
		return "", nil
	}
	lv := &Val{Op: "loopvar", ID: ret.ID, Name: ret.Name, Args: ret.Args[:1]}
	isLV := func(v *Val, id int, name string) bool {
		v = stripCT(v)
		return v != nil && v.Op == "loopvar" && v.ID == id && v.Name == name
	}
	bin := func(v *Val, op string) (*Val, *Val, bool) {
		v = stripCT(v)
		if v == nil || v.Op != "binop" || v.Name != op || len(v.Args) != 2 {
			return nil, nil, false
		}
		return stripCT(v.Args[0]), stripCT(v.Args[1]), true
	}
	either := func(x, y *Val, f func(a, b *Val) bool) bool { return f(x, y) || f(y, x) }
	isByte := func(v *Val) bool { // the current input byte, possibly widened
		v = stripCT(v)
		for v != nil && v.Op == "conv" && len(v.Args) == 1 {
			if b, ok := v.Type.Underlying().(*types.Basic); !ok || b.Info()&types.IsUnsigned == 0 {
				return false
			}
			v = stripCT(v.Args[0])
		}
		if v == nil || v.Op != "init" || len(v.Args) != 1 {
			return false
		}
		ix := stripCT(v.Args[0])
		return ix != nil && ix.Op == "index" && len(ix.Args) == 2 && stripCT(ix.Args[0]).Op == "bufbytes"
	}
	shrBy := func(v *Val, id int, name string, k int64) bool {
		x, n, ok := bin(v, ">>")
		if !ok || !isLV(x, id, name) {
			return false
		}
		c, isC := n.Int64()
		return isC && c == k
	}
	initOK := func() {
		if c, ok := stripCT(ret.Args[0]).Int64(); !ok || c != 0xFFFF {
			problems = append(problems, "the register starts at "+ret.Args[0].Pretty()+", not 0xFFFF")
		}
	}
	_ = lv
	// table-driven: next = (lv >> 8) ^ T[byte(lv) ^ b]
	if x, y, ok := bin(next, "^"); ok {
		var tab *Val
		if either(x, y, func(s, t *Val) bool {
			if !shrBy(s, ret.ID, ret.Name, 8) || t.Op != "init" || len(t.Args) != 1 {
				return false
			}
			ix := stripCT(t.Args[0])
			if ix == nil || ix.Op != "index" || len(ix.Args) != 2 || stripCT(ix.Args[0]).Op != "global" {
				return false
			}
			idx := stripCT(ix.Args[1])
			okIdx := false
			// byte(lv) ^ b
			if p, q, ok2 := bin(idx, "^"); ok2 {
				okIdx = either(p, q, func(u, w *Val) bool {
					return u.Op == "conv" && typeStr(u.Type) == "uint8" && isLV(u.Args[0], ret.ID, ret.Name) && isByte(w) && typeStr(stripCT(w).Type) == "uint8"
				})
			}
			// byte(lv ^ uint16(b))  /  (lv ^ uint16(b)) & 0xFF
			inner := idx
			if idx.Op == "conv" && typeStr(idx.Type) == "uint8" && len(idx.Args) == 1 {
				inner = stripCT(idx.Args[0])
			} else if p, q, ok2 := bin(idx, "&"); ok2 {
				if c, isC := q.Int64(); isC && c == 0xFF {
					inner = p
				} else if c, isC := p.Int64(); isC && c == 0xFF {
					inner = q
				}
			}
			if !okIdx && inner != idx {
				if p, q, ok2 := bin(inner, "^"); ok2 {
					okIdx = either(p, q, func(u, w *Val) bool { return isLV(u, ret.ID, ret.Name) && isByte(w) })
				}
			}
			if !okIdx {
				return false
			}
			tab = stripCT(ix.Args[0])
			return true
		}) {
			g, _ := tab.Aux.(*ssa.Global)
			if g == nil {
				return "", nil
			}
			vals := a.P.TableInts(g)
			if vals == nil {
				return "", nil
			}
			form = "table-driven"
			initOK()
			if len(vals) != 256 {
				problems = append(problems, fmt.Sprintf("the table %s has %d entries, not 256", tab.Pretty(), len(vals)))
				return
			}
			for i := 0; i < 256; i++ {
				c := uint16(i)
				for k := 0; k < 8; k++ {
					if c&1 != 0 {
						c = c>>1 ^ 0xA001
					} else {
						c >>= 1
					}
				}
				if uint16(vals[i]) != c || vals[i] < 0 || vals[i] > 0xFFFF {
					problems = append(problems, fmt.Sprintf("entry %d of %s is %#04x after start-up, CRC-16/MODBUS (reflected polynomial 0xA001) has %#04x there", i, tab.Pretty(), vals[i], c))
					break
				}
			}
			return
		}
	}
	// bit by bit: next = loopout#inner(lv ^ uint16(b)); inner: 8 times, two ways
	if next.Op != "loopout" || len(next.Args) == 0 {
		return "", nil
	}
	if x, y, ok := bin(next.Args[0], "^"); !ok || !either(x, y, func(u, w *Val) bool { return isLV(u, ret.ID, ret.Name) && isByte(w) }) {
		return "", nil
	}
	var innerRep *Event
	for _, e := range arm.Events {
		if e.Kind == EvRep && e.LoopID == next.ID {
			innerRep = e
		}
	}
	if innerRep == nil || len(innerRep.Iter) != 2 || innerRep.Partial {
		return "", nil
	}
	if n, ok := affOf(innerRep.Count).IsConst(); !ok || n != 8 {
		return "", nil
	}
	var poly *Val
	plain := false
	for _, ia := range innerRep.Iter {
		nx := stripCT(ia.Next[next.Name])
		if nx == nil {
			return "", nil
		}
		// which way: the test on the low bit
		var bitSet, found bool
		for _, c := range ia.Conds {
			l, r, ok := bin(c.V, "!=")
			op := "!="
			if !ok {
				l, r, ok = bin(c.V, "==")
				op = "=="
			}
			if !ok {
				continue
			}
			m, one, okA := bin(l, "&")
			z, isZ := r.Int64()
			if !okA || !isZ {
				continue
			}
			if k, isK := one.Int64(); !(isK && k == 1 && isLV(m, next.ID, next.Name)) {
				if k2, isK2 := m.Int64(); !(isK2 && k2 == 1 && isLV(one, next.ID, next.Name)) {
					continue
				}
			}
			found = true
			// (lv&1 != 0) taken, (lv&1 == 1) taken, (lv&1 == 0) not taken, (lv&1 != 1) not taken
			bitSet = (op == "!=" && z == 0 && c.Taken) || (op == "==" && z == 1 && c.Taken) || (op == "==" && z == 0 && !c.Taken) || (op == "!=" && z == 1 && !c.Taken)
		}
		if !found {
			return "", nil
		}
		if bitSet {
			x, y, ok := bin(nx, "^")
			if !ok {
				return "", nil
			}
			if !either(x, y, func(u, w *Val) bool {
				if _, isC := w.Int64(); !isC || !shrBy(u, next.ID, next.Name, 1) {
					return false
				}
				poly = w
				return true
			}) {
				return "", nil
			}
		} else {
			if !shrBy(nx, next.ID, next.Name, 1) {
				return "", nil
			}
			plain = true
		}
	}
	if poly == nil || !plain {
		return "", nil
	}
	form = "bit-by-bit"
	initOK()
	if c, _ := poly.Int64(); c != 0xA001 {
		problems = append(problems, fmt.Sprintf("the polynomial xor-ed in is %#04x, not 0xA001", c))
	}
	return
}

// pruneByIntervals drops the paths that take a branch of fn whose condition – a comparison of two integer values –
// the interval analysis decides the other way for every execution.
func pruneByIntervals(paths []*Path, fn *ssa.Function, iv *intervalResult) []*Path {
	type key struct {
		at    ssa.Instruction
		taken bool
	}
	dead := map[key]bool{}
	get := func(v ssa.Value) (itv, bool) {
		if c, ok := v.(*ssa.Const); ok {
			if c.Value != nil && c.Value.Kind() == constant.Int {
				f, _ := constant.Float64Val(constant.ToFloat(c.Value))
				return point(f), true
			}
			return itv{}, false
		}
		x, ok := iv.vals[v]
		if !ok || x.bottom {
			return itv{}, false
		}
		return x, true
	}
	for _, b := range fn.Blocks {
		iff, ok := b.Instrs[len(b.Instrs)-1].(*ssa.If)
		if !ok {
			continue
		}
		bo, ok := iff.Cond.(*ssa.BinOp)
		if !ok {
			continue
		}
		x, okX := get(bo.X)
		y, okY := get(bo.Y)
		if !okX || !okY {
			continue
		}
		var always, never bool
		switch bo.Op {
		case token.GTR:
			always, never = x.lo > y.hi, x.hi <= y.lo
		case token.GEQ:
			always, never = x.lo >= y.hi, x.hi < y.lo
		case token.LSS:
			always, never = x.hi < y.lo, x.lo >= y.hi
		case token.LEQ:
			always, never = x.hi <= y.lo, x.lo > y.hi
		default:
			continue
		}
		if always {
			dead[key{iff, false}] = true
		}
		if never {
			dead[key{iff, true}] = true
		}
	}
	if os.Getenv("FPDEBUG") == "iv" {
		fmt.Fprintln(os.Stderr, "pruneByIntervals", fn, "dead", len(dead))
		for _, b := range fn.Blocks {
			if iff, ok := b.Instrs[len(b.Instrs)-1].(*ssa.If); ok {
				if bo, ok := iff.Cond.(*ssa.BinOp); ok {
					x, okX := get(bo.X)
					y, okY := get(bo.Y)
					fmt.Fprintln(os.Stderr, "  if", bo, "pos", iff.Pos().IsValid(), x, okX, y, okY)
				}
			}
		}
		for _, p := range paths {
			for _, c := range p.Conds {
				fmt.Fprintln(os.Stderr, "  cond", c.String(), c.Pos.IsValid(), c.Fn == fn)
			}
		}
	}
	if len(dead) == 0 {
		return paths
	}
	var out []*Path
	for _, p := range paths {
		drop := false
		for _, c := range p.Conds {
			if c.At != nil && dead[key{c.At, c.Taken}] {
				drop = true
			}
		}
		if !drop {
			out = append(out, p)
		}
	}
	if len(out) == 0 {
		return paths
	}
	return out
}

// deadEdgesByIntervals: the (branch, outcome) pairs of fn that the interval analysis rules out for every execution.
func deadEdgesByIntervals(fn *ssa.Function, iv *intervalResult) map[*ssa.If][2]bool {
	out := map[*ssa.If][2]bool{} // [0]: the false edge is dead, [1]: the true edge is dead
	get := func(v ssa.Value) (itv, bool) {
		if c, ok := v.(*ssa.Const); ok {
			if c.Value != nil && c.Value.Kind() == constant.Int {
				f, _ := constant.Float64Val(constant.ToFloat(c.Value))
				return point(f), true
			}
			return itv{}, false
		}
		x, ok := iv.vals[v]
		if !ok || x.bottom {
			return itv{}, false
		}
		return x, true
	}
	for _, b := range fn.Blocks {
		if len(b.Instrs) == 0 {
			continue
		}
		iff, ok := b.Instrs[len(b.Instrs)-1].(*ssa.If)
		if !ok {
			continue
		}
		bo, ok := iff.Cond.(*ssa.BinOp)
		if !ok {
			continue
		}
		x, okX := get(bo.X)
		y, okY := get(bo.Y)
		if !okX || !okY {
			continue
		}
		var always, never bool
		switch bo.Op {
		case token.GTR:
			always, never = x.lo > y.hi, x.hi <= y.lo
		case token.GEQ:
			always, never = x.lo >= y.hi, x.hi < y.lo
		case token.LSS:
			always, never = x.hi < y.lo, x.lo >= y.hi
		case token.LEQ:
			always, never = x.hi <= y.lo, x.lo > y.hi
		case token.NEQ:
			always, never = x.hi < y.lo || x.lo > y.hi, x.lo == x.hi && y.lo == y.hi && x.lo == y.lo
		case token.EQL:
			always, never = x.lo == x.hi && y.lo == y.hi && x.lo == y.lo, x.hi < y.lo || x.lo > y.hi
		default:
			continue
		}
		if always || never {
			out[iff] = [2]bool{always, never}
		}
	}
	return out
}

// deadBlocksByIntervals: the blocks of fn reachable only over edges the interval analysis rules out.
// deadEdgeFunc: the control-flow edges the value ranges rule out (an edge out of a dead block, or the side of a decided
// branch that is not taken).
func deadEdgeFunc(fn *ssa.Function, iv *intervalResult) func(from, to *ssa.BasicBlock) bool {
	edges := deadEdgesByIntervals(fn, iv)
	if len(edges) == 0 {
		return func(from, to *ssa.BasicBlock) bool { return false }
	}
	dead := deadBlocksByIntervals(fn, iv)
	return func(from, to *ssa.BasicBlock) bool {
		if dead[from] {
			return true
		}
		if len(from.Instrs) == 0 {
			return false
		}
		iff, ok := from.Instrs[len(from.Instrs)-1].(*ssa.If)
		if !ok {
			return false
		}
		d, has := edges[iff]
		if !has || len(from.Succs) != 2 || from.Succs[0] == from.Succs[1] {
			return false
		}
		return (to == from.Succs[0] && d[1]) || (to == from.Succs[1] && d[0])
	}
}

func deadBlocksByIntervals(fn *ssa.Function, iv *intervalResult) map[*ssa.BasicBlock]bool {
	edges := deadEdgesByIntervals(fn, iv)
	dead := map[*ssa.BasicBlock]bool{}
	if len(edges) == 0 {
		return dead
	}
	edgeDead := func(from, to *ssa.BasicBlock) bool {
		if dead[from] {
			return true
		}
		iff, ok := from.Instrs[len(from.Instrs)-1].(*ssa.If)
		if !ok {
			return false
		}
		d, has := edges[iff]
		if !has || len(from.Succs) != 2 || from.Succs[0] == from.Succs[1] {
			return false
		}
		return (to == from.Succs[0] && d[1]) || (to == from.Succs[1] && d[0])
	}
	for changed := true; changed; {
		changed = false
		for _, b := range fn.Blocks {
			if dead[b] || len(b.Preds) == 0 {
				continue
			}
			all := true
			for _, p := range b.Preds {
				if !edgeDead(p, b) {
					all = false
				}
			}
			if all {
				dead[b] = true
				changed = true
			}
		}
	}
	return dead
}
