package main

import (
	"os"
	"fmt"
	"go/constant"
	"go/token"
	"go/types"
	"sort"
	"strings"

	"golang.org/x/tools/go/ssa"
)

// Engine is the path-sensitive effect analysis (DESIGN §3.2, E2): it walks the
// SSA control-flow graph of a root function, inlining module callees, and
// produces for every path the sequence of wire/memory/lock effects together
// with the provenance of every value involved. Loops are summarised (REP), not
// unrolled; nothing is executed and no solver is involved – branch outcomes are
// decided only by constant propagation and by facts the path itself
// established on the same SSA value.
type Engine struct {
	P        *Program
	nextID   int
	MaxPaths int
	MaxDepth int
	// ObjSize: the exact number of bytes a successful nested Encode/Decode of this OBJ event writes/reads, when the
	// nested type's wire layout has a fixed size (set by the analysis; nil: unknown)
	ObjSize func(ev *Event) (int64, bool)
	// IsCodecMethod reports whether fn is an Encode/Decode method that must be
	// kept as an OBJ atom instead of being inlined.
	IsCodecMethod func(fn *ssa.Function) bool
	NonNilGlobals map[*ssa.Global]bool
	// NonNilPtrGlobals: package-level pointers assigned once, by their initialiser, with a fresh allocation
	NonNilPtrGlobals map[*ssa.Global]bool
	// UnrollMax > 0: every loop whose bound is a constant no larger than this is executed iteration by iteration
	// (used to enumerate what start-up code does: registrations made by loops over literal tables)
	UnrollMax int
	InitMem   map[string]memEntry // memory the root starts with (cells captured by a function literal being evaluated)
	paths     int
	truncated     string
}

func NewEngine(p *Program) *Engine {
	return &Engine{P: p, MaxPaths: 20000, MaxDepth: 16}
}

func (e *Engine) id() int { e.nextID++; return e.nextID }

type state struct {
	exhausted map[string]bool // buffers on which a read has already failed or come back short: they are empty now
	events  []*Event
	conds   []Cond
	facts   map[string]bool
	mem     map[string]memEntry
	content map[string]*Val
	allocT  map[int]types.Type // alloc id -> element type
	up      *evChain           // events of the callers' frames up to the calls that led here (an inlined callee starts with no events of its own)
}

type evChain struct {
	evs []*Event
	up  *evChain
}

// allEvents: the events of this path so far, the callers' included, in order.
func (s *state) allEvents() []*Event {
	if s.up == nil {
		return s.events
	}
	var chain []*evChain
	for c := s.up; c != nil; c = c.up {
		chain = append(chain, c)
	}
	var out []*Event
	for i := len(chain) - 1; i >= 0; i-- {
		out = append(out, chain[i].evs...)
	}
	return append(out, s.events...)
}

func newState() *state {
	return &state{facts: map[string]bool{}, mem: map[string]memEntry{}, content: map[string]*Val{}, allocT: map[int]types.Type{}}
}

func (s *state) clone() *state {
	n := &state{
		events:  append([]*Event(nil), s.events...),
		conds:   append([]Cond(nil), s.conds...),
		facts:   make(map[string]bool, len(s.facts)),
		mem:     make(map[string]memEntry, len(s.mem)),
		content: make(map[string]*Val, len(s.content)),
		allocT:  make(map[int]types.Type, len(s.allocT)),
		up:      s.up,
	}
	if len(s.exhausted) > 0 {
		n.exhausted = make(map[string]bool, len(s.exhausted))
		for k, v := range s.exhausted {
			n.exhausted[k] = v
		}
	}
	for k, v := range s.facts {
		n.facts[k] = v
	}
	for k, v := range s.mem {
		n.mem[k] = v
	}
	for k, v := range s.content {
		n.content[k] = v
	}
	for k, v := range s.allocT {
		n.allocT[k] = v
	}
	return n
}

type deferred struct {
	call *ssa.Defer
	fn   *Val
	args []*Val
}

type loopCtx struct {
	header *ssa.BasicBlock
	body   map[*ssa.BasicBlock]bool
	id     int
	// counted loops: the loop variable tested in the header, the constant added to it in the test, and the loop-invariant bound
	ctrVar   *Val
	ctrOff   int64
	ctrBound *Val
}

type frame struct {
	fn     *ssa.Function
	env    map[ssa.Value]*Val
	args   []*Val
	free   []*Val
	defers []*deferred
	site   *CallSite
	loops  []*loopCtx // loops currently being summarised in this frame (innermost last)
	depth  int
	tsub   map[*types.TypeParam]types.Type // inside a generic callee reached through an instantiation wrapper: its type parameters -> the caller's type arguments
}

// substT replaces a callee's type parameter by the type argument the (generic) caller passed for it.
func (f *frame) substT(t types.Type) types.Type {
	for i := 0; i < 4 && t != nil && f.tsub != nil; i++ {
		tp, ok := t.(*types.TypeParam)
		if !ok {
			break
		}
		r, ok := f.tsub[tp]
		if !ok || r == t {
			break
		}
		t = r
	}
	return t
}

func (f *frame) clone() *frame {
	n := *f
	n.env = make(map[ssa.Value]*Val, len(f.env)+8)
	for k, v := range f.env {
		n.env[k] = v
	}
	n.defers = append([]*deferred(nil), f.defers...)
	n.loops = append([]*loopCtx(nil), f.loops...)
	return &n
}

const (
	oReturn = iota
	oPanic
	oIterEnd
	oLoopExit
	oTrunc
)

type outcome struct {
	st       *state
	kind     int
	ret      []*Val
	fr       *frame
	exitTo   *ssa.BasicBlock
	exitFrom *ssa.BasicBlock
	reason   string
}

// AnalyzeRoot runs the engine on fn with symbolic parameters.
func (e *Engine) AnalyzeRoot(fn *ssa.Function, args []*Val) ([]*Path, error) {
	return e.AnalyzeRootFree(fn, args, nil)
}

// AnalyzeRootFree: like AnalyzeRoot, with the values the function literal fn captured (nil: symbolic).
func (e *Engine) AnalyzeRootFree(fn *ssa.Function, args []*Val, free []*Val) ([]*Path, error) {
	if fn.Blocks == nil {
		return nil, fmt.Errorf("%s has no body", fn)
	}
	e.paths = 0
	e.truncated = ""
	if args == nil {
		for i, p := range fn.Params {
			args = append(args, &Val{Op: "param", ID: i, Name: p.Name(), Type: p.Type()})
		}
	}
	st := newState()
	for k, v := range e.InitMem {
		st.mem[k] = v
	}
	fr := &frame{fn: fn, env: map[ssa.Value]*Val{}, args: args}
	for i, fv := range fn.FreeVars {
		if i < len(free) && free[i] != nil {
			fr.free = append(fr.free, free[i])
			continue
		}
		fr.free = append(fr.free, &Val{Op: "param", ID: 1000 + i, Name: fv.Name(), Type: fv.Type()})
	}
	outs := e.execFrom(st, fr, fn.Blocks[0], nil, 0)
	outs = subsumeZeroCount(outs, 0)
	var paths []*Path
	for _, o := range outs {
		p := &Path{Events: o.st.events, Conds: o.st.conds, Ret: o.ret, Mem: o.st.mem}
		for _, r := range o.ret {
			var c *Val
			if r != nil {
				if cc := e.contentOf(o.st, r); cc != r {
					c = cc
				}
			}
			p.RetContent = append(p.RetContent, c)
		}
		switch o.kind {
		case oPanic:
			p.Panic = true
		case oTrunc:
			p.Trunc = o.reason
		case oReturn:
		default:
			p.Trunc = "internal: loop outcome escaped"
		}
		e.transplantScratch(p)
		if e.transplantSubBuffer(p) {
			continue // a read on a sub-buffer failing although the block it was built over holds the bytes: no such path
		}
		paths = append(paths, p)
	}
	if e.truncated != "" {
		return paths, fmt.Errorf("analysis of %s truncated: %s", fn, e.truncated)
	}
	return paths, nil
}

func (e *Engine) addEvent(st *state, fr *frame, ev *Event, instr ssa.Instruction) *Event {
	if ev.ID == 0 {
		ev.ID = e.id()
	}
	ev.Fn = fr.fn
	ev.Site = fr.site
	ev.Instr = instr
	if instr != nil && ev.Pos == token.NoPos {
		ev.Pos = instr.Pos()
		if ev.Pos == token.NoPos {
			if c, ok := instr.(ssa.CallInstruction); ok {
				ev.Pos = c.Common().Pos()
			}
		}
	}
	ev.NCond = len(st.conds)
	if ev.IntType != nil {
		ev.IntType = fr.substT(ev.IntType)
	}
	st.events = append(st.events, ev)
	return ev
}

func (e *Engine) val(fr *frame, v ssa.Value) *Val {
	switch v := v.(type) {
	case *ssa.Const:
		if v.Value == nil {
			return zeroVal(v.Type())
		}
		return mkConst(v.Value, v.Type())
	case *ssa.Parameter:
		for i, p := range fr.fn.Params {
			if p == v {
				if i < len(fr.args) {
					return fr.args[i]
				}
			}
		}
	case *ssa.FreeVar:
		for i, p := range fr.fn.FreeVars {
			if p == v && i < len(fr.free) {
				return fr.free[i]
			}
		}
	case *ssa.Global:
		return &Val{Op: "global", Name: shortPkg(v.Pkg.Pkg.Path()) + "." + v.Name(), Aux: v, Type: v.Type()}
	case *ssa.Function:
		return &Val{Op: "func", Aux: v, Type: v.Type()}
	case *ssa.Builtin:
		return &Val{Op: "builtin", Name: v.Name(), Type: v.Type()}
	}
	if x, ok := fr.env[v]; ok {
		return x
	}
	return &Val{Op: "unknown", ID: e.id(), Name: "undef:" + v.Name(), Type: v.Type()}
}

// zeroVal is the zero value of t as a Val.
func zeroVal(t types.Type) *Val {
	switch u := t.Underlying().(type) {
	case *types.Basic:
		switch {
		case u.Info()&types.IsBoolean != 0:
			return mkConst(constant.MakeBool(false), t)
		case u.Info()&types.IsString != 0:
			return mkConst(constant.MakeString(""), t)
		case u.Info()&types.IsNumeric != 0:
			return mkConst(constant.MakeInt64(0), t)
		}
	case *types.Struct, *types.Array:
		return &Val{Op: "zero", Type: t}
	}
	return mkNil(t)
}

func addrRoot(a *Val) *Val {
	for a != nil {
		switch a.Op {
		case "field", "index", "init", "slice":
			a = a.Args[0]
		default:
			return a
		}
	}
	return a
}

func (e *Engine) load(st *state, addr *Val, t types.Type) *Val {
	if me, ok := st.mem[addr.Key()]; ok {
		return me.V
	}
	// sentinel errors: package-level error variables of the standard library are never nil (axiom);
	// module-level ones only when assigned once, by their initialiser, from errors.New/fmt.Errorf.
	if addr.Op == "global" && isErrorType(t) {
		if g, ok := addr.Aux.(*ssa.Global); ok {
			if !e.moduleGlobal(addr) || (e.NonNilGlobals != nil && e.NonNilGlobals[g]) {
				return &Val{Op: "nonnil", Name: addr.Name, Type: t}
			}
		}
	}
	// a package-level byte array whose contents are fixed once package initialisation is over (a blank record)
	if addr.Op == "global" {
		if g, ok := addr.Aux.(*ssa.Global); ok && e.moduleGlobal(addr) {
			if b := e.P.StartupBytes(g); b != nil {
				return &Val{Op: "bytesconst", Name: fmt.Sprintf("%x", b), Aux: b, Type: t}
			}
		}
	}
	// field of a stored aggregate?
	if addr.Op == "field" {
		if me, ok := st.mem[addr.Args[0].Key()]; ok {
			return fieldOfVal(me.V, addr.ID, addr.Name, t)
		}
	}
	if addr.Op == "index" {
		base := addr.Args[0]
		// an element of a local array a front part of which was filled in one piece (`io.ReadFull(buf, scratch[:n])`, then
		// `scratch[0]` or `b := scratch[:n]; b[0]` – element addresses are kept relative to the array): the element of
		// what that part holds, when exactly one such part is on record and the index lies inside it
		if base.Op == "alloc" {
			if _, whole := st.content[base.Key()]; !whole {
				if k, isC := addr.Args[1].Int64(); isC && k >= 0 {
					pfx := "slice(" + base.Key() + ",_,"
					var hit *Val
					n := 0
					for ck, c := range st.content {
						if strings.HasPrefix(ck, pfx) {
							n++
							hit = c
						}
					}
					if n == 1 && hit != nil {
						if ln, okL := affOf(mkLen(hit)).IsConst(); okL && k < ln {
							if _, stored := st.mem[addr.Key()]; !stored {
								return &Val{Op: "elem", Args: []*Val{hit, addr.Args[1]}, Type: t}
							}
						}
					}
				}
			}
		}
		for (base.Op == "slice" && base.Args[1] == nil) || base.Op == "arrayptr" {
			// (content recorded for a front part of an array – `io.ReadFull(buf, scratch[:n])` – is the content of
			// that part's elements: same index, the part starts at 0)
			if c, ok := st.content[base.Key()]; ok {
				return &Val{Op: "elem", Args: []*Val{c, addr.Args[1]}, Type: t}
			}
			base = base.Args[0]
		}
		if c, ok := st.content[base.Key()]; ok {
			return &Val{Op: "elem", Args: []*Val{c, addr.Args[1]}, Type: t}
		}
		if base.Op == "bufnext" && len(base.Args) == 3 {
			// an element of the view Next handed out: an element of the bytes that read delivered
			return &Val{Op: "elem", Args: []*Val{base.Args[2], addr.Args[1]}, Type: t}
		}
		// … also through a cursor moved along the view (`b = b[2:]` … `b[0]`): the element at the summed offset
		{
			off, b, ok := int64(0), base, true
			for ok && b.Op == "slice" && len(b.Args) >= 3 {
				if b.Args[1] != nil {
					k, isC := b.Args[1].Int64()
					if !isC || k < 0 {
						ok = false
						break
					}
					off += k
				}
				b = b.Args[0]
			}
			if ok && off > 0 && b.Op == "bufnext" && len(b.Args) == 3 {
				if k, isC := addr.Args[1].Int64(); isC {
					return &Val{Op: "elem", Args: []*Val{b.Args[2], mkInt(off + k)}, Type: t}
				}
			}
		}
	}
	root := addrRoot(addr)
	if root != nil && root.Op == "alloc" {
		// a struct made on this path whose fields were stored one by one, read as a whole (copied, captured by a
		// method value …): the aggregate of what its fields hold
		if sv, isStruct := t.Underlying().(*types.Struct); isStruct && sv.NumFields() > 0 && sv.NumFields() <= 96 {
			any := false
			agg := &Val{Op: "struct", Type: t}
			for i := 0; i < sv.NumFields(); i++ {
				fa := &Val{Op: "field", ID: i, Name: sv.Field(i).Name(), Args: []*Val{addr}, Type: types.NewPointer(sv.Field(i).Type())}
				if _, has := st.mem[fa.Key()]; has {
					any = true
				}
				agg.Args = append(agg.Args, e.load(st, fa, sv.Field(i).Type()))
			}
			if any {
				return agg
			}
		}
		// likewise a short array of records filled element by element (a table in a composite literal)
		if av, isArr := t.Underlying().(*types.Array); isArr && av.Len() > 0 && av.Len() <= 16 {
			recs := false
			switch eu := av.Elem().Underlying().(type) {
			case *types.Struct, *types.Pointer, *types.Signature, *types.Interface, *types.Slice:
				recs = true
			case *types.Basic:
				recs = eu.Info()&types.IsString != 0 || (eu.Info()&types.IsNumeric != 0 && eu.Kind() != types.Uint8 && eu.Kind() != types.Int8) // (byte arrays are staged blocks, not tables)
			}
			if recs {
				any := false
				agg := &Val{Op: "array", Type: t}
				for i := int64(0); i < av.Len(); i++ {
					ea := &Val{Op: "index", Args: []*Val{addr, mkInt(i)}, Type: types.NewPointer(av.Elem())}
					if _, has := st.mem[ea.Key()]; has {
						any = true
					}
					agg.Args = append(agg.Args, e.load(st, ea, av.Elem()))
				}
				if any {
					return agg
				}
			}
		}
		// memory allocated on this path and never stored: zero value.
		// (an enclosing aggregate store is handled above for one level)
		if anc := e.storedAncestor(st, addr); anc != nil {
			return anc
		}
		// an array of numbers some of whose elements were stored: the elements as they are now (not the zero value)
		if av, isArr := t.Underlying().(*types.Array); isArr && av.Len() > 0 && av.Len() <= 4096 && isNumberElem(av.Elem()) {
			if _, staged := st.content[addr.Key()]; !staged {
				touched, exact := false, true
				for _, me := range st.mem {
					if me.Addr != nil && me.Addr.Key() != addr.Key() && isAncestorAddr(addr, me.Addr) {
						touched = true
						if me.Addr.Op != "index" || me.Addr.Args[0].Key() != addr.Key() {
							exact = false
						} else if _, isC := me.Addr.Args[1].Int64(); !isC {
							exact = false
						}
					}
				}
				if touched && !exact {
					return &Val{Op: "unknown", ID: e.id(), Name: "array-partly-stored", Type: t}
				}
				if touched {
					agg := &Val{Op: "array", Type: t}
					for i := int64(0); i < av.Len(); i++ {
						ea := &Val{Op: "index", Args: []*Val{addr, mkInt(i)}, Type: types.NewPointer(av.Elem())}
						if me, has := st.mem[ea.Key()]; has {
							agg.Args = append(agg.Args, me.V)
						} else {
							agg.Args = append(agg.Args, zeroVal(av.Elem()))
						}
					}
					return agg
				}
			}
		}
		return zeroVal(t)
	}
	return &Val{Op: "init", Args: []*Val{addr}, Type: t}
}

func isNumberElem(t types.Type) bool {
	b, ok := t.Underlying().(*types.Basic)
	return ok && b.Info()&types.IsNumeric != 0
}

func (e *Engine) storedAncestor(st *state, addr *Val) *Val {
	// walk up: field(field(alloc)) where an ancestor holds an aggregate value
	var chain []*Val
	a := addr
	for a != nil && (a.Op == "field" || a.Op == "index") {
		chain = append(chain, a)
		a = a.Args[0]
		if me, ok := st.mem[a.Key()]; ok {
			v := me.V
			for i := len(chain) - 1; i >= 0; i-- {
				c := chain[i]
				if c.Op == "field" {
					v = fieldOfVal(v, c.ID, c.Name, c.Type)
				} else if k, isC := c.Args[1].Int64(); v.Op == "array" && isC && k >= 0 && int(k) < len(v.Args) {
					v = v.Args[k]
				} else {
					v = &Val{Op: "elem", Args: []*Val{v, c.Args[1]}, Type: c.Type}
				}
			}
			return v
		}
	}
	return nil
}

func fieldOfVal(s *Val, idx int, name string, t types.Type) *Val {
	switch s.Op {
	case "zero":
		return zeroVal(t)
	case "init":
		return &Val{Op: "init", Args: []*Val{{Op: "field", ID: idx, Name: name, Args: []*Val{s.Args[0]}}}, Type: t}
	case "struct":
		if idx < len(s.Args) && s.Args[idx] != nil {
			return s.Args[idx]
		}
	}
	return &Val{Op: "fieldval", ID: idx, Name: name, Args: []*Val{s}, Type: t}
}

func isAncestorAddr(anc, a *Val) bool {
	k := anc.Key()
	for a != nil {
		if a.Key() == k {
			return true
		}
		if a.Op == "field" || a.Op == "index" {
			a = a.Args[0]
		} else {
			return false
		}
	}
	return false
}

func (e *Engine) store(st *state, fr *frame, addr, v *Val, instr ssa.Instruction) {
	// a record assembled in a local and published as a whole (`*r = next`): one store per field
	if sv := stripCT(v); sv != nil && sv.Op == "struct" && sv.Type != nil {
		if root := addrRoot(addr); root == nil || (root.Op != "alloc" && root.Op != "makeslice") {
			if stt, ok := sv.Type.Underlying().(*types.Struct); ok && stt.NumFields() == len(sv.Args) {
				for i := 0; i < stt.NumFields(); i++ {
					fa := &Val{Op: "field", ID: i, Name: stt.Field(i).Name(), Args: []*Val{addr}, Type: types.NewPointer(stt.Field(i).Type())}
					e.store(st, fr, fa, sv.Args[i], instr)
				}
				return
			}
		}
	}
	// invalidate sub-locations
	for k, me := range st.mem {
		if k != addr.Key() && isAncestorAddr(addr, me.Addr) {
			delete(st.mem, k)
		}
	}
	st.mem[addr.Key()] = memEntry{Addr: addr, V: v}
	if sv := stripCT(v); sv != nil && sv.Op == "bytesconst" && addr.Op == "alloc" {
		// a local byte array starting as a copy of a constant one: a record being laid out over a blank
		st.content[addr.Key()] = stagedFromBytes(sv.Aux.([]byte), sv.Type)
	}
	// a field store into a record whose value as a whole is recorded (`marks := T{…}; marks.f = x`): the whole value
	// changes with it
	for a := addr; a.Op == "field" && len(a.Args) == 1; a = a.Args[0] {
		parent := a.Args[0]
		pe, has := st.mem[parent.Key()]
		if !has || parent.Type == nil {
			break
		}
		pt, ok := parent.Type.Underlying().(*types.Pointer)
		if !ok {
			delete(st.mem, parent.Key())
			break
		}
		stt, ok := pt.Elem().Underlying().(*types.Struct)
		if !ok || stt.NumFields() > 32 {
			delete(st.mem, parent.Key())
			break
		}
		agg := &Val{Op: "struct", Type: pt.Elem()}
		for i := 0; i < stt.NumFields(); i++ {
			if i == a.ID {
				agg.Args = append(agg.Args, st.mem[a.Key()].V)
			} else {
				agg.Args = append(agg.Args, fieldOfVal(pe.V, i, stt.Field(i).Name(), stt.Field(i).Type()))
			}
		}
		st.mem[parent.Key()] = memEntry{Addr: parent, V: agg}
	}
	// an element store into a slice whose bytes are known in bulk (filled by a read, staged number …) changes them
	if addr.Op == "index" {
		base := addr.Args[0]
		for base.Op == "slice" && base.Args[1] == nil {
			base = base.Args[0]
		}
		if old, ok := st.content[base.Key()]; ok {
			if so := stripCT(old); so != nil && (so.Op == "staged" || so.Op == "intbytes") && base.Op == "alloc" {
				// a single byte of a record being laid out in a local byte array
				if k, isC := addr.Args[1].Int64(); isC {
					if total, okT := so.Aux.(int); okT || so.Op == "intbytes" {
						if !okT {
							if pt, isP := base.Type.(*types.Pointer); isP {
								if arr, isA := pt.Elem().Underlying().(*types.Array); isA {
									total = int(arr.Len())
								}
							}
						}
						if total > 0 && k >= 0 && int(k) < total {
							stageSeg(st, base, int(k), total, &Val{Op: "intbytes", Name: "", Args: []*Val{v}, Type: types.Typ[types.Uint8]}, so.Type)
							return
						}
					}
				}
			}
			st.content[base.Key()] = &Val{Op: "elemstore", Args: []*Val{old, addr.Args[1], v}, Type: old.Type}
		}
	}
	root := addrRoot(addr)
	if root == nil || (root.Op != "alloc" && root.Op != "makeslice") { // memory made on this path is local
		ev := e.addEvent(st, fr, &Event{Kind: EvStore, Dst: addr, Src: v}, instr)
		if c := e.contentOf(st, v); c != v {
			ev.Args = []*Val{c} // what the stored slice holds at this point
		}
	}
}

// contentOf describes the bytes/elements a slice or string value holds.
func (e *Engine) contentOf(st *state, v *Val) *Val {
	if v == nil {
		return v
	}
	if v.Op == "slice" {
		if c, ok := st.content[v.Key()]; ok {
			return c // content recorded for this very slice value (e.g. filled by a loop)
		}
	}
	if v.Op == "call" && v.Name == "bytes.Repeat" {
		if c, ok := st.content[v.Key()]; ok {
			return c // a pre-filled field something was copied into since
		}
	}
	switch v.Op {
	case "conv":
		// a change of type leaves the value – and what it holds – as it is
		if v.Name == "changetype" && len(v.Args) == 1 {
			if c := e.contentOf(st, v.Args[0]); c != v.Args[0] {
				return c
			}
		}
		return v
	case "call":
		// the result of a bytes/slices function applied to a view of the buffer: its content is the function applied to
		// the view's content
		if strings.HasPrefix(v.Name, "bytes.") || strings.HasPrefix(v.Name, "slices.") {
			changed := false
			args := make([]*Val, len(v.Args))
			for i, a := range v.Args {
				args[i] = a
				if a != nil && a.Contains(func(x *Val) bool { return x.Op == "bufbytes" || x.Op == "bufnext" }) {
					args[i] = e.contentOf(st, a)
					if args[i] != a {
						changed = true
					}
				}
			}
			if changed {
				c := *v
				c.Args = args
				c.key = ""
				return &c
			}
		}
		return v
	case "choice":
		changed := false
		args := make([]*Val, len(v.Args))
		for i, a := range v.Args {
			args[i] = e.contentOf(st, a)
			if args[i] != a {
				changed = true
			}
		}
		if changed {
			return &Val{Op: "choice", Args: args, Type: v.Type, Aux: v.Aux}
		}
		return v
	case "bufnext":
		if len(v.Args) == 3 {
			return v.Args[2]
		}
		return v
	case "makeslice":
		if c, ok := st.content[v.Key()]; ok {
			return c
		}
		return v
	case "slice":
		base := v.Args[0]
		if base.Op == "alloc" && v.Args[1] == nil && v.Args[2] == nil {
			if c, ok := st.content[base.Key()]; ok {
				return c
			}
		}
		if base.Op == "alloc" {
			// part of a local array whose whole content is on record (filled by one read): that part of the content
			if c, ok := st.content[base.Key()]; ok && (v.Args[1] != nil || v.Args[2] != nil) {
				if sc := stripCT(c); sc != nil && (sc.Op == "wire" || sc.Op == "unknown") {
					return &Val{Op: "slice", Args: []*Val{c, v.Args[1], v.Args[2], v.Args[3]}, Type: v.Type}
				}
			}
		}
		if base.Op == "alloc" && (v.Args[1] == nil || isZero(v.Args[1])) && v.Args[2] != nil {
			if c, ok := st.content["front:"+base.Key()]; ok {
				if sc := stripCT(c); sc != nil && sc.Op == "call" && len(sc.Args) == 2 && affEq(sc.Args[1], v.Args[2]) {
					return c
				}
			}
		}
		if base.Op == "alloc" && (v.Args[1] == nil || isZero(v.Args[1])) && v.Args[2] != nil {
			// the front part of a local byte array nothing was ever stored into: that many zero bytes
			if at, ok := st.allocT[base.ID]; ok {
				if arr, ok := at.Underlying().(*types.Array); ok {
					if eb, isB := arr.Elem().Underlying().(*types.Basic); isB && eb.Kind() == types.Uint8 {
						touched := false
						pfx := "slice(" + base.Key() + ","
						for k := range st.content {
							if k == base.Key() || strings.HasPrefix(k, pfx) || k == "front:"+base.Key() {
								touched = true
							}
						}
						for _, me := range st.mem {
							if me.Addr != nil {
								if r := addrRoot(me.Addr); r != nil && r.Key() == base.Key() {
									touched = true
								}
							}
						}
						if !touched {
							zero := mkConst(constant.MakeInt64(0), types.Typ[types.Uint8])
							return &Val{Op: "call", Name: "bytes.Repeat", Args: []*Val{{Op: "arraylit", Args: []*Val{zero}}, v.Args[2]}, Type: v.Type}
						}
					}
				}
			}
		}
		if base.Op == "alloc" { // slice of a local array: collect elements
			if at, ok := st.allocT[base.ID]; ok {
				if arr, ok := at.Underlying().(*types.Array); ok && arr.Len() <= 16 && v.Args[1] == nil && v.Args[2] == nil {
					lit := &Val{Op: "arraylit", Type: v.Type}
					for i := int64(0); i < arr.Len(); i++ {
						ea := &Val{Op: "index", Args: []*Val{base, mkInt(i)}, Type: arr.Elem()}
						lit.Args = append(lit.Args, e.load(st, ea, arr.Elem()))
					}
					return lit
				}
			}
			return v
		}
		c := e.contentOf(st, base)
		if c != base {
			if v.Args[1] == nil && v.Args[2] == nil {
				return c
			}
			return &Val{Op: "slice", Args: []*Val{c, v.Args[1], v.Args[2], v.Args[3]}, Type: v.Type}
		}
	}
	return v
}

func (e *Engine) setContent(st *state, slice *Val, c *Val) {
	base := slice
	for base.Op == "slice" && base.Args[1] == nil && base.Args[2] == nil {
		base = base.Args[0]
	}
	st.content[base.Key()] = c
}

// knownNonNil: is v provably non-nil on this path?
func knownNonNil(st *state, v *Val) bool {
	switch nilness(v) {
	case +1:
		return true
	case -1:
		return false
	}
	if v.Op == "param" && v.Type != nil {
		if _, ok := v.Type.Underlying().(*types.Pointer); ok {
			return true // axiom 6: receivers and buffers passed by the caller are non-nil
		}
	}
	if v.Op == "tassert" && v.Name == "" && len(v.Args) == 1 {
		// the result of a checked assertion that succeeded on this path holds a value (x.(T) with ok == true implies x != nil)
		okKey := (&Val{Op: "tassert", Name: "ok", Args: v.Args}).Key()
		if t, ok := st.facts[okKey]; ok && t {
			return true
		}
	}
	ne := (&Val{Op: "binop", Name: "!=", Args: []*Val{v, mkNil(v.Type)}}).Key()
	if t, ok := st.facts[ne]; ok && t {
		return true
	}
	eq := (&Val{Op: "binop", Name: "==", Args: []*Val{v, mkNil(v.Type)}}).Key()
	if t, ok := st.facts[eq]; ok && !t {
		return true
	}
	return false
}

func (e *Engine) trunc(st *state, reason string) []*outcome {
	if e.truncated == "" {
		e.truncated = reason
	}
	return []*outcome{{st: st, kind: oTrunc, reason: reason}}
}

// execFrom continues the walk at instruction pc of block b (entered from prev).
func (e *Engine) execFrom(st *state, fr *frame, b *ssa.BasicBlock, prev *ssa.BasicBlock, pc int) []*outcome {
	for {
		if pc == 0 {
			// loop handling on block entry
			if len(fr.loops) > 0 {
				lc := fr.loops[len(fr.loops)-1]
				if b == lc.header && prev != nil && lc.body[prev] {
					return []*outcome{{st: st, kind: oIterEnd, fr: fr, exitFrom: prev}}
				}
				if !lc.body[b] {
					return []*outcome{{st: st, kind: oLoopExit, fr: fr, exitTo: b, exitFrom: prev}}
				}
			}
			if body := loopBody(b); body != nil && (prev == nil || !body[prev]) {
				inLoop := false
				for _, lc := range fr.loops {
					if lc.header == b {
						inLoop = true
					}
				}
				if !inLoop && !e.unrollable(fr, b, body) {
					return e.execLoop(st, fr, b, prev, body, nil)
				}
			}
		}
		instrs := b.Instrs
		for ; pc < len(instrs); pc++ {
			switch in := instrs[pc].(type) {
			case *ssa.Phi:
				idx := -1
				for i, p := range b.Preds {
					if p == prev {
						idx = i
					}
				}
				if _, ok := fr.env[in]; ok && len(fr.loops) > 0 && fr.loops[len(fr.loops)-1].header == b {
					// loop header phi pre-bound to a loop variable
					continue
				}
				if idx >= 0 {
					fr.env[in] = e.val(fr, in.Edges[idx])
				} else {
					fr.env[in] = &Val{Op: "unknown", ID: e.id(), Name: "phi", Type: in.Type()}
				}
			case *ssa.If:
				c := e.val(fr, in.Cond)
				t, known := e.evalCond(st, c)
				if known {
					if !c.IsConst() {
						st.conds = append(st.conds, Cond{V: c, Taken: t, Pos: in.Pos(), Fn: fr.fn, At: in})
					}
					if t {
						return e.execFrom(st, fr, b.Succs[0], b, 0)
					}
					return e.execFrom(st, fr, b.Succs[1], b, 0)
				}
				if g := rotatedGuard(b, in, c); g != nil {
					if outs := e.execLoop(st.clone(), fr.clone(), b.Succs[0], b, loopBody(b.Succs[0]), g); outs != nil {
						return outs
					}
				}
				e.paths++
				if e.paths > e.MaxPaths {
					return e.trunc(st, fmt.Sprintf("more than %d paths in %s", e.MaxPaths, fr.fn))
				}
				st2, fr2 := st.clone(), fr.clone()
				e.assume(st, c, true, in.Pos(), fr.fn)
				e.assume(st2, c, false, in.Pos(), fr.fn)
				st.conds[len(st.conds)-1].At = in
				st2.conds[len(st2.conds)-1].At = in
				o1 := e.execFrom(st, fr, b.Succs[0], b, 0)
				o2 := e.execFrom(st2, fr2, b.Succs[1], b, 0)
				return append(o1, o2...)
			case *ssa.Jump:
				prev, b, pc = b, b.Succs[0], 0
				goto nextBlock
			case *ssa.Return:
				var rets []*Val
				for _, r := range in.Results {
					rets = append(rets, e.val(fr, r))
				}
				return []*outcome{{st: st, kind: oReturn, ret: rets, fr: fr}}
			case *ssa.Panic:
				e.addEvent(st, fr, &Event{Kind: EvPanicSite, Mode: "panic", Args: []*Val{e.val(fr, in.X)}}, in)
				return []*outcome{{st: st, kind: oPanic, fr: fr}}
			case *ssa.RunDefers:
				outs := e.runDefers(st, fr, in)
				if len(outs) == 1 && outs[0].cont {
					st = outs[0].st
					continue
				}
				var res []*outcome
				for _, o := range outs {
					if !o.cont {
						res = append(res, &outcome{st: o.st, kind: oPanic, fr: fr})
						continue
					}
					res = append(res, e.execFrom(o.st, fr.clone(), b, prev, pc+1)...)
				}
				return res
			case ssa.CallInstruction:
				results := e.call(st, fr, in)
				if len(results) == 1 && !results[0].panicked {
					st = results[0].st
					if v, ok := in.(ssa.Value); ok {
						fr.env[v] = results[0].val
					}
					continue
				}
				var res []*outcome
				for i, r := range results {
					if r.panicked {
						res = append(res, &outcome{st: r.st, kind: oPanic, fr: fr})
						continue
					}
					f2 := fr
					if i < len(results)-1 {
						f2 = fr.clone()
					}
					if v, ok := in.(ssa.Value); ok {
						f2.env[v] = r.val
					}
					e.paths++
					if e.paths > e.MaxPaths {
						return append(res, e.trunc(r.st, fmt.Sprintf("more than %d paths in %s", e.MaxPaths, fr.fn))...)
					}
					res = append(res, e.execFrom(r.st, f2, b, prev, pc+1)...)
				}
				return res
			default:
				e.step(st, fr, in)
			}
		}
		return e.trunc(st, "block without terminator")
	nextBlock:
	}
}

// unrollable: a loop over a short slice of known length whose body calls the element (a list of closures run in
// order, `for _, step := range steps { step(buf) }`): summarising it would lose which function runs when, so it is
// executed iteration by iteration – the index is a constant, so the loop test decides itself.
func (e *Engine) unrollable(fr *frame, h *ssa.BasicBlock, body map[*ssa.BasicBlock]bool) bool {
	hdr := h
	iff, ok := h.Instrs[len(h.Instrs)-1].(*ssa.If)
	if !ok {
		return false
	}
	bo, ok := iff.Cond.(*ssa.BinOp)
	if ok && (bo.Op == token.EQL || bo.Op == token.NEQ) && len(h.Succs) == 2 {
		// `for i := 0; err == nil && i < n; i++`: the counter test is the second half of the condition
		if c, isC := bo.Y.(*ssa.Const); isC && c.Value == nil {
			next := h.Succs[0]
			if bo.Op == token.NEQ {
				next = h.Succs[1]
			}
			if body[next] && len(next.Instrs) > 0 {
				if iff2, ok2 := next.Instrs[len(next.Instrs)-1].(*ssa.If); ok2 {
					if bo2, ok3 := iff2.Cond.(*ssa.BinOp); ok3 && bo2.Op == token.LSS {
						// (its operands are computed in that block: `len(table)` is re-evaluated there)
						bo, h = bo2, next
					}
				}
			}
		}
	}
	if !ok || bo.Op != token.LSS {
		return false
	}
	if def, isInstr := bo.Y.(ssa.Instruction); isInstr && body[def.Block()] && def.Block() != h {
		return false
	}
	if _, has := fr.env[bo.Y]; !has {
		if _, isC := bo.Y.(*ssa.Const); !isC {
			return false
		}
	}
	n, isC := e.val(fr, bo.Y).Int64()
	if e.UnrollMax > 0 && isC && n >= 0 && n <= int64(e.UnrollMax) {
		return true
	}
	if !isC || n < 0 || n > 16 {
		return false
	}
	// the counter: a header phi starting at a constant and stepped by a constant
	okPhi := false
	for _, in := range hdr.Instrs {
		phi, isPhi := in.(*ssa.Phi)
		if !isPhi {
			break
		}
		if strings.Contains(phi.Comment, "rangeindex") {
			okPhi = true
		}
		// an index loop written out: i := 0 … i++ (the phi starts at a constant and every back edge adds 1 to it)
		if len(phi.Edges) >= 2 {
			consts, steps, other := 0, 0, 0
			for _, ed := range phi.Edges {
				switch x := ed.(type) {
				case *ssa.Const:
					consts++
				case *ssa.BinOp:
					c, isC := x.Y.(*ssa.Const)
					if x.Op == token.ADD && x.X == ssa.Value(phi) && isC && c.Value != nil && c.Int64() == 1 && body[x.Block()] {
						steps++
					} else {
						other++
					}
				default:
					other++
				}
			}
			if consts == 1 && steps >= 1 && other == 0 && bo.X == ssa.Value(phi) {
				okPhi = true
			}
		}
	}
	if !okPhi {
		return false
	}
	for blk := range body {
		for _, in := range blk.Instrs {
			if c, isCall := in.(*ssa.Call); isCall && !c.Call.IsInvoke() && c.Call.StaticCallee() == nil {
				if _, isB := c.Call.Value.(*ssa.Builtin); !isB {
					return true
				}
			}
			// … or that picks the iteration's element out of a short array value written out in this function
			// (`for _, s := range [...]string{p.A, p.B}`)
			if ix, isIx := in.(*ssa.Index); isIx {
				if arr, isArr := ix.X.Type().Underlying().(*types.Array); isArr {
					if eb, isB := arr.Elem().Underlying().(*types.Basic); !isB || eb.Info()&types.IsString != 0 || (eb.Info()&types.IsNumeric != 0 && eb.Kind() != types.Uint8 && eb.Kind() != types.Int8) {
						// (a short array of numbers written out – `range [...]int64{p.Price, p.Qty}` – is a table as well;
						// byte arrays are staged blocks, not tables)
						if def, isInstr := ix.X.(ssa.Instruction); !isInstr || !body[def.Block()] {
							return true
						}
					}
				}
			}
			// ... or whose elements are records or pointers that say what each step works on (a table of field
			// pointers and widths): the element of each iteration is a constant of the program
			if ia, isIA := in.(*ssa.IndexAddr); isIA {
				var el types.Type
				switch xt := ia.X.Type().Underlying().(type) {
				case *types.Slice:
					el = xt.Elem()
				case *types.Pointer:
					if arr, isArr := xt.Elem().Underlying().(*types.Array); isArr {
						el = arr.Elem()
					}
				}
				// … or a short array written out in this function (`for _, s := range [...]string{p.A, p.B}`): each
				// iteration's element is one of the listed values
				if al, isAlloc := ia.X.(*ssa.Alloc); isAlloc && !body[al.Block()] {
					if pt, isP := al.Type().Underlying().(*types.Pointer); isP {
						if arr, isArr := pt.Elem().Underlying().(*types.Array); isArr {
							if eb, isB := arr.Elem().Underlying().(*types.Basic); !isB || eb.Info()&types.IsString != 0 || (eb.Info()&types.IsNumeric != 0 && eb.Kind() != types.Uint8 && eb.Kind() != types.Int8) {
								return true
							}
						}
					}
				}
				if el != nil {
					// a short list of values of different types written out here (`for _, v := range []any{p.Side, p.Price}`)
					if _, isIface := el.Underlying().(*types.Interface); isIface {
						if sl, isSl := ia.X.(*ssa.Slice); isSl && !body[sl.Block()] {
							if al, isAl := sl.X.(*ssa.Alloc); isAl && !body[al.Block()] {
								if pt, isP := al.Type().Underlying().(*types.Pointer); isP {
									if arr, isArr := pt.Elem().Underlying().(*types.Array); isArr && arr.Len() <= 16 {
										return true
									}
								}
							}
						}
					}
					switch el.Underlying().(type) {
					case *types.Struct, *types.Pointer, *types.Signature:
						if def, isInstr := ia.X.(ssa.Instruction); !isInstr || !body[def.Block()] {
							if _, isParam := ia.X.(*ssa.Parameter); !isParam {
								return true
							}
						}
					}
					// … or the arguments of a variadic helper inlined here (`writeNumbers(buf, r.Side, r.Price, …)` with
					// `values ...any`): the slice is a short array written out at the call site
					if par, isParam := ia.X.(*ssa.Parameter); isParam {
						switch el.Underlying().(type) {
						case *types.Interface, *types.Struct, *types.Pointer, *types.Signature:
							if v := stripCT(e.val(fr, par)); v != nil && v.Op == "slice" && len(v.Args) >= 3 && v.Args[1] == nil && stripCT(v.Args[0]).Op == "alloc" {
								if pt, isP := stripCT(v.Args[0]).Type.(*types.Pointer); isP {
									if arr, isArr := pt.Elem().Underlying().(*types.Array); isArr && arr.Len() <= 16 {
										return true
									}
								}
							}
						}
					}
				}
			}
		}
	}
	return false
}

// assume records that cond c evaluated to `taken` on this path.
func (e *Engine) assume(st *state, c *Val, taken bool, pos token.Pos, fn *ssa.Function) {
	st.conds = append(st.conds, Cond{V: c, Taken: taken, Pos: pos, Fn: fn})
	st.facts[c.Key()] = taken
	// !x
	if c.Op == "unop" && c.Name == "!" {
		st.facts[c.Args[0].Key()] = !taken
	}
	// a == b  <=>  !(a != b)
	if c.Op == "binop" && (c.Name == "==" || c.Name == "!=") {
		other := "=="
		if c.Name == "==" {
			other = "!="
		}
		o := &Val{Op: "binop", Name: other, Args: c.Args}
		st.facts[o.Key()] = !taken
		sw := &Val{Op: "binop", Name: c.Name, Args: []*Val{c.Args[1], c.Args[0]}}
		st.facts[sw.Key()] = taken
		sw2 := &Val{Op: "binop", Name: other, Args: []*Val{c.Args[1], c.Args[0]}}
		st.facts[sw2.Key()] = !taken
	}
	if c.Op == "binop" {
		neg := map[string]string{"<": ">=", ">=": "<", ">": "<=", "<=": ">"}
		if n, ok := neg[c.Name]; ok {
			o := &Val{Op: "binop", Name: n, Args: c.Args}
			st.facts[o.Key()] = !taken
		}
	}
}

func (e *Engine) evalCond(st *state, c *Val) (bool, bool) {
	if b, ok := c.Bool(); ok {
		return b, true
	}
	if t, ok := st.facts[c.Key()]; ok {
		return t, true
	}
	if c.Op == "binop" && (c.Name == "!=" || c.Name == "==") {
		x, y := c.Args[0], c.Args[1]
		if y.IsNilConst() && knownNonNil(st, x) || x.IsNilConst() && knownNonNil(st, y) {
			return c.Name == "!=", true
		}
		// a package-level pointer that only its initialiser assigns, with a fresh allocation, is never nil afterwards
		// (`if c == nil` in a method called on the registry object)
		if y.IsNilConst() && e.nonNilGlobalLoad(x) || x.IsNilConst() && e.nonNilGlobalLoad(y) {
			return c.Name == "!=", true
		}
	}
	if c.Op == "unop" && c.Name == "!" {
		if t, ok := e.evalCond(st, c.Args[0]); ok {
			return !t, true
		}
	}
	if t, ok := lenDiffCond(e, st, c); ok {
		return t, true
	}
	// min(a, b, …) is no larger than any of its arguments – nor than something equal to one of them (a second Len()
	// observation with nothing written or read in between)
	if c.Op == "binop" && len(c.Args) == 2 {
		isMin := func(v *Val) *Val {
			v = stripCT(v)
			if v != nil && v.Op == "call" && v.Name == "min" && len(v.Args) >= 2 {
				return v
			}
			return nil
		}
		leq := func(m, y *Val) bool { // every value of m is <= y
			for _, a := range m.Args {
				if affOf(a).Equal(affOf(y)) {
					return true
				}
				eq := &Val{Op: "binop", Name: "==", Args: []*Val{a, y}, Type: types.Typ[types.Bool]}
				if t, ok := lenDiffCond(e, st, eq); ok && t {
					return true
				}
			}
			return false
		}
		if m := isMin(c.Args[0]); m != nil && leq(m, c.Args[1]) {
			switch c.Name {
			case ">":
				return false, true
			case "<=":
				return true, true
			}
		}
		if m := isMin(c.Args[1]); m != nil && leq(m, c.Args[0]) {
			switch c.Name {
			case "<":
				return false, true
			case ">=":
				return true, true
			}
		}
	}
	return false, false
}

// lenDiffCond decides a comparison that involves the difference of two Len() observations of one buffer when
// everything between them on this path appended a known number of bytes (`if buf.Len()-before != 16 { internal error }`
// after writing a 16-byte field): the difference is that number.
func lenDiffCond(e *Engine, st *state, c *Val) (bool, bool) {
	if c.Op != "binop" || len(c.Args) != 2 {
		return false, false
	}
	switch c.Name {
	case "==", "!=", "<", "<=", ">", ">=":
	default:
		return false, false
	}
	d := affOf(c.Args[0]).Add(affOf(c.Args[1]), -1)
	if d.Top {
		return false, false
	}
	var pos, neg *Val
	for k, co := range d.Term {
		sym := d.Sym[k]
		if sym == nil || sym.Op != "buflen" {
			continue
		}
		switch {
		case co == 1 && pos == nil:
			pos = sym
		case co == -1 && neg == nil:
			neg = sym
		default:
			return false, false
		}
	}
	if pos == nil || neg == nil || len(pos.Args) != 1 || len(neg.Args) != 1 || pos.Args[0].Key() != neg.Args[0].Key() {
		return false, false
	}
	all := st.allEvents()
	ia, ib := -1, -1
	for i, ev := range all {
		if ev.Kind == EvLen && ev.ID == neg.ID {
			ia = i
		}
		if ev.Kind == EvLen && ev.ID == pos.ID {
			ib = i
		}
	}
	if ia < 0 || ib < 0 || ia == ib {
		return false, false
	}
	sign := int64(1) // Len@pos - Len@neg = sign * (change of Len() from the earlier to the later observation)
	if ia > ib {
		ia, ib, sign = ib, ia, -1
	}
	var written func(evs []*Event) (*Affine, bool)
	written = func(evs []*Event) (*Affine, bool) {
		w := affConst(0)
		for _, ev := range evs {
			switch ev.Kind {
			case EvWriteInt, EvWriteBytes:
				if ev.Buf == nil || stripIface(ev.Buf).Key() != stripIface(pos.Args[0]).Key() || ev.Size == nil {
					return nil, false
				}
				a := affOf(ev.Size)
				if a.Top {
					return nil, false
				}
				w = w.Add(a, 1)
			case EvReadInt, EvReadBytes:
				// a read that succeeded took exactly its size out of the unread bytes
				if ev.Failed || ev.Short || ev.Buf == nil || stripIface(ev.Buf).Key() != stripIface(pos.Args[0]).Key() || ev.Size == nil {
					return nil, false
				}
				a := affOf(ev.Size)
				if a.Top {
					return nil, false
				}
				w = w.Add(a, -1)
			case EvLen, EvBytes, EvPanicSite, EvAlloc, EvStore, EvLock, EvMapRead, EvLoadGlobal, EvLookup, EvPatch:
			case EvBufOther:
				if !observerMethods[ev.Mode] {
					return nil, false
				}
			case EvAlt:
				var first *Affine
				for _, arm := range ev.Iter {
					a, ok := written(arm.Events)
					if !ok {
						return nil, false
					}
					if first == nil {
						first = a
					} else if !first.Equal(a) {
						return nil, false
					}
				}
				if first != nil {
					w = w.Add(first, 1)
				}
			case EvObj:
				// a nested part of a type whose wire size is fixed: a successful Encode appended, a successful Decode
				// took, exactly that many bytes
				if ev.Failed || ev.Buf == nil || stripIface(ev.Buf).Key() != stripIface(pos.Args[0]).Key() || e == nil || e.ObjSize == nil {
					return nil, false
				}
				n, okN := e.ObjSize(ev)
				if !okN {
					return nil, false
				}
				if ev.Dir == "Encode" {
					w = w.Add(affConst(n), 1)
				} else if ev.Dir == "Decode" {
					w = w.Add(affConst(n), -1)
				} else {
					return nil, false
				}
			case EvRep:
				// a loop that does not touch the buffer (the pad strip over bytes already read, a fill of a local array)
				touches := false
				walkEvents(ev.Iter0Events(), func(x *Event, _ int) {
					switch x.Kind {
					case EvObj, EvCall, EvCalc, EvBufOther:
						touches = true
					}
					if x.Buf != nil && stripIface(x.Buf) != nil && stripIface(x.Buf).Key() == stripIface(pos.Args[0]).Key() && x.Kind != EvLen && x.Kind != EvBytes {
						touches = true
					}
				})
				if touches {
					return nil, false
				}
			default:
				return nil, false
			}
		}
		return w, true
	}
	w, ok := written(all[ia+1 : ib])
	if !ok {
		return false, false
	}
	// d = (Len@b - Len@a) + rest  with  Len@b - Len@a = w
	rest := d.Add(affOf(pos), -1).Add(affOf(neg), 1).Add(w, sign)
	k, isC := rest.IsConst()
	if !isC {
		return false, false
	}
	switch c.Name {
	case "==":
		return k == 0, true
	case "!=":
		return k != 0, true
	case "<":
		return k < 0, true
	case "<=":
		return k <= 0, true
	case ">":
		return k > 0, true
	case ">=":
		return k >= 0, true
	}
	return false, false
}

// loopBody returns the natural loop whose header is h (nil if h is not a loop header).
func loopBody(h *ssa.BasicBlock) map[*ssa.BasicBlock]bool {
	var body map[*ssa.BasicBlock]bool
	for _, p := range h.Preds {
		if h.Dominates(p) {
			if body == nil {
				body = map[*ssa.BasicBlock]bool{h: true}
			}
			// add all blocks that reach p without passing through h
			var stack []*ssa.BasicBlock
			if !body[p] {
				body[p] = true
				stack = append(stack, p)
			}
			for len(stack) > 0 {
				x := stack[len(stack)-1]
				stack = stack[:len(stack)-1]
				for _, q := range x.Preds {
					if !body[q] {
						body[q] = true
						stack = append(stack, q)
					}
				}
			}
		}
	}
	return body
}

// execLoop summarises the loop with header h, entered from prev, as a REP event.
// rotGuard describes the pre-test of a rotated (bottom-tested) loop: `if first < N { do { … } while next < N }`,
// the shape go/ssa gives to `for range n`. The guarded loop is summarised as one REP that may run zero times.
type rotGuard struct {
	exit *ssa.BasicBlock // where both the guard's false edge and the latch's false edge go
	cond *Val            // the guard condition (first < N)
}

func (e *Engine) execLoop(st *state, fr *frame, h, prev *ssa.BasicBlock, body map[*ssa.BasicBlock]bool, guard *rotGuard) []*outcome {
	lid := e.id()
	lc := &loopCtx{header: h, body: body, id: lid}
	// initial values of header phis
	type phiInfo struct {
		phi  *ssa.Phi
		init *Val
		raw  *Val // the initial value as the slice it is (init holds its content)
		lv   *Val
	}
	var phis []*phiInfo
	for _, in := range h.Instrs {
		phi, ok := in.(*ssa.Phi)
		if !ok {
			break
		}
		pi := &phiInfo{phi: phi}
		for i, p := range h.Preds {
			if p == prev {
				pi.init = e.val(fr, phi.Edges[i])
			}
		}
		if pi.init == nil {
			pi.init = &Val{Op: "unknown", ID: e.id(), Name: "phi-init", Type: phi.Type()}
		}
		if _, isSlice := phi.Type().Underlying().(*types.Slice); isSlice {
			// a slice carried round the loop (narrowed step by step): what matters is the bytes it holds on entry
			pi.raw = pi.init
			pi.init = e.contentOf(st, pi.init)
		}
		name := phi.Comment
		if name == "" {
			name = phi.Name()
		}
		pi.lv = &Val{Op: "loopvar", ID: lid, Name: name, Type: phi.Type(), Args: []*Val{pi.init}}
		phis = append(phis, pi)
	}
	// iteration run
	ist := st.clone()
	ist.events = nil
	base := len(st.conds)
	// loop-carried memory: stores in the body to addresses defined outside it. A slice-typed cell is treated like a
	// header phi (`p.List = append(p.List, x)` accumulates in memory exactly as `list = append(list, x)` does in a
	// variable); anything else is unknown inside and after the loop.
	type memPhi struct {
		addr *Val
		typ  types.Type
		init *Val
		lv   *Val
	}
	var memPhis []*memPhi
	seenCell := map[string]bool{}
	for blk := range body {
		for _, in := range blk.Instrs {
			if s, ok := in.(*ssa.Store); ok {
				def, isInstr := s.Addr.(ssa.Instruction)
				var a *Val
				if !isInstr || !body[def.Block()] {
					a = e.val(fr, s.Addr)
				} else if fa, isFA := s.Addr.(*ssa.FieldAddr); isFA {
					// &x.f computed inside the body for an x that does not change in the loop: the same cell every time
					if xd, xIsInstr := fa.X.(ssa.Instruction); !xIsInstr || !body[xd.Block()] {
						if stt, okS := fa.X.Type().Underlying().(*types.Pointer).Elem().Underlying().(*types.Struct); okS {
							a = &Val{Op: "field", ID: fa.Field, Name: stt.Field(fa.Field).Name(), Args: []*Val{e.val(fr, fa.X)}, Type: fa.Type()}
						}
					}
				}
				if a != nil {
					if seenCell[a.Key()] {
						continue
					}
					seenCell[a.Key()] = true
					if _, isSlice := s.Val.Type().Underlying().(*types.Slice); isSlice {
						init := e.load(ist, a, s.Val.Type())
						mp := &memPhi{addr: a, typ: s.Val.Type(), init: init}
						mp.lv = &Val{Op: "loopvar", ID: lid, Name: "mem:" + a.Key(), Type: s.Val.Type(), Args: []*Val{init}}
						memPhis = append(memPhis, mp)
						ist.mem[a.Key()] = memEntry{Addr: a, V: mp.lv}
						continue
					}
					ist.mem[a.Key()] = memEntry{Addr: a, V: &Val{Op: "unknown", ID: e.id(), Name: "loop-carried", Type: s.Val.Type()}}
				}
			}
		}
	}
	ifr := fr.clone()
	ifr.loops = append(ifr.loops, lc)
	for _, pi := range phis {
		ifr.env[pi.phi] = pi.lv
	}
	outs := e.execFrom(ist, ifr, h, prev, 0)

	// classify
	var iters []*Arm
	var iterOuts []*outcome
	var exits, aborts []*outcome
	for _, o := range outs {
		switch o.kind {
		case oIterEnd:
			arm := &Arm{Conds: o.st.conds[base:], Events: o.st.events, Next: map[string]*Val{}}
			for k, me := range o.st.mem {
				if me.Addr == nil || me.Addr.Op != "index" {
					continue
				}
				if old, had := st.mem[k]; had && old.V == me.V {
					continue
				}
				if r := addrRoot(me.Addr); r != nil && (r.Op == "alloc" || r.Op == "makeslice") {
					arm.Local = append(arm.Local, &Event{Kind: EvStore, Dst: me.Addr, Src: me.V})
				}
			}
			for _, mp := range memPhis {
				if me, ok := o.st.mem[mp.addr.Key()]; ok {
					arm.Next[mp.lv.Name] = me.V
				}
			}
			for _, pi := range phis {
				for i, p := range h.Preds {
					if p == o.exitFrom {
						arm.Next[pi.lv.Name] = e.val(o.fr, pi.phi.Edges[i])
					}
				}
			}
			iters = append(iters, arm)
			iterOuts = append(iterOuts, o)
		case oLoopExit:
			exits = append(exits, o)
		default:
			aborts = append(aborts, o)
		}
	}
	// A "sticky" error in the loop condition – `for i := 0; i < n && err == nil; i++ { err = step() }`: a variable that
	// is nil on entry, that every way through the body either leaves nil or sets to something provably non-nil, and
	// that the loop condition tests before the body runs. A way through the body that sets it is the last iteration
	// (the next test leaves the loop): the same as `if err != nil { break }` at the end of the body; and the test
	// itself never fails after an iteration that left the variable nil.
	counterBlock := h
	for _, pi := range phis {
		if !isNilable(pi.phi.Type()) || !pi.init.IsNilConst() || len(iters) == 0 {
			continue
		}
		isStickyTest := func(c Cond) bool { // the condition says lv != nil
			v := stripCT(c.V)
			if v == nil || v.Op != "binop" || len(v.Args) != 2 || (v.Name != "!=" && v.Name != "==") {
				return false
			}
			l, r := stripCT(v.Args[0]), stripCT(v.Args[1])
			if r.Key() == pi.lv.Key() {
				l, r = r, l
			}
			if l.Key() != pi.lv.Key() || !r.IsNilConst() {
				return false
			}
			return (v.Name == "!=") == c.Taken
		}
		var sticky *outcome
		for _, o := range exits {
			cs := o.st.conds[base:]
			onlySites := true
			for _, ev := range o.st.events {
				if ev.Kind != EvPanicSite {
					onlySites = false
				}
			}
			if onlySites && len(cs) > 0 && isStickyTest(cs[len(cs)-1]) && lc.body[o.exitFrom] {
				// (left at the condition, before the body: nothing but the tests has happened)
				if sticky != nil {
					sticky = nil
					break
				}
				sticky = o
			}
		}
		if sticky == nil {
			continue
		}
		okAll := true
		var stay []int
		var leave []int
		for i, it := range iters {
			n := it.Next[pi.lv.Name]
			switch {
			case n != nil && (n.IsNilConst() || n.Key() == pi.lv.Key()):
				stay = append(stay, i)
			case n != nil && nilness(n) == +1:
				leave = append(leave, i)
			default:
				okAll = false
			}
		}
		if !okAll || len(stay) == 0 {
			continue
		}
		var nIters []*Arm
		var nOuts []*outcome
		for _, i := range stay {
			// (inside these iterations the variable is nil: conditions on it are decided)
			nIters = append(nIters, iters[i])
			nOuts = append(nOuts, iterOuts[i])
		}
		var nExits []*outcome
		for _, o := range exits {
			if o != sticky {
				nExits = append(nExits, o)
			}
		}
		for _, i := range leave {
			o := iterOuts[i]
			fr2 := o.fr.clone()
			for _, pj := range phis {
				if nv := iters[i].Next[pj.lv.Name]; nv != nil {
					fr2.env[pj.phi] = nv
				}
			}
			nExits = append(nExits, &outcome{st: o.st, kind: oLoopExit, fr: fr2, exitTo: sticky.exitTo, exitFrom: sticky.exitFrom})
		}
		iters, iterOuts, exits = nIters, nOuts, nExits
		// the counter test is the other half of the condition
		if sticky.exitFrom == h && len(h.Succs) == 2 && lc.body[h.Succs[0]] {
			counterBlock = h.Succs[0]
		}
	}
	// constant step of each header phi (same on every back edge): recorded on the loop variable for monotonicity reasoning
	for _, pi := range phis {
		var step *int64
		okStep := len(iters) > 0
		for _, it := range iters {
			n := it.Next[pi.lv.Name]
			if n == nil {
				okStep = false
				break
			}
			d := affOf(n).Add(affOf(pi.lv), -1)
			k, isC := d.IsConst()
			if !isC || (step != nil && *step != k) {
				okStep = false
				break
			}
			kk := k
			step = &kk
		}
		if okStep && step != nil {
			pi.lv.Aux = *step
		}
		if pi.lv.Aux == nil && len(iters) > 0 && isWordInt(pi.lv.Type) {
			// an accumulator that grows by a non-negative amount of lengths on every back edge (`n += 2 + len(e)`): it
			// never falls below its initial value (a sum of lengths of live objects does not overflow a 64-bit int)
			up := true
			for _, it := range iters {
				n := it.Next[pi.lv.Name]
				if n == nil {
					up = false
					break
				}
				d := affOf(n).Add(affOf(pi.lv), -1)
				if d.Top || d.C < 0 {
					up = false
					break
				}
				for k, c := range d.Term {
					if sym := d.Sym[k]; c <= 0 || sym == nil || (sym.Op != "len" && sym.Op != "cap") {
						up = false
					}
				}
				if !up {
					break
				}
			}
			if up {
				pi.lv.Aux = "up"
			}
		}
	}
	// … and of a variable that is assigned from another one of known step (`end = i` beside `i--`): it moves in
	// lock-step with that one when the assignment keeps the distance their initial values have
	for _, pi := range phis {
		if pi.lv.Aux != nil || len(iters) == 0 {
			continue
		}
		for _, pj := range phis {
			sj, okJ := pj.lv.Aux.(int64)
			if pj == pi || !okJ || sj == 0 {
				continue
			}
			d, okD := affOf(pi.init).Add(affOf(pj.init), -1).IsConst()
			if !okD {
				continue
			}
			all := true
			for _, it := range iters {
				n := it.Next[pi.lv.Name]
				if n == nil {
					all = false
					break
				}
				c0, okC := affOf(n).Add(affOf(pj.lv), -1).IsConst()
				if !okC || c0 != sj+d {
					all = false
					break
				}
			}
			if all {
				pi.lv.Aux = sj
				break
			}
		}
	}
	// trip count
	count, bounded := e.tripCount(counterBlock, ifr, lc, iters)
	if bounded == "" && len(iters) > 0 {
		// a slice that loses at least one element on every iteration: at most len(initial slice) iterations
		for _, pi := range phis {
			if _, isSlice := pi.phi.Type().Underlying().(*types.Slice); !isSlice {
				continue
			}
			all := true
			for _, it := range iters {
				if !narrows(it.Next[pi.lv.Name], pi.lv) {
					all = false
				}
			}
			if all {
				bounded = "shrinking"
			}
		}
	}
	var latchExits []*outcome
	if guard != nil {
		// rotated loop: exits taken from the latch after a complete iteration are the normal end of the loop
		var rest []*outcome
		for _, o := range exits {
			if o.exitTo == guard.exit && (o.exitFrom != h || hasSucc(h, h)) && hasSucc(o.exitFrom, h) {
				latchExits = append(latchExits, o)
			} else {
				rest = append(rest, o)
			}
		}
		if len(latchExits) == 0 {
			return nil
		}
		c, b, ok := e.latchTripCount(latchExits[0], h, lc, iters, guard)
		if !ok {
			return nil
		}
		count, bounded = c, b
		exits = rest
	}
	var inv *Val
	if lc.ctrVar != nil && lc.ctrBound != nil && (bounded == "counted" || bounded == "counted-down" || bounded == "range") {
		// the tested expression satisfies the loop test whenever the body runs (header-tested: the test precedes the
		// body; rotated: the guard before the first iteration, the latch test before every later one)
		tested := affToVal(affOf(lc.ctrVar).Add(affConst(lc.ctrOff), 1))
		op := "<"
		if bounded == "counted-down" {
			op = ">"
		}
		inv = &Val{Op: "binop", Name: op, Args: []*Val{tested, lc.ctrBound}, Type: types.Typ[types.Bool]}
	}
	// a slice narrowed in lock-step with a number that is its length (`for n := len(f); n > 0 && f[n-1] == pad; n-- {
	// f = f[:n-1] }`): len(slice) == number holds on entry and is kept by every back edge, so it holds at the start of
	// every iteration
	var invs []*Val
	if len(iters) > 0 {
		for _, ps := range phis {
			if _, isSlice := ps.phi.Type().Underlying().(*types.Slice); !isSlice {
				continue
			}
			for _, pn := range phis {
				if pn == ps || !isWordInt(pn.lv.Type) {
					continue
				}
				if affOf(pn.init).Top || !(affOf(mkLen(ps.init)).Equal(affOf(pn.init)) || (ps.raw != nil && affOf(e.lenOf(st, ps.raw)).Equal(affOf(pn.init)))) {
					continue
				}
				kept := true
				for _, it := range iters {
					ns, nn := it.Next[ps.lv.Name], it.Next[pn.lv.Name]
					if ns == nil {
						ns = ps.lv
					}
					if nn == nil {
						nn = pn.lv
					}
					// the length of the next slice, with len(this slice) replaced by the number (the hypothesis)
					var nl *Affine
					if x := stripCT(ns); x.Key() == ps.lv.Key() {
						nl = affOf(pn.lv)
					} else if x.Op == "slice" && len(x.Args) >= 3 && stripCT(x.Args[0]).Key() == ps.lv.Key() && (len(x.Args) < 4 || x.Args[3] == nil) {
						hi := affOf(pn.lv)
						if x.Args[2] != nil {
							hi = affOf(x.Args[2])
						}
						nl = hi
						if x.Args[1] != nil {
							nl = hi.Add(affOf(x.Args[1]), -1)
						}
					}
					if nl == nil || nl.Top || !nl.Equal(affOf(nn)) {
						kept = false
						break
					}
				}
				if kept {
					invs = append(invs, &Val{Op: "binop", Name: "==", Args: []*Val{mkLen(ps.lv), pn.lv}, Type: types.Typ[types.Bool]})
				}
			}
		}
	}
	rep := func(partial bool) *Event {
		return &Event{ID: e.id(), Kind: EvRep, LoopID: lid, Count: count, Bounded: bounded, Inv: inv, Invs: invs, Iter: iters, Partial: partial, Pos: firstPos(h), Fn: fr.fn, Site: fr.site}
	}
	// loop-out values of header phis
	loopOut := map[*ssa.Phi]*Val{}
	for _, pi := range phis {
		loopOut[pi.phi] = e.loopOutVal(pi.phi.Type(), pi.init, pi.lv, iters, count, lid, lc)
	}
	// ... and of the slice cells carried in memory: an accumulation that is recognised, or unknown
	memOut := func(nst *state, nfr *frame, complete bool, in ssa.Instruction) {
		for _, mp := range memPhis {
			out := &Val{Op: "unknown", ID: e.id(), Name: "loop-carried", Type: mp.typ}
			if complete {
				if v := e.loopOutVal(mp.typ, mp.init, mp.lv, iters, count, lid, lc); v.Op == "collect" || v.Key() == mp.init.Key() {
					out = v
				}
			}
			nst.mem[mp.addr.Key()] = memEntry{Addr: mp.addr, V: out}
			if r := addrRoot(mp.addr); out.Op == "collect" && (r == nil || (r.Op != "alloc" && r.Op != "makeslice")) {
				// what the cell holds after the loop, as one store (the per-iteration stores are inside the REP)
				ev := &Event{ID: e.id(), Kind: EvStore, Dst: mp.addr, Src: out, Fn: fr.fn, Site: fr.site, Pos: firstPos(h), NCond: len(nst.conds)}
				nst.events = append(nst.events, ev)
			}
		}
	}
	// exits of an effect-free loop that reach the same block are one outcome: the header phis take their
	// loop-exit value, whichever test ended the loop
	if len(exits) > 1 {
		same := true
		for _, o := range exits {
			if o.exitTo != exits[0].exitTo {
				same = false
			}
			for _, ev := range o.st.events {
				if ev.Kind != EvPanicSite { // panic sites of the last, incomplete iteration recur in the iteration arm
					same = false
				}
			}
		}
		if same {
			tgt := exits[0].exitTo
			for _, in := range tgt.Instrs {
				phi, isPhi := in.(*ssa.Phi)
				if !isPhi {
					break
				}
				var first ssa.Value
				for _, o := range exits {
					for i, pr := range tgt.Preds {
						if pr == o.exitFrom {
							if first == nil {
								first = phi.Edges[i]
							} else if first != phi.Edges[i] {
								same = false
							}
						}
					}
				}
			}
		}
		for _, it := range iters {
			for _, ev := range it.Events {
				if ev.Kind != EvPanicSite {
					same = false
				}
			}
		}
		if same {
			keep := exits[0]
			for _, o := range exits {
				if o.exitFrom == h {
					keep = o
				}
			}
			exits = []*outcome{keep}
		}
	}
	fillS, fillC := fillLoop(iters, count, lid)
	var res []*outcome
	if len(latchExits) > 0 {
		o := latchExits[0]
		nst := st.clone()
		nst.mem = o.st.mem
		nst.content = o.st.content
		applyFill(nst, fillS, fillC)
		for k, v := range o.st.allocT {
			nst.allocT[k] = v
		}
		ev := rep(false)
		ev.NCond = len(nst.conds)
		nst.events = append(nst.events, ev)
		nfr := fr.clone()
		for k, v := range o.fr.env {
			nfr.env[k] = v
		}
		memOut(nst, nfr, true, nil)
		for _, pi := range phis {
			nfr.env[pi.phi] = loopOut[pi.phi]
			// the value carried to the next iteration is, after the last iteration, the loop-exit value
			for i, p := range h.Preds {
				if p == o.exitFrom {
					if _, isConst := pi.phi.Edges[i].(*ssa.Const); !isConst {
						nfr.env[pi.phi.Edges[i]] = loopOut[pi.phi]
					}
				}
			}
		}
		res = append(res, e.execFrom(nst, nfr, o.exitTo, o.exitFrom, 0)...)
	}
	for _, o := range exits {
		nst := st.clone()
		nst.mem = o.st.mem
		nst.content = o.st.content
		for k, v := range o.st.allocT {
			nst.allocT[k] = v
		}
		early := len(o.st.events) > 0 || (o.exitFrom != h && o.exitFrom != counterBlock)
		ev := rep(early)
		ev.NCond = len(nst.conds)
		nst.events = append(nst.events, ev)
		nfr := fr.clone()
		for k, v := range o.fr.env {
			nfr.env[k] = v
		}
		if early {
			nst.events = append(nst.events, o.st.events...)
			nst.conds = append([]Cond(nil), o.st.conds...)
			memOut(nst, nfr, false, nil)
		} else {
			memOut(nst, nfr, true, nil)
			if fillS != nil {
				applyFill(nst, fillS, fillC)
			}
			for _, pi := range phis {
				nfr.env[pi.phi] = loopOut[pi.phi]
			}
			// header-defined values computed from phis (e.g. the tested i+1) are loop-final too
		}
		res = append(res, e.execFrom(nst, nfr, o.exitTo, o.exitFrom, 0)...)
	}
	for _, o := range aborts {
		nst := st.clone()
		nst.mem = o.st.mem
		nst.content = o.st.content
		ev := rep(true)
		ev.NCond = len(nst.conds)
		nst.events = append(nst.events, ev)
		nst.events = append(nst.events, o.st.events...)
		nst.conds = append([]Cond(nil), o.st.conds...)
		memOut(nst, nil, false, nil)
		o2 := *o
		o2.st = nst
		if o2.kind == oIterEnd || o2.kind == oLoopExit {
			// belongs to an enclosing loop context – propagate unchanged
		}
		res = append(res, &o2)
	}
	if len(exits) == 0 && len(aborts) == 0 && len(latchExits) == 0 {
		nst := st.clone()
		nst.events = append(nst.events, rep(false))
		res = append(res, &outcome{st: nst, kind: oTrunc, reason: "loop without exit in " + fr.fn.String()})
	}
	return res
}


func firstPos(b *ssa.BasicBlock) token.Pos {
	for _, in := range b.Instrs {
		if in.Pos().IsValid() {
			return in.Pos()
		}
	}
	for _, s := range b.Succs {
		for _, in := range s.Instrs {
			if in.Pos().IsValid() {
				return in.Pos()
			}
		}
	}
	return token.NoPos
}

// tripCount recognises counted loops: the header ends in `if v < N` where v is
// an affine function (+c) of a header phi that is incremented by exactly one on
// every back edge, and N does not vary in the loop.
func (e *Engine) tripCount(h *ssa.BasicBlock, ifr *frame, lc *loopCtx, iters []*Arm) (*Val, string) {
	unknown := &Val{Op: "unknown", ID: e.id(), Name: "tripcount", Type: types.Typ[types.Int]}
	iff, ok := h.Instrs[len(h.Instrs)-1].(*ssa.If)
	if !ok {
		return unknown, ""
	}
	bo, ok := iff.Cond.(*ssa.BinOp)
	if ok && bo.Op == token.EQL && !lc.body[h.Succs[0]] && lc.body[h.Succs[1]] {
		// `for { if i == n { break }; … }`: continues while i != n
		c := e.val(ifr, bo)
		if c.Op == "binop" && c.Name == "==" && len(c.Args) == 2 {
			return e.tripCountOf(&Val{Op: "binop", Name: "!=", Args: c.Args, Type: c.Type}, bo, h, ifr, lc, iters, unknown)
		}
		return unknown, ""
	}
	if ok && (bo.Op == token.LSS || bo.Op == token.GTR || bo.Op == token.LEQ || bo.Op == token.GEQ) && !lc.body[h.Succs[0]] && lc.body[h.Succs[1]] {
		// `for { if end <= start { break }; … }`: leaves when the comparison holds, so it continues on its negation
		c := e.val(ifr, bo)
		neg := map[string]string{"<": ">=", ">=": "<", ">": "<=", "<=": ">"}
		if c.Op == "binop" && len(c.Args) == 2 && neg[c.Name] != "" {
			return e.tripCountOf(&Val{Op: "binop", Name: neg[c.Name], Args: c.Args, Type: c.Type}, bo, h, ifr, lc, iters, unknown)
		}
		return unknown, ""
	}
	if !ok || (bo.Op != token.LSS && bo.Op != token.GTR && bo.Op != token.LEQ && bo.Op != token.GEQ && bo.Op != token.NEQ) || !lc.body[h.Succs[0]] || lc.body[h.Succs[1]] {
		return unknown, ""
	}
	return e.tripCountOf(e.val(ifr, bo), bo, h, ifr, lc, iters, unknown)
}

func (e *Engine) tripCountOf(c *Val, bo *ssa.BinOp, h *ssa.BasicBlock, ifr *frame, lc *loopCtx, iters []*Arm, unknown *Val) (*Val, string) {
	if c.Op == "binop" && c.Name == "!=" && len(c.Args) == 2 {
		// `for i := 0; i != n; i++` with n of an unsigned type (or a length): i climbs from 0 and meets n before anything
		// else – the same loop as `i < n`
		lv, n := stripCT(c.Args[0]), c.Args[1]
		okN := false
		if n.Type != nil {
			if bt, isB := n.Type.Underlying().(*types.Basic); isB && bt.Info()&types.IsUnsigned != 0 {
				okN = true
			}
		}
		if sn := stripCT(n); sn.Op == "len" || sn.Op == "buflen" {
			okN = true
		}
		if lo, _, okR := typeRangeOf(n); okR && constant.Sign(lo) >= 0 {
			okN = true
		}
		fromZero := lv.Op == "loopvar" && lv.ID == lc.id && len(lv.Args) == 1 && isZero(lv.Args[0])
		// … or the length of the slice being built, which starts empty (`for { if len(items) == n { break } … append }`)
		if lv.Op == "len" && len(lv.Args) == 1 {
			if sl := stripCT(lv.Args[0]); sl.Op == "loopvar" && sl.ID == lc.id && len(sl.Args) == 1 {
				if l0, isC := affOf(mkLen(sl.Args[0])).IsConst(); isC && l0 == 0 {
					fromZero = true
				}
			}
		}
		if fromZero && okN && !n.Contains(func(v *Val) bool { return v.Op == "loopvar" && v.ID == lc.id }) {
			c = &Val{Op: "binop", Name: "<", Args: c.Args, Type: c.Type}
		}
	}
	if c.Op != "binop" || (c.Name != "<" && c.Name != ">" && c.Name != "<=" && c.Name != ">=") {
		return unknown, ""
	}
	// the moving side on the right (`start < end` with end counted down, `0 < n`): the same test read from the other side
	if len(c.Args) == 2 {
		moves := func(v *Val) bool {
			return v != nil && v.Contains(func(x *Val) bool { return x.Op == "loopvar" && x.ID == lc.id })
		}
		if !moves(c.Args[0]) && moves(c.Args[1]) {
			flip := map[string]string{"<": ">", ">": "<", "<=": ">=", ">=": "<="}
			c = &Val{Op: "binop", Name: flip[c.Name], Args: []*Val{c.Args[1], c.Args[0]}, Type: c.Type}
		}
	}
	down := c.Name == ">" || c.Name == ">="
	tested, bound := c.Args[0], c.Args[1]
	// `i <= n` steps once more after i == n and `i >= n` once below n: in a narrow or unsigned counter type that step
	// wraps when n is the type's largest (smallest) value, and the loop does not end there – not a counted loop unless
	// the bound provably stays inside the type
	if cb, isB := bo.X.Type().Underlying().(*types.Basic); isB && cb.Info()&types.IsInteger != 0 && (c.Name == "<=" || c.Name == ">=") {
		bits, uns := intBits(cb)
		if bits > 0 && (bits < 64 || uns) {
			one := constant.MakeInt64(1)
			var tmax, tmin constant.Value
			if uns {
				tmax, tmin = constant.BinaryOp(constant.Shift(one, token.SHL, uint(bits)), token.SUB, one), constant.MakeInt64(0)
			} else {
				h := constant.Shift(one, token.SHL, uint(bits-1))
				tmax, tmin = constant.BinaryOp(h, token.SUB, one), constant.UnaryOp(token.SUB, h, 0)
			}
			inside := false
			if bound.IsConst() && bound.C != nil && bound.C.Kind() == constant.Int {
				inside = (c.Name == "<=" && constant.Compare(bound.C, token.LSS, tmax)) || (c.Name == ">=" && constant.Compare(bound.C, token.GTR, tmin))
			} else if lo, hi, okR := typeRangeOf(bound); okR {
				inside = (c.Name == "<=" && constant.Compare(hi, token.LSS, tmax)) || (c.Name == ">=" && constant.Compare(lo, token.GTR, tmin))
			}
			if !inside {
				return unknown, ""
			}
		}
	}
	// over the integers  v >= N  is  v > N-1  and  v <= N  is  v < N+1
	switch c.Name {
	case ">=":
		bound = affToVal(affOf(bound).Add(affConst(1), -1))
	case "<=":
		bound = affToVal(affOf(bound).Add(affConst(1), 1))
	}
	if affOf(bound).Top {
		return unknown, ""
	}
	if bound.Contains(func(v *Val) bool { return v.Op == "loopvar" && v.ID == lc.id || v.Op == "unknown" }) {
		return unknown, ""
	}
	// tested = loopvar + k
	a := affOf(tested)
	if a.Top || len(a.Term) != 1 {
		return unknown, ""
	}
	var lv *Val
	for k, coef := range a.Term {
		if coef != 1 {
			return unknown, ""
		}
		lv = a.Sym[k]
	}
	if lv.Op == "len" && len(lv.Args) == 1 && lv.Args[0].Op == "loopvar" && lv.Args[0].ID == lc.id && !down && len(iters) > 0 && len(lv.Args[0].Args) == 1 {
		// `for len(items) < n { …; items = append(items, x) }`: the length of the slice being built is the counter
		sl := lv.Args[0]
		for _, it := range iters {
			n := it.Next[sl.Name]
			if n == nil || n.Op != "call" || n.Name != "append" || len(n.Args) != 2 || n.Args[0].Key() != sl.Key() {
				return unknown, ""
			}
			if el := stripCT(n.Args[1]); el.Op != "arraylit" || len(el.Args) != 1 {
				return unknown, ""
			}
		}
		first := affConst(a.C).Add(affOf(mkLen(sl.Args[0])), 1)
		if first.Top {
			return unknown, ""
		}
		return affToVal(affOf(bound).Add(first, -1)), "counted"
	}
	if lv.Op != "loopvar" || lv.ID != lc.id {
		return unknown, ""
	}
	// every back edge: next = lv + 1 (or lv - 1 for a descending loop)
	if len(iters) == 0 {
		return unknown, ""
	}
	want := int64(1)
	if down {
		want = -1
	}
	for _, it := range iters {
		n := it.Next[lv.Name]
		if n == nil {
			return unknown, ""
		}
		d := affOf(n).Add(affOf(lv), -1)
		if k, ok := d.IsConst(); !ok || k != want {
			return unknown, ""
		}
	}
	lc.ctrVar, lc.ctrOff, lc.ctrBound = lv, a.C, bound
	if down {
		first := affConst(a.C).Add(affOf(lv.Args[0]), 1)
		return affToVal(first.Add(affOf(bound), -1)), "counted-down"
	}
	// first tested value = init + k ; count = bound - first  (clamped at 0)
	first := affConst(a.C).Add(affOf(lv.Args[0]), 1)
	cnt := affOf(bound).Add(first, -1)
	kind := "counted"
	if strings.Contains(h.Comment, "rangeindex") {
		kind = "range"
	}
	return affToVal(cnt), kind
}

func affToVal(a *Affine) *Val {
	if a.Top {
		return &Val{Op: "unknown", Name: "affine-top"}
	}
	var v *Val
	keys := make([]string, 0, len(a.Term))
	for k := range a.Term {
		keys = append(keys, k)
	}
	sort.Strings(keys)
	for _, k := range keys {
		t := a.Sym[k]
		c := a.Term[k]
		var term *Val
		switch {
		case c == 1:
			term = t
		default:
			term = &Val{Op: "binop", Name: "*", Args: []*Val{mkInt(c), t}, Type: types.Typ[types.Int]}
		}
		if v == nil {
			v = term
		} else {
			v = &Val{Op: "binop", Name: "+", Args: []*Val{v, term}, Type: types.Typ[types.Int]}
		}
	}
	if v == nil {
		return mkInt(a.C)
	}
	if a.C != 0 {
		v = &Val{Op: "binop", Name: "+", Args: []*Val{v, mkInt(a.C)}, Type: types.Typ[types.Int]}
	}
	return v
}

// loopOutVal describes the value of a header phi after the loop.
// fillLoop recognises `for i := range s { s[i] = v }` (or the counted spelling over len(s)): one iteration path whose
// only effect is the store of a loop-invariant value into element i of a slice defined outside the loop, i running
// from 0 in steps of one, len(s) times. After the loop s holds len(s) copies of v.
func fillLoop(iters []*Arm, count *Val, lid int) (*Val, *Val) {
	if len(iters) != 1 || count == nil {
		return nil, nil
	}
	var store *Event
	reads := false // the iteration also reads from a buffer: `s[i], err = Read(buf)` fills s with what the iterations read
	for _, ev := range iters[0].Events {
		switch ev.Kind {
		case EvPanicSite, EvAlloc, EvLen:
		case EvStore:
			if store != nil {
				return nil, nil
			}
			store = ev
		case EvReadInt, EvReadBytes, EvObj, EvRep, EvAlt:
			if ev.Failed {
				return nil, nil
			}
			reads = true
		default:
			return nil, nil
		}
	}
	for _, ev := range iters[0].Local {
		if store != nil {
			return nil, nil
		}
		store = ev
	}
	if os.Getenv("FPDEBUG") != "" {
		fmt.Fprintln(os.Stderr, "fillLoop: store", store != nil, "events", len(iters[0].Events), "local", len(iters[0].Local))
	}
	if store == nil || store.Dst == nil || store.Dst.Op != "index" || len(store.Dst.Args) != 2 {
		return nil, nil
	}
	S, idx := store.Dst.Args[0], store.Dst.Args[1]
	isLV := func(x *Val) bool { return x.Op == "loopvar" && x.ID == lid }
	if os.Getenv("FPDEBUG") != "" {
		fmt.Fprintln(os.Stderr, "fillLoop: S", S.Pretty(), "idx", idx.Pretty(), "src", valOrNil(store.Src), "dstop", store.Dst.Op)
	}
	if S.Contains(isLV) || store.Src == nil {
		return nil, nil
	}
	// `for i := copy(dst, s); i < len(dst); i++ { dst[i] = pad }` with dst a field of a record laid out in a local byte
	// array: the rest of the field behind the copied text
	if a := affOf(idx); !a.Top && len(a.Term) == 1 && !reads {
		for k, c := range a.Term {
			lv := a.Sym[k]
			if c != 1 || !isLV(lv) || len(lv.Args) != 1 {
				break
			}
			cp := stripCT(lv.Args[0])
			if cp.Op != "call" || cp.Name != "copy" || len(cp.Args) != 2 {
				break
			}
			D := cp.Args[0]
			base, lo, hi, _, okD := byteArraySegment(D)
			if !okD {
				break
			}
			// the element written is element i of dst
			sameTarget := (S.Key() == D.Key() && a.C == 0) || (S.Key() == base.Key() && a.C == int64(lo))
			nx := iters[0].Next[lv.Name]
			if !sameTarget || nx == nil {
				break
			}
			if k1, ok := affOf(nx).Add(affOf(lv), -1).IsConst(); !ok || k1 != 1 {
				break
			}
			if !affOf(count).Equal(affConst(int64(hi - lo)).Add(affOf(lv.Args[0]), -1)) {
				break
			}
			if store.Src.Contains(func(x *Val) bool { return isLV(x) || x.Op == "wire" || x.Op == "elem" }) {
				break
			}
			return D, &Val{Op: "padfill", Args: []*Val{store.Src, cp.Args[1]}, Type: D.Type}
		}
	}
	bulk := false
	var bulkW *Val
	var bulkOrd string
	if reads {
		// element i is what iteration i read: the same accumulation as `s = append(s, v)` onto an empty slice
		a := affOf(idx)
		var lv *Val
		if a.Top || len(a.Term) != 1 {
			return nil, nil
		}
		for k, c := range a.Term {
			if c != 1 {
				return nil, nil
			}
			lv = a.Sym[k]
		}
		if !isLV(lv) || len(lv.Args) != 1 {
			return nil, nil
		}
		if init, isC := lv.Args[0].Int64(); !isC || init+a.C != 0 {
			return nil, nil
		}
		if next := iters[0].Next[lv.Name]; next == nil {
			return nil, nil
		} else if k, ok := affOf(next).Add(affOf(lv), -1).IsConst(); !ok || k != 1 {
			return nil, nil
		}
		if !affOf(count).Equal(affOf(mkLen(S))) || !store.Src.Contains(func(x *Val) bool { return x.Op == "wire" || x.Op == "alloc" || x.Op == "collect" }) {
			return nil, nil
		}
		return S, &Val{Op: "collect", ID: lid, Args: []*Val{mkNil(S.Type), {Op: "arraylit", Args: []*Val{store.Src}}, count}, Type: S.Type}
	}
	if store.Src.Contains(func(x *Val) bool { return isLV(x) || x.Op == "wire" || x.Op == "elem" }) {
		// s[i] = ByteOrder.UintN(W[k*i:]) (or W[k*i : k*i+k]) with k the size of the number and of s's elements: s is
		// the sequence of numbers that W holds
		src := stripCT(store.Src)
		var outer types.Type
		for src.Op == "conv" && len(src.Args) == 1 && isIntegerType(src.Type) {
			if outer == nil {
				outer = src.Type
			}
			src = stripCT(src.Args[0])
		}
		if src.Op != "call" || len(src.Args) != 1 {
			return nil, nil
		}
		var k int64
		for _, o := range []struct{ pfx, o string }{{"(encoding/binary.bigEndian).Uint", "BE"}, {"(encoding/binary.littleEndian).Uint", "LE"}} {
			if strings.HasPrefix(src.Name, o.pfx) {
				bulkOrd = o.o
				k = map[string]int64{"16": 2, "32": 4, "64": 8}[strings.TrimPrefix(src.Name, o.pfx)]
			}
		}
		sl := stripCT(src.Args[0])
		if k == 0 || sl.Op != "slice" || sl.Args[1] == nil || sl.Args[0].Contains(isLV) {
			return nil, nil
		}
		if st, isSl := S.Type.Underlying().(*types.Slice); !isSl {
			return nil, nil
		} else if esz, ok := fixedSize(st.Elem()); !ok || esz != k || !isIntegerType(st.Elem()) {
			return nil, nil
		}
		if outer != nil {
			if osz, ok := fixedSize(outer); !ok || osz != k {
				return nil, nil
			}
		}
		lo := affOf(sl.Args[1])
		if lo.Top || !lo.Equal(affOf(idx).Scale(k)) {
			return nil, nil
		}
		if sl.Args[2] != nil && !affOf(sl.Args[2]).Equal(lo.Add(affConst(k), 1)) {
			return nil, nil
		}
		bulk, bulkW = true, stripCT(sl.Args[0])
	}
	// `var scratch [N]byte; for i := 0; i < n; i++ { scratch[i] = v }`: the first n bytes of a local array filled with one
	// loop-invariant byte (n <= N is the index check's business): scratch[:n] then holds n copies of it
	if S.Type != nil && S.Op == "alloc" && !bulk && !reads {
		if pt, isP := S.Type.Underlying().(*types.Pointer); isP {
			if arr, isArr := pt.Elem().Underlying().(*types.Array); isArr {
				if eb, isB := arr.Elem().Underlying().(*types.Basic); isB && eb.Kind() == types.Uint8 && !store.Src.Contains(func(x *Val) bool { return isLV(x) || x.Op == "wire" || x.Op == "elem" }) {
					a := affOf(idx)
					var lv *Val
					if !a.Top && len(a.Term) == 1 {
						for k, c := range a.Term {
							if c == 1 {
								lv = a.Sym[k]
							}
						}
					}
					if lv != nil && isLV(lv) && len(lv.Args) == 1 {
						if init, isC := lv.Args[0].Int64(); isC && init+a.C == 0 {
							if next := iters[0].Next[lv.Name]; next != nil {
								if k, ok := affOf(next).Add(affOf(lv), -1).IsConst(); ok && k == 1 {
									bt := types.NewSlice(arr.Elem())
									front := &Val{Op: "slice", Args: []*Val{S, nil, count, nil}, Type: bt}
									return front, &Val{Op: "call", Name: "bytes.Repeat", Args: []*Val{{Op: "arraylit", Args: []*Val{store.Src}}, count}, Type: bt}
								}
							}
						}
					}
				}
			}
		}
	}
	if _, isSlice := S.Type.Underlying().(*types.Slice); S.Type == nil || !isSlice {
		return nil, nil
	}
	a := affOf(idx)
	if os.Getenv("FPDEBUG") != "" {
		fmt.Fprintln(os.Stderr, "fillLoop: idx", idx.Pretty(), "aff", a.String(), "S type", S.Type)
	}
	if a.Top || len(a.Term) != 1 {
		return nil, nil
	}
	var lv *Val
	for k, c := range a.Term {
		if c != 1 {
			return nil, nil
		}
		lv = a.Sym[k]
	}
	if !isLV(lv) || len(lv.Args) != 1 {
		return nil, nil
	}
	init, isC := lv.Args[0].Int64()
	if os.Getenv("FPDEBUG") != "" {
		fmt.Fprintln(os.Stderr, "fillLoop: lv init", lv.Args[0].Pretty(), "S", S.Key(), "count", count.Pretty(), "a.C", a.C)
	}
	if !isC || init+a.C != 0 {
		return nil, nil
	}
	next := iters[0].Next[lv.Name]
	if next == nil {
		return nil, nil
	}
	if k, ok := affOf(next).Add(affOf(lv), -1).IsConst(); !ok || k != 1 {
		return nil, nil
	}
	if !affOf(count).Equal(affOf(mkLen(S))) {
		return nil, nil
	}
	if bulk {
		return S, &Val{Op: "bulkints", Name: bulkOrd, Args: []*Val{bulkW, count}, Type: S.Type}
	}
	c := &Val{Op: "call", Name: "bytes.Repeat", Args: []*Val{{Op: "arraylit", Args: []*Val{store.Src}}, count}, Type: S.Type}
	return S, c
}

// hasEffects: the iteration does something besides possible panic sites.
func (a *Arm) hasEffects() bool {
	for _, e := range a.Events {
		if e.Kind != EvPanicSite {
			return true
		}
	}
	return false
}

// appendedInt: n is ByteOrder.AppendUintN(_, x); returns the staged number intbytes(x).
func appendedInt(n *Val) *Val {
	for _, ord := range []struct{ pfx, o string }{{"(encoding/binary.bigEndian).AppendUint", "BE"}, {"(encoding/binary.littleEndian).AppendUint", "LE"}} {
		if !strings.HasPrefix(n.Name, ord.pfx) {
			continue
		}
		var it types.Type
		switch strings.TrimPrefix(n.Name, ord.pfx) {
		case "16":
			it = types.Typ[types.Uint16]
		case "32":
			it = types.Typ[types.Uint32]
		case "64":
			it = types.Typ[types.Uint64]
		default:
			return nil
		}
		return &Val{Op: "intbytes", Name: ord.o, Args: []*Val{n.Args[1]}, Type: it}
	}
	return nil
}

// narrows: next is lv[k:] or lv[:len(lv)-k] with a constant k >= 1.
func narrows(next, lv *Val) bool {
	if next == nil || next.Op != "slice" || len(next.Args) < 4 || next.Args[0].Key() != lv.Key() || next.Args[3] != nil {
		return false
	}
	lo, hi := next.Args[1], next.Args[2]
	L := affOf(mkLen(lv))
	loK := int64(0)
	if lo != nil {
		k, ok := lo.Int64()
		if !ok || k < 0 {
			return false
		}
		loK = k
	}
	hiK := int64(0)
	if hi != nil {
		d := L.Add(affOf(hi), -1) // len(lv) - hi
		k, ok := d.IsConst()
		if !ok || k < 0 {
			return false
		}
		hiK = k
	}
	return loK+hiK >= 1
}

func (e *Engine) loopOutVal(phiType types.Type, init, lv *Val, iters []*Arm, count *Val, lid int, lc *loopCtx) *Val {
	// append accumulation: next = append(lv, elems)
	if len(iters) > 0 {
		var elem *Val
		var elems []*Val
		differ := false
		ok := true
		same := true
		for _, it := range iters {
			n := it.Next[lv.Name]
			if n == nil {
				ok = false
				break
			}
			if n.Key() != lv.Key() && !(init != nil && n.Key() == init.Key() && (n.IsConst() || n.IsNilConst())) {
				same = false // (re-assigning the constant it started with leaves it as it was)
			}
			if n.Op == "call" && n.Name == "append" && len(n.Args) == 2 && n.Args[0].Key() == lv.Key() {
				elems = append(elems, n.Args[1])
				if elem == nil {
					elem = n.Args[1]
				} else if elem.Key() != n.Args[1].Key() {
					differ = true
				}
			} else {
				ok = false
			}
		}
		if same {
			return init
		}
		if ok && differ {
			// one element appended on every way through the body, not the same expression on each: the element is the one
			// of the way taken (alternative i belongs to iteration path i)
			ch := &Val{Op: "choice", Name: "perarm"}
			for _, el := range elems {
				a := stripCT(el)
				if a.Op != "arraylit" || len(a.Args) != 1 {
					ok = false
					break
				}
				ch.Args = append(ch.Args, a.Args[0])
				ch.Type = a.Args[0].Type
			}
			if ok {
				elem = &Val{Op: "arraylit", Args: []*Val{ch}, Type: elems[0].Type}
			}
		}
		if ok && elem != nil {
			return &Val{Op: "collect", ID: lid, Args: []*Val{init, elem, count}, Type: phiType}
		}
		// staged output: next = ByteOrder.AppendUintN(lv, x) on every iteration
		if len(iters) == 1 {
			if n := iters[0].Next[lv.Name]; n != nil && n.Op == "call" && len(n.Args) == 2 && n.Args[0].Key() == lv.Key() {
				if ib := appendedInt(n); ib != nil && count != nil && !iters[0].hasEffects() {
					return &Val{Op: "stagedrep", ID: lid, Args: []*Val{init, ib, count}, Type: phiType}
				}
			}
		}
	}
	out := &Val{Op: "loopout", ID: lid, Name: lv.Name, Args: []*Val{init}, Type: phiType, Aux: lv.Aux}
	if lc.ctrVar != nil && lc.ctrVar.Key() == lv.Key() && lc.ctrOff == 0 && lc.ctrBound != nil {
		// the counter of a counted loop: on exit it lies between its initial value and the bound
		out.Args = append(out.Args, lc.ctrBound)
	} else if lc.ctrVar != nil && lc.ctrBound != nil && lc.ctrVar.Key() != lv.Key() && len(lc.ctrVar.Args) == 1 {
		// a second variable moving in lock-step with the counter (same constant step on every back edge): it stays at a
		// constant distance from the tested expression, so it has the bound shifted by that distance
		s1, ok1 := lv.Aux.(int64)
		s2, ok2 := lc.ctrVar.Aux.(int64)
		if ok1 && ok2 && s1 == s2 && s1 != 0 {
			d := affOf(init).Add(affOf(lc.ctrVar.Args[0]), -1).Add(affConst(lc.ctrOff), -1)
			if k, isC := d.IsConst(); isC {
				out.Args = append(out.Args, affToVal(affOf(lc.ctrBound).Add(affConst(k), 1)))
			}
		}
	}
	return out
}

type deferOut struct {
	st   *state
	cont bool
}

func (e *Engine) runDefers(st *state, fr *frame, in ssa.Instruction) []deferOut {
	outs := []deferOut{{st: st, cont: true}}
	for i := len(fr.defers) - 1; i >= 0; i-- {
		d := fr.defers[i]
		var next []deferOut
		for _, o := range outs {
			if !o.cont {
				next = append(next, o)
				continue
			}
			n0 := len(o.st.events)
			rs := e.callValue(o.st, fr, d.call, d.fn, d.args, d.call.Common())
			for _, r := range rs {
				for _, ev := range r.st.events[min(n0, len(r.st.events)):] {
					ev.Deferred = true
				}
				next = append(next, deferOut{st: r.st, cont: !r.panicked})
			}
		}
		outs = next
	}
	fr.defers = nil
	return outs
}

// step executes a non-control, non-call instruction.
func (e *Engine) step(st *state, fr *frame, instr ssa.Instruction) {
	switch in := instr.(type) {
	case *ssa.DebugRef:
	case *ssa.Alloc:
		id := e.id()
		kind := "local"
		if in.Heap {
			kind = "heap"
		}
		elem := in.Type().Underlying().(*types.Pointer).Elem()
		st.allocT[id] = elem
		fr.env[in] = &Val{Op: "alloc", ID: id, Name: kind, Type: in.Type(), Aux: in}
	case *ssa.BinOp:
		x, y := e.val(fr, in.X), e.val(fr, in.Y)
		if in.Op == token.QUO || in.Op == token.REM {
			if isIntegerType(in.X.Type()) {
				if n, ok := y.Int64(); !ok || n == 0 {
					e.addEvent(st, fr, &Event{Kind: EvPanicSite, Mode: "divide", Args: []*Val{x, y}}, in)
				}
			}
		}
		if in.Op == token.SHL || in.Op == token.SHR {
			if _, ok := y.Int64(); !ok && isSignedType(in.Y.Type()) {
				e.addEvent(st, fr, &Event{Kind: EvPanicSite, Mode: "shift", Args: []*Val{x, y}}, in)
			}
		}
		v := mkBinop(in.Op, x, y, in.Type())
		if v.Op == "binop" {
			if t, ok := st.facts[v.Key()]; ok {
				v = mkBool(t)
			} else if (in.Op == token.EQL || in.Op == token.NEQ) && (y.IsNilConst() && knownNonNil(st, x) || x.IsNilConst() && knownNonNil(st, y)) {
				v = mkBool(in.Op == token.NEQ)
			}
		}
		fr.env[in] = v
	case *ssa.UnOp:
		x := e.val(fr, in.X)
		switch in.Op {
		case token.MUL: // load
			if !knownNonNil(st, x) {
				e.addEvent(st, fr, &Event{Kind: EvPanicSite, Mode: "nilderef", Args: []*Val{x}}, in)
			}
			v := e.load(st, x, in.Type())
			if r := addrRoot(x); r != nil && r.Op == "global" && e.moduleGlobal(r) {
				e.addEvent(st, fr, &Event{Kind: EvLoadGlobal, Recv: x, Src: v}, in)
			}
			fr.env[in] = v
		case token.NOT:
			if b, ok := x.Bool(); ok {
				fr.env[in] = mkBool(!b)
			} else {
				fr.env[in] = &Val{Op: "unop", Name: "!", Args: []*Val{x}, Type: in.Type()}
			}
		case token.ARROW:
			e.addEvent(st, fr, &Event{Kind: EvGo, Mode: "chan-recv", Args: []*Val{x}}, in)
			fr.env[in] = &Val{Op: "unknown", ID: e.id(), Name: "recv", Type: in.Type()}
		default:
			if x.IsConst() && x.C != nil && in.Op == token.SUB && isNum(x.C) {
				fr.env[in] = mkConst(constant.UnaryOp(token.SUB, x.C, 0), in.Type())
			} else if b, isB := in.Type().Underlying().(*types.Basic); in.Op == token.XOR && x.IsConst() && x.C != nil && x.C.Kind() == constant.Int && isB && b.Info()&types.IsUnsigned != 0 {
				// ^c for an unsigned constant of a concrete type (e.g. ^T(0), the largest value of T, in an instantiation)
				bits, _ := intBits(b)
				if bits == 0 {
					bits = 64
				}
				mask := constant.BinaryOp(constant.Shift(constant.MakeInt64(1), token.SHL, uint(bits)), token.SUB, constant.MakeInt64(1))
				fr.env[in] = mkConst(constant.BinaryOp(mask, token.XOR, x.C), in.Type())
			} else {
				fr.env[in] = &Val{Op: "unop", Name: tokName[in.Op], Args: []*Val{x}, Type: in.Type()}
			}
		}
	case *ssa.ChangeType:
		x := e.val(fr, in.X)
		if types.Identical(in.X.Type(), in.Type()) {
			fr.env[in] = x // (an instantiation wrapper handing its parameter on: []K to []K)
		} else {
			fr.env[in] = &Val{Op: "conv", Name: "changetype", Args: []*Val{x}, Type: in.Type()}
		}
	case *ssa.Convert:
		fr.env[in] = e.convert(st, e.val(fr, in.X), in.X.Type(), in.Type())
	case *ssa.MultiConvert:
		fr.env[in] = e.convert(st, e.val(fr, in.X), in.X.Type(), in.Type())
	case *ssa.ChangeInterface:
		fr.env[in] = e.val(fr, in.X)
	case *ssa.MakeInterface:
		x := e.val(fr, in.X)
		if x.Type == nil {
			x2 := *x
			x2.Type = in.X.Type()
			x2.key = ""
			x = &x2
		}
		fr.env[in] = &Val{Op: "iface", Args: []*Val{x}, Type: in.Type(), Aux: in.X.Type()}
	case *ssa.SliceToArrayPointer:
		x := e.val(fr, in.X)
		n := int64(0)
		if p, ok := in.Type().Underlying().(*types.Pointer); ok {
			if arr, ok := p.Elem().Underlying().(*types.Array); ok {
				n = arr.Len()
			}
		}
		// converting a slice to an array (pointer) panics when the slice is shorter than the array
		e.addEvent(st, fr, &Event{Kind: EvPanicSite, Mode: "slice2array", Args: []*Val{x, mkInt(n)}}, in)
		fr.env[in] = &Val{Op: "arrayptr", Args: []*Val{x}, Type: in.Type()}
	case *ssa.Extract:
		t := e.val(fr, in.Tuple)
		if t.Op == "tuple" && in.Index < len(t.Args) {
			fr.env[in] = t.Args[in.Index]
		} else {
			fr.env[in] = &Val{Op: "extract", ID: in.Index, Args: []*Val{t}, Type: in.Type()}
		}
	case *ssa.Field:
		x := e.val(fr, in.X)
		stt := in.X.Type().Underlying().(*types.Struct)
		fr.env[in] = fieldOfVal(x, in.Field, stt.Field(in.Field).Name(), in.Type())
	case *ssa.FieldAddr:
		x := e.val(fr, in.X)
		if !knownNonNil(st, x) {
			e.addEvent(st, fr, &Event{Kind: EvPanicSite, Mode: "nilderef", Args: []*Val{x}}, in)
		}
		stt := in.X.Type().Underlying().(*types.Pointer).Elem().Underlying().(*types.Struct)
		fr.env[in] = &Val{Op: "field", ID: in.Field, Name: stt.Field(in.Field).Name(), Args: []*Val{x}, Type: in.Type()}
	case *ssa.IndexAddr:
		x, i := e.val(fr, in.X), e.val(fr, in.Index)
		e.indexCheck(st, fr, in, x, i, in.X.Type())
		base := x
		if x.Op == "slice" && x.Args[1] == nil && x.Args[0].Op == "alloc" {
			base = x.Args[0]
		}
		fr.env[in] = &Val{Op: "index", Args: []*Val{base, i}, Type: in.Type()}
	case *ssa.Index:
		x, i := e.val(fr, in.X), e.val(fr, in.Index)
		e.indexCheck(st, fr, in, x, i, in.X.Type())
		if ax := stripCT(x); ax != nil && ax.Op == "array" {
			if k, isC := i.Int64(); isC && k >= 0 && int(k) < len(ax.Args) && ax.Args[k] != nil {
				fr.env[in] = ax.Args[k] // an element of an array value written out element by element
				break
			}
		}
		fr.env[in] = &Val{Op: "elem", Args: []*Val{e.contentOf(st, x), i}, Type: in.Type()}
	case *ssa.Lookup:
		x, k := e.val(fr, in.X), e.val(fr, in.Index)
		if _, isMap := in.X.Type().Underlying().(*types.Map); isMap {
			e.addEvent(st, fr, &Event{Kind: EvMapRead, Mode: "lookup", Recv: x, Args: []*Val{k}}, in)
			mt := in.X.Type().Underlying().(*types.Map)
			v := &Val{Op: "lookup", Args: []*Val{x, k}, Type: mt.Elem()}
			if in.CommaOk {
				ok := &Val{Op: "lookupok", Args: []*Val{x, k}, Type: types.Typ[types.Bool]}
				fr.env[in] = &Val{Op: "tuple", Args: []*Val{v, ok}}
			} else {
				fr.env[in] = v
			}
		} else {
			e.indexCheck(st, fr, in, x, k, in.X.Type())
			fr.env[in] = &Val{Op: "elem", Args: []*Val{x, k}, Type: in.Type()}
		}
	case *ssa.MakeClosure:
		fn := in.Fn.(*ssa.Function)
		c := &Val{Op: "closure", Aux: fn, Type: in.Type()}
		for _, b := range in.Bindings {
			c.Args = append(c.Args, e.val(fr, b))
		}
		fr.env[in] = c
	case *ssa.MakeMap:
		id := e.id()
		var r *Val
		if in.Reserve != nil {
			r = e.val(fr, in.Reserve)
		}
		e.addEvent(st, fr, &Event{Kind: EvAlloc, Mode: "makemap", Src: r, ID: id}, in)
		fr.env[in] = &Val{Op: "makemap", ID: id, Type: in.Type()}
	case *ssa.MakeSlice:
		id := e.id()
		l, c := e.val(fr, in.Len), e.val(fr, in.Cap)
		v := &Val{Op: "makeslice", ID: id, Args: []*Val{l, c}, Type: in.Type()}
		e.addEvent(st, fr, &Event{Kind: EvAlloc, Mode: "makeslice", Src: l, Args: []*Val{l, c}, ID: id, IntType: in.Type()}, in)
		fr.env[in] = v
	case *ssa.MakeChan:
		e.addEvent(st, fr, &Event{Kind: EvGo, Mode: "makechan"}, in)
		fr.env[in] = &Val{Op: "unknown", ID: e.id(), Name: "chan", Type: in.Type()}
	case *ssa.Slice:
		x := e.val(fr, in.X)
		var lo, hi, mx *Val
		if in.Low != nil {
			lo = e.val(fr, in.Low)
		}
		if in.High != nil {
			hi = e.val(fr, in.High)
		}
		if in.Max != nil {
			mx = e.val(fr, in.Max)
		}
		if lo != nil || hi != nil || mx != nil {
			e.addEvent(st, fr, &Event{Kind: EvPanicSite, Mode: "slice", Args: []*Val{x, lo, hi, mx}, IntType: in.X.Type()}, in)
		}
		if _, isPtr := in.X.Type().Underlying().(*types.Pointer); isPtr && !knownNonNil(st, x) {
			e.addEvent(st, fr, &Event{Kind: EvPanicSite, Mode: "nilderef", Args: []*Val{x}}, in)
		}
		if n, ok := lo.Int64(); ok && n == 0 {
			lo = nil
		}
		fr.env[in] = &Val{Op: "slice", Args: []*Val{x, lo, hi, mx}, Type: in.Type()}
	case *ssa.TypeAssert:
		x := e.val(fr, in.X)
		inner := stripIface(x)
		if in.CommaOk {
			okv := &Val{Op: "tassert", Name: "ok", Args: []*Val{x}, Type: types.Typ[types.Bool], Aux: in.AssertedType}
			if x.Op == "iface" && inner.Type != nil {
				okv = mkBool(assertHolds(inner.Type, in.AssertedType))
			}
			res := &Val{Op: "tassert", Args: []*Val{x}, Type: in.AssertedType, Aux: in.AssertedType}
			if x.Op == "iface" {
				if types.IsInterface(in.AssertedType) {
					res = x
				} else {
					res = inner
				}
			}
			fr.env[in] = &Val{Op: "tuple", Args: []*Val{res, okv}}
		} else {
			if !(x.Op == "iface" && inner.Type != nil && assertHolds(inner.Type, in.AssertedType)) {
				e.addEvent(st, fr, &Event{Kind: EvPanicSite, Mode: "assert", Args: []*Val{x}, IntType: in.AssertedType}, in)
			}
			if x.Op == "iface" {
				if types.IsInterface(in.AssertedType) {
					fr.env[in] = x
				} else {
					fr.env[in] = inner
				}
			} else {
				fr.env[in] = &Val{Op: "tassert", Args: []*Val{x}, Type: in.AssertedType, Aux: in.AssertedType}
			}
		}
	case *ssa.Store:
		a, v := e.val(fr, in.Addr), e.val(fr, in.Val)
		if !knownNonNil(st, a) {
			e.addEvent(st, fr, &Event{Kind: EvPanicSite, Mode: "nilderef", Args: []*Val{a}}, in)
		}
		e.store(st, fr, a, v, in)
	case *ssa.MapUpdate:
		m, k, v := e.val(fr, in.Map), e.val(fr, in.Key), e.val(fr, in.Value)
		e.addEvent(st, fr, &Event{Kind: EvMapWrite, Mode: "update", Recv: m, Args: []*Val{k, v}}, in)
	case *ssa.Range:
		x := e.val(fr, in.X)
		if _, isMap := in.X.Type().Underlying().(*types.Map); isMap {
			e.addEvent(st, fr, &Event{Kind: EvMapRead, Mode: "range", Recv: x}, in)
		}
		fr.env[in] = &Val{Op: "rangeiter", ID: e.id(), Args: []*Val{x}, Type: in.Type()}
	case *ssa.Next:
		it := e.val(fr, in.Iter)
		u := func(n string, t types.Type) *Val { return &Val{Op: "unknown", ID: e.id(), Name: n, Type: t, Args: []*Val{it}} }
		tt := in.Type().(*types.Tuple)
		fr.env[in] = &Val{Op: "tuple", Args: []*Val{u("next-ok", tt.At(0).Type()), u("next-key", tt.At(1).Type()), u("next-val", tt.At(2).Type())}}
	case *ssa.Select:
		e.addEvent(st, fr, &Event{Kind: EvGo, Mode: "select"}, in)
		fr.env[in] = &Val{Op: "unknown", ID: e.id(), Name: "select", Type: in.Type()}
	case *ssa.Send:
		e.addEvent(st, fr, &Event{Kind: EvGo, Mode: "chan-send"}, in)
	default:
		if v, ok := instr.(ssa.Value); ok {
			fr.env[v] = &Val{Op: "unknown", ID: e.id(), Name: fmt.Sprintf("%T", instr), Type: v.Type()}
		}
	}
}

func isIntegerType(t types.Type) bool {
	b, ok := t.Underlying().(*types.Basic)
	return ok && b.Info()&types.IsInteger != 0
}

// integerTypeSet: t is an integer type, or a type parameter every type of whose constraint is one.
func integerTypeSet(t types.Type) bool {
	if t == nil {
		return false
	}
	if isIntegerType(t) {
		return true
	}
	tp, ok := t.(*types.TypeParam)
	if !ok {
		return false
	}
	var all func(t types.Type, depth int) bool
	all = func(t types.Type, depth int) bool {
		if depth > 6 {
			return false
		}
		switch u := t.(type) {
		case *types.Union:
			if u.Len() == 0 {
				return false
			}
			for i := 0; i < u.Len(); i++ {
				if !all(u.Term(i).Type(), depth+1) {
					return false
				}
			}
			return true
		case *types.Interface:
			if u.NumEmbeddeds() == 0 {
				return false // no type terms: any type
			}
			any := false
			for i := 0; i < u.NumEmbeddeds(); i++ {
				// the type set is the intersection of the embedded sets: one all-integer component suffices
				if all(u.EmbeddedType(i), depth+1) {
					any = true
				}
			}
			return any
		case *types.Named, *types.Alias:
			if _, isI := t.Underlying().(*types.Interface); isI {
				return all(t.Underlying(), depth+1)
			}
			return isIntegerType(t)
		}
		return isIntegerType(t)
	}
	return all(tp.Constraint().Underlying(), 0)
}

// numberTypeSet: t is a type parameter whose constraint admits only fixed-size number types (every one of them at
// least one byte on the wire).
func numberTypeSet(t types.Type) bool {
	tp, ok := t.(*types.TypeParam)
	if !ok {
		return false
	}
	isNum := func(t types.Type) bool {
		b, ok := t.Underlying().(*types.Basic)
		return ok && b.Info()&(types.IsInteger|types.IsFloat|types.IsBoolean) != 0 && b.Kind() != types.Int && b.Kind() != types.Uint && b.Kind() != types.Uintptr
	}
	var all func(t types.Type, depth int) bool
	all = func(t types.Type, depth int) bool {
		if depth > 6 {
			return false
		}
		switch u := t.(type) {
		case *types.Union:
			if u.Len() == 0 {
				return false
			}
			for i := 0; i < u.Len(); i++ {
				if !all(u.Term(i).Type(), depth+1) {
					return false
				}
			}
			return true
		case *types.Interface:
			any := false
			for i := 0; i < u.NumEmbeddeds(); i++ {
				if all(u.EmbeddedType(i), depth+1) {
					any = true
				}
			}
			return any
		case *types.Named, *types.Alias:
			if _, isI := t.Underlying().(*types.Interface); isI {
				return all(t.Underlying(), depth+1)
			}
		}
		return isNum(t)
	}
	return all(tp.Constraint().Underlying(), 0)
}

func isSignedType(t types.Type) bool {
	b, ok := t.Underlying().(*types.Basic)
	return ok && b.Info()&types.IsInteger != 0 && b.Info()&types.IsUnsigned == 0
}

func assertHolds(dyn, asserted types.Type) bool {
	if types.IsInterface(asserted) {
		it, _ := asserted.Underlying().(*types.Interface)
		if it == nil {
			return false
		}
		return types.Implements(dyn, it)
	}
	return types.Identical(dyn, asserted)
}

func (e *Engine) indexCheck(st *state, fr *frame, in ssa.Instruction, x, i *Val, xt types.Type) {
	// constant index into a fixed-size array is checked by the compiler
	t := xt.Underlying()
	if p, ok := t.(*types.Pointer); ok {
		t = p.Elem().Underlying()
		if !knownNonNil(st, x) {
			e.addEvent(st, fr, &Event{Kind: EvPanicSite, Mode: "nilderef", Args: []*Val{x}}, in)
		}
	}
	if arr, ok := t.(*types.Array); ok {
		if n, ok := i.Int64(); ok && n >= 0 && n < arr.Len() {
			return
		}
	}
	e.addEvent(st, fr, &Event{Kind: EvPanicSite, Mode: "index", Args: []*Val{x, i}, IntType: xt}, in)
}

func (e *Engine) convert(st *state, x *Val, from, to types.Type) *Val {
	if x.IsConst() && x.C != nil {
		if tb, ok := to.Underlying().(*types.Basic); ok && tb.Info()&types.IsInteger != 0 && x.C.Kind() == constant.Int {
			if fb, ok := from.Underlying().(*types.Basic); ok && fb.Info()&types.IsInteger != 0 {
				if n, ok := constant.Int64Val(x.C); ok {
					bits, uns := intBits(tb)
					if bits > 0 {
						var w int64 = n
						if bits < 64 {
							mask := int64(1)<<uint(bits) - 1
							w = n & mask
							if !uns && w&(int64(1)<<uint(bits-1)) != 0 {
								w -= int64(1) << uint(bits)
							}
						}
						if bits == 64 && uns && n < 0 {
							return &Val{Op: "conv", Name: "convert", Args: []*Val{x}, Type: to}
						}
						return mkConst(constant.MakeInt64(w), to)
					}
				}
			}
		}
	}
	// T(S(y)) with T no wider than S is T(y): S(y) extends y as y's own signedness says (or cuts it to S's width), and T
	// keeps no more than S's low bits of that – e.g. uint64(int(n)) for an unsigned n
	if x.Op == "conv" && x.Name == "convert" && len(x.Args) == 1 && x.Args[0].Type != nil && isIntegerType(to) && isIntegerType(x.Type) && integerTypeSet(x.Args[0].Type) {
		tb, _ := to.Underlying().(*types.Basic)
		sb, _ := x.Type.Underlying().(*types.Basic)
		if tb != nil && sb != nil {
			bt, _ := intBits(tb)
			bs, _ := intBits(sb)
			if bt > 0 && bs > 0 && bt <= bs {
				y := x.Args[0]
				if types.Identical(y.Type, to) {
					return y
				}
				return &Val{Op: "conv", Name: "convert", Args: []*Val{y}, Type: to}
			}
		}
	}
	// conversions from slices/strings take the content (they copy)
	if isStringOrBytes(to) && from != nil && isStringOrBytes(from) {
		x = e.contentOf(st, x)
		// string([]byte{c1, c2, …}) of constants is that string
		if lit := stripCT(x); lit != nil && lit.Op == "arraylit" && len(lit.Args) > 0 && len(lit.Args) <= 16 {
			if tb, isB := to.Underlying().(*types.Basic); isB && tb.Info()&types.IsString != 0 {
				bs := make([]byte, 0, len(lit.Args))
				okAll := true
				for _, a := range lit.Args {
					n, isC := stripCT(a).Int64()
					if !isC || n < 0 || n > 255 {
						okAll = false
						break
					}
					bs = append(bs, byte(n))
				}
				if okAll {
					return mkConst(constant.MakeString(string(bs)), to)
				}
			}
		}
	}
	return &Val{Op: "conv", Name: "convert", Args: []*Val{x}, Type: to}
}

func (e *Engine) moduleGlobal(g *Val) bool {
	gl, ok := g.Aux.(*ssa.Global)
	return ok && gl.Pkg != nil && strings.HasPrefix(gl.Pkg.Pkg.Path(), modulePath)
}

func hasSucc(b, s *ssa.BasicBlock) bool {
	for _, x := range b.Succs {
		if x == s {
			return true
		}
	}
	return false
}

// rotatedGuard: block b ends in `if first < N` whose true edge enters a loop (from outside) and whose false edge
// goes where the loop's latch goes when its own `next < N` test fails.
func rotatedGuard(b *ssa.BasicBlock, in *ssa.If, c *Val) *rotGuard {
	if c.Op != "binop" || c.Name != "<" || len(b.Succs) != 2 {
		return nil
	}
	h, exit := b.Succs[0], b.Succs[1]
	body := loopBody(h)
	if body == nil || body[b] || body[exit] {
		return nil
	}
	for blk := range body {
		// (a loop whose body is one block is its own latch)
		if iff, ok := blk.Instrs[len(blk.Instrs)-1].(*ssa.If); ok && len(blk.Succs) == 2 && blk.Succs[0] == h && blk.Succs[1] == exit {
			if bo, ok := iff.Cond.(*ssa.BinOp); ok && bo.Op == token.LSS {
				return &rotGuard{exit: exit, cond: c}
			}
		}
	}
	return nil
}

// latchTripCount: the latch continues while (lv + k) < N with lv stepping by one; the guard tested (init + k - 1) < N.
// The loop body then runs max(0, N - (init + k - 1)) times.
func (e *Engine) latchTripCount(o *outcome, h *ssa.BasicBlock, lc *loopCtx, iters []*Arm, guard *rotGuard) (*Val, string, bool) {
	latch := o.exitFrom
	iff, ok := latch.Instrs[len(latch.Instrs)-1].(*ssa.If)
	if !ok {
		return nil, "", false
	}
	c := e.val(o.fr, iff.Cond)
	if c.Op != "binop" || c.Name != "<" {
		return nil, "", false
	}
	tested, bound := c.Args[0], c.Args[1]
	if bound.Contains(func(v *Val) bool { return v.Op == "loopvar" && v.ID == lc.id || v.Op == "unknown" }) {
		return nil, "", false
	}
	a := affOf(tested)
	if a.Top || len(a.Term) != 1 {
		return nil, "", false
	}
	var lv *Val
	for k, coef := range a.Term {
		if coef != 1 {
			return nil, "", false
		}
		lv = a.Sym[k]
	}
	if lv.Op != "loopvar" || lv.ID != lc.id || len(iters) == 0 {
		return nil, "", false
	}
	for _, it := range iters {
		n := it.Next[lv.Name]
		if n == nil {
			return nil, "", false
		}
		if k, ok := affOf(n).Add(affOf(lv), -1).IsConst(); !ok || k != 1 {
			return nil, "", false
		}
	}
	// guard: (init + k - 1) < bound
	first := affOf(lv.Args[0]).Add(affConst(a.C-1), 1)
	if !affOf(guard.cond.Args[0]).Equal(first) || !affOf(guard.cond.Args[1]).Equal(affOf(bound)) {
		return nil, "", false
	}
	lc.ctrVar, lc.ctrOff, lc.ctrBound = lv, a.C-1, bound
	return affToVal(affOf(bound).Add(first, -1)), "counted", true
}

// applyFill records what a recognised fill loop left in the slice it filled.
func applyFill(nst *state, fillS, fillC *Val) {
	if fillS == nil {
		return
	}
	if fillC.Op != "padfill" {
		nst.content[fillS.Key()] = fillC
		if fillS.Op == "slice" && len(fillS.Args) >= 3 && fillS.Args[1] == nil && fillS.Args[0].Op == "alloc" {
			// the filled front part of a local array, also on record under the array (the bound may be spelt differently
			// where the part is taken: `64 - len(s)` for `-len(s) + 64`)
			nst.content["front:"+fillS.Args[0].Key()] = fillC
		}
		return
	}
	// the fill completes the field whose head was copied: the staged text segment now has its pad byte
	if base, lo, hi, total, ok := byteArraySegment(fillS); ok {
		if stg := stripCT(nst.content[base.Key()]); stg != nil && stg.Op == "staged" {
			for _, sg := range stg.Args {
				if sg.Op == "padded" && sg.ID == lo && sg.Aux.(int) == hi-lo && sg.Args[1] == nil {
					stageSeg(nst, base, lo, total, &Val{Op: "padded", Aux: hi - lo, Args: []*Val{sg.Args[0], fillC.Args[0]}, Type: sg.Type}, stg.Type)
					return
				}
			}
		}
	}
}

// isWordInt: int, int64, uint or uint64.
func isWordInt(t types.Type) bool {
	if t == nil {
		return false
	}
	b, ok := t.Underlying().(*types.Basic)
	if !ok {
		return false
	}
	switch b.Kind() {
	case types.Int, types.Int64, types.Uint, types.Uint64:
		return true
	}
	return false
}

func (e *Engine) nonNilGlobalLoad(v *Val) bool {
	v = stripCT(v)
	if v == nil || v.Op != "init" || len(v.Args) != 1 || v.Args[0].Op != "global" || e.NonNilPtrGlobals == nil {
		return false
	}
	g, ok := v.Args[0].Aux.(*ssa.Global)
	return ok && e.NonNilPtrGlobals[g]
}

// lenOf: what the len builtin yields for v in this state (a made slice keeps the length make gave it whatever was read
// into it; otherwise the length of the content).
func (e *Engine) lenOf(st *state, v *Val) *Val {
	x := v
	for x.Op == "slice" && len(x.Args) >= 3 && x.Args[1] == nil && x.Args[2] == nil {
		x = x.Args[0]
	}
	if x.Op == "makeslice" {
		return x.Args[0]
	}
	return mkLen(e.contentOf(st, v))
}
