package main

import (
	"os"
	"fmt"
	"go/constant"
	"go/token"
	"go/types"
	"reflect"
	"sort"
	"strings"

	"golang.org/x/tools/go/ssa"
)

// CodecType is a named type whose pointer has Encode(*bytes.Buffer) and Decode(*bytes.Buffer) error.
type CodecType struct {
	Named    *types.Named
	Pkg      string // short protocol name
	Name     string // Pkg.TypeName
	Struct   *types.Struct
	Encode   *ssa.Function
	Decode   *ssa.Function
	NewFn    *ssa.Function // NewT constructor if present
	WireName []string      // per struct field: json tag or Go name
	Regular  bool          // implements codec.BinaryCodec
}

type Registration struct {
	Key     string // constant key rendered (number or quoted text)
	KeyVal  constant.Value
	Type    string // body type name (Pkg.T), "" if not a fresh &T{}
	Fresh   bool
	Closure *ssa.Function
	Call    *ssa.Call
	Lit     *ssa.MapUpdate // registration written as an entry of a map literal
	InInit  bool
	At      token.Pos // where the registration happens, when it was found by evaluating the start-up code
	// what the factory captured (a factory wrapping a constructor function captures that function: a constant, not state)
	CapturesState bool
}

type Table struct {
	MapField  int // -1: the variable is the map; otherwise the variable is a struct whose field MapField is the map
	Global    *ssa.Global
	Name      string // pkg.varname
	Pkg       string
	KeyType   types.Type
	Registrar []*ssa.Function
	Lookups   []*ssa.Function
	Regs      []*Registration
	OtherRefs []ssa.Instruction // references that are neither the registrar's update nor the lookup's read
	PtrRecord bool              // the variable holds a pointer to the record around the map (assigned once, by its initialiser)
	// a table built on first use: `once.Do(func() { table = map…{…} })` inside an accessor that returns the table
	Once     *ssa.Global   // the package-level sync.Once
	OnceBody *ssa.Function // the function literal that builds the map (the only writer of the variable)
	Accessor *ssa.Function // runs once.Do(OnceBody) and returns the variable's value; every other use goes through it
	// read-only views: functions that put the map into a field of a fresh record (a typed wrapper whose methods look keys
	// up) and return that record; what callers do with the record is classified by the methods they call on it
	Views map[*ssa.Function]int // accessor -> index of the field that holds the map
}

type ChecksumSvc struct {
	Type     *types.Named
	Name     string // algorithm name (constant returned by Algorithm()), "" if not constant
	Calc     *ssa.Function
	AlgoFn   *ssa.Function
	RegCall  ssa.Instruction
	ResultT  types.Type
}

type Universe struct {
	initOnly map[*ssa.Function]int
	P          *Program
	Types      []*CodecType
	TypeByName map[string]*CodecType
	byNamed    map[*types.Named]*CodecType
	Tables     []*Table
	TableByVar map[*ssa.Global]*Table
	Prims      []*ssa.Function // exported generic/non-generic functions of codec with a *bytes.Buffer parameter (origins)
	Services   []*ChecksumSvc
	Codec      *ssa.Package
	BinaryCodecIface *types.Interface
	RegistryFns map[string]*ssa.Function // Registry/Get/Remove/Clear by discovery role
}

func bufferMethod(t types.Type, name string) *types.Func {
	ms := types.NewMethodSet(t)
	for i := 0; i < ms.Len(); i++ {
		f, ok := ms.At(i).Obj().(*types.Func)
		if !ok || f.Name() != name {
			continue
		}
		sig := f.Type().(*types.Signature)
		if sig.Params().Len() == 1 && isBufferType(sig.Params().At(0).Type()) {
			return f
		}
	}
	return nil
}

func Discover(p *Program) (*Universe, error) {
	u := &Universe{P: p, TypeByName: map[string]*CodecType{}, byNamed: map[*types.Named]*CodecType{}, TableByVar: map[*ssa.Global]*Table{}, RegistryFns: map[string]*ssa.Function{}}
	u.Codec = p.SSAPkgs[modulePath+"/codec"]
	if u.Codec == nil {
		return nil, fmt.Errorf("package codec not found")
	}
	if bc := u.Codec.Pkg.Scope().Lookup("BinaryCodec"); bc != nil {
		u.BinaryCodecIface, _ = bc.Type().Underlying().(*types.Interface)
	}
	if u.BinaryCodecIface == nil {
		return nil, fmt.Errorf("codec.BinaryCodec interface not found")
	}
	for _, pk := range p.Pkgs {
		sp := p.SSAPkgs[pk.PkgPath]
		scope := pk.Types.Scope()
		names := scope.Names()
		for _, n := range names {
			tn, ok := scope.Lookup(n).(*types.TypeName)
			if !ok || tn.IsAlias() {
				continue
			}
			named, ok := tn.Type().(*types.Named)
			if !ok || named.TypeParams().Len() > 0 {
				continue
			}
			if p.IsTestFile(tn.Pos()) {
				continue
			}
			st, ok := named.Underlying().(*types.Struct)
			if !ok {
				continue
			}
			pt := types.NewPointer(named)
			enc, dec := bufferMethod(pt, "Encode"), bufferMethod(pt, "Decode")
			if enc == nil || dec == nil {
				continue
			}
			ct := &CodecType{Named: named, Pkg: shortPkg(pk.PkgPath), Struct: st}
			ct.Name = ct.Pkg + "." + tn.Name()
			ct.Encode = p.Prog.FuncValue(enc)
			ct.Decode = p.Prog.FuncValue(dec)
			if ct.Encode == nil || ct.Decode == nil || ct.Encode.Blocks == nil || ct.Decode.Blocks == nil {
				return nil, fmt.Errorf("no SSA body for %s Encode/Decode", ct.Name)
			}
			ct.Regular = types.Implements(pt, u.BinaryCodecIface)
			for i := 0; i < st.NumFields(); i++ {
				tag := reflect.StructTag(st.Tag(i)).Get("json")
				if j := strings.Index(tag, ","); j >= 0 {
					tag = tag[:j]
				}
				if tag == "" || tag == "-" {
					tag = st.Field(i).Name()
				}
				ct.WireName = append(ct.WireName, tag)
			}
			if f := sp.Func("New" + tn.Name()); f != nil {
				ct.NewFn = f
			}
			u.Types = append(u.Types, ct)
			u.TypeByName[ct.Name] = ct
			u.byNamed[named] = ct
		}
	}
	sort.Slice(u.Types, func(i, j int) bool { return u.Types[i].Name < u.Types[j].Name })

	// primitives
	for _, m := range u.Codec.Members {
		f, ok := m.(*ssa.Function)
		if !ok || f.Object() == nil || !f.Object().Exported() || p.IsTestFile(f.Pos()) {
			continue
		}
		ps := f.Signature.Params()
		for i := 0; i < ps.Len(); i++ {
			if isBufferType(ps.At(i).Type()) {
				u.Prims = append(u.Prims, f)
				break
			}
		}
	}
	sort.Slice(u.Prims, func(i, j int) bool { return u.Prims[i].Name() < u.Prims[j].Name() })

	if err := u.discoverTables(); err != nil {
		return nil, err
	}
	if err := u.discoverServices(); err != nil {
		return nil, err
	}
	return u, nil
}

func (u *Universe) TypeOf(t types.Type) *CodecType {
	if p, ok := t.(*types.Pointer); ok {
		t = p.Elem()
	}
	if n, ok := t.(*types.Named); ok {
		return u.byNamed[n]
	}
	return nil
}

// IsCodecMethod: Encode/Decode method of a codec type.
func (u *Universe) IsCodecMethod(fn *ssa.Function) bool {
	if fn.Signature.Recv() == nil {
		return false
	}
	ct := u.TypeOf(fn.Signature.Recv().Type())
	return ct != nil && (fn == ct.Encode || fn == ct.Decode)
}

func isFactoryMap(t types.Type, iface *types.Interface) (*types.Map, bool) {
	m, ok := t.Underlying().(*types.Map)
	if !ok {
		return nil, false
	}
	sig, ok := m.Elem().Underlying().(*types.Signature)
	if !ok || sig.Params().Len() != 0 || sig.Results().Len() != 1 {
		return nil, false
	}
	rt := sig.Results().At(0).Type()
	if it, ok := rt.Underlying().(*types.Interface); ok && types.Identical(it, iface) {
		return m, true
	}
	return nil, false
}

// recordMapField: a small record around a factory map – exactly one field is the map, whatever else it has are plain
// labels (strings, numbers, booleans: a name for error messages, say). Returns the map field's index, or -1.
func recordMapField(sv *types.Struct, iface *types.Interface) (int, *types.Map) {
	idx := -1
	var mt *types.Map
	for i := 0; i < sv.NumFields(); i++ {
		ft := sv.Field(i).Type()
		if m, ok := isFactoryMap(ft, iface); ok {
			if idx >= 0 {
				return -1, nil
			}
			idx, mt = i, m
			continue
		}
		if _, isB := ft.Underlying().(*types.Basic); !isB {
			return -1, nil
		}
	}
	return idx, mt
}

func (u *Universe) discoverTables() error {
	p := u.P
	for _, pk := range p.Pkgs {
		sp := p.SSAPkgs[pk.PkgPath]
		var names []string
		for n := range sp.Members {
			names = append(names, n)
		}
		sort.Strings(names)
		for _, n := range names {
			g, ok := sp.Members[n].(*ssa.Global)
			if !ok || p.IsTestFile(g.Pos()) {
				continue
			}
			mt, ok := isFactoryMap(g.Type().(*types.Pointer).Elem(), u.BinaryCodecIface)
			fieldIdx := -1
			if !ok {
				// a small record around the map (a factory type with Register/New methods): exactly one field, the map
				if sv, isStruct := g.Type().(*types.Pointer).Elem().Underlying().(*types.Struct); isStruct {
					if fi, m2 := recordMapField(sv, u.BinaryCodecIface); fi >= 0 {
						mt, ok, fieldIdx = m2, true, fi
					}
				}
			}
			ptrRecord := false
			if !ok {
				// … or a pointer to such a record, set once by the variable's initialiser (`var t = codec.NewFactoryTable[K]()`)
				if pt, isP := g.Type().(*types.Pointer).Elem().Underlying().(*types.Pointer); isP {
					if sv, isStruct := pt.Elem().Underlying().(*types.Struct); isStruct {
						if fi, m2 := recordMapField(sv, u.BinaryCodecIface); fi >= 0 {
							mt, ok, fieldIdx, ptrRecord = m2, true, fi, true
						}
					}
				}
			}
			if !ok {
				continue
			}
			t := &Table{Global: g, Pkg: shortPkg(pk.PkgPath), KeyType: mt.Key(), MapField: fieldIdx, PtrRecord: ptrRecord}
			t.Name = t.Pkg + "." + g.Name()
			u.Tables = append(u.Tables, t)
			u.TableByVar[g] = t
		}
	}
	// tables built on first use under a sync.Once
	bodies := onceBodies(p)
	for _, t := range u.Tables {
		if t.MapField >= 0 {
			continue
		}
		var stores []*ssa.Store
		for fn := range p.AllFuncs {
			if !p.InModule(fn) || fn.Blocks == nil || p.IsTestFile(fn.Pos()) {
				continue
			}
			for _, b := range fn.Blocks {
				for _, in := range b.Instrs {
					if st, ok := in.(*ssa.Store); ok && st.Addr == ssa.Value(t.Global) {
						stores = append(stores, st)
					}
				}
			}
		}
		if len(stores) != 1 {
			continue
		}
		body := stores[0].Parent()
		once := bodies[body]
		if _, isMake := stores[0].Val.(*ssa.MakeMap); !isMake || once == nil || body.Parent() == nil {
			continue
		}
		acc := body.Parent()
		// the accessor: once.Do(body) first, then the variable's value returned (and used for nothing else)
		var do ssa.Instruction
		okAcc := true
		var loads []*ssa.UnOp
		for _, b := range acc.Blocks {
			for _, in := range b.Instrs {
				if c, ok := in.(ssa.CallInstruction); ok && isOnceDo(c, once, body) {
					do = in
				}
				if ld, ok := in.(*ssa.UnOp); ok && ld.X == ssa.Value(t.Global) {
					loads = append(loads, ld)
				}
			}
		}
		if do == nil || len(loads) == 0 {
			continue
		}
		for _, ld := range loads {
			if !(do.Block().Dominates(ld.Block()) && (do.Block() != ld.Block() || instrIndex(do) < instrIndex(ld))) {
				okAcc = false
			}
			for _, r := range *ld.Referrers() {
				switch r.(type) {
				case *ssa.Return, *ssa.DebugRef:
				default:
					okAcc = false
				}
			}
		}
		if okAcc {
			t.Once, t.OnceBody, t.Accessor = once, body, acc
		}
	}
	// references
	for fn := range p.AllFuncs {
		if !p.InModule(fn) || fn.Blocks == nil || p.IsTestFile(fn.Pos()) {
			continue
		}
		for _, b := range fn.Blocks {
			for _, in := range b.Instrs {
				for _, op := range in.Operands(nil) {
					g, ok := (*op).(*ssa.Global)
					if !ok {
						continue
					}
					t := u.TableByVar[g]
					if t == nil {
						continue
					}
					u.classifyTableRef(t, fn, in)
				}
				// the value of a lazily built table handed out by its accessor
				if c, ok := in.(*ssa.Call); ok {
					if callee := c.Call.StaticCallee(); callee != nil {
						for _, t := range u.Tables {
							if t.Accessor == callee {
								u.classifyMapValue(t, fn, c)
							}
						}
					}
				}
			}
		}
	}
	// callers of view accessors: the methods they call on the view decide what they are
	for _, t := range u.Tables {
		if len(t.Views) == 0 {
			continue
		}
		for fn := range p.AllFuncs {
			if !p.InModule(fn) || fn.Blocks == nil || p.IsTestFile(fn.Pos()) {
				continue
			}
			for _, b := range fn.Blocks {
				for _, in := range b.Instrs {
					c, ok := in.(*ssa.Call)
					if !ok {
						continue
					}
					fidx, isView := t.Views[c.Call.StaticCallee()]
					if !isView {
						continue
					}
					for _, r := range *c.Referrers() {
						if _, dbg := r.(*ssa.DebugRef); dbg {
							continue
						}
						use := ""
						if mc, isCall := r.(*ssa.Call); isCall && !mc.Call.IsInvoke() {
							use = recordMapUse(mc, c, fidx, 0)
						}
						switch use {
						case "lookup":
							addFn(&t.Lookups, fn)
						case "query":
						default:
							t.OtherRefs = append(t.OtherRefs, r)
						}
					}
				}
			}
		}
	}
	// registrations: call sites of registrars
	for _, t := range u.Tables {
		for _, reg := range t.Registrar {
			for fn := range p.AllFuncs {
				if !p.InModule(fn) || fn.Blocks == nil || p.IsTestFile(fn.Pos()) {
					continue
				}
				for _, b := range fn.Blocks {
					for _, in := range b.Instrs {
						call, ok := in.(*ssa.Call)
						if !ok || call.Call.StaticCallee() != reg {
							continue
						}
						// `for key, factory := range map[K]func() Codec{k1: f1, …} { Registry(key, factory) }`: one
						// registration per entry of the literal (a map built here, filled with constant keys, only ranged over)
						if ents := rangedLiteralEntries(call.Call.Args[0], call.Call.Args[1]); ents != nil {
							for _, en := range ents {
								r := &Registration{Call: call, InInit: isInitFunc(fn), KeyVal: en.key, Key: en.key.ExactString()}
								switch fv := en.val.(type) {
								case *ssa.Function:
									r.Closure = fv
								case *ssa.MakeClosure:
									if len(fv.Bindings) == 0 {
										r.Closure, _ = fv.Fn.(*ssa.Function)
									}
								}
								if r.Closure != nil {
									r.Type, r.Fresh = u.factoryResult(r.Closure)
								}
								t.Regs = append(t.Regs, r)
							}
							continue
						}
						// the key: a constant, or an expression over the elements of a constant slice/array literal the call
						// site loops over (one registration per element)
						keys, okKeys := constSet(call.Call.Args[0], 0)
						if !okKeys || len(keys) == 0 {
							keys = []constant.Value{nil}
						}
						for _, kv := range keys {
							r := &Registration{Call: call, InInit: isInitFunc(fn)}
							if kv != nil {
								r.KeyVal = kv
								r.Key = kv.ExactString()
							} else {
								r.Key = "<non-constant>"
							}
							switch fv := call.Call.Args[1].(type) {
							case *ssa.Function:
								r.Closure = fv
							case *ssa.MakeClosure:
								r.Closure, _ = fv.Fn.(*ssa.Function)
								if len(fv.Bindings) > 0 {
									r.Closure = nil // a factory that captures loop state is not a plain constructor
								}
							}
							if r.Closure != nil {
								r.Type, r.Fresh = u.factoryResult(r.Closure)
							}
							t.Regs = append(t.Regs, r)
						}
					}
				}
			}
		}
		sort.Slice(t.Regs, func(i, j int) bool {
			if t.Regs[i].Key != t.Regs[j].Key {
				return t.Regs[i].Key < t.Regs[j].Key
			}
			return t.Regs[i].Pos() < t.Regs[j].Pos()
		})
	}
	// registrations written as a composite literal: the package initialiser fills a fresh map and stores it in the table
	lazyBody := map[*ssa.Function]bool{}
	for _, t := range u.Tables {
		if t.OnceBody != nil {
			lazyBody[t.OnceBody] = true
		}
	}
	for fn := range p.AllFuncs {
		if !p.InModule(fn) || fn.Blocks == nil || !(isInitFunc(fn) || lazyBody[fn]) {
			continue
		}
		for _, b := range fn.Blocks {
			for _, in := range b.Instrs {
				st, ok := in.(*ssa.Store)
				if !ok {
					continue
				}
				g, ok := st.Addr.(*ssa.Global)
				if !ok {
					continue
				}
				t := u.TableByVar[g]
				mm, isMake := st.Val.(*ssa.MakeMap)
				if t == nil || !isMake {
					continue
				}
				for _, r := range *mm.Referrers() {
					mu, ok := r.(*ssa.MapUpdate)
					if !ok || mu.Map != mm {
						continue
					}
					reg := &Registration{InInit: true, Lit: mu}
					if c, ok := mu.Key.(*ssa.Const); ok && c.Value != nil {
						reg.KeyVal = c.Value
						reg.Key = c.Value.ExactString()
					} else {
						reg.Key = "<non-constant>"
					}
					switch fv := mu.Value.(type) {
					case *ssa.Function:
						reg.Closure = fv
					case *ssa.MakeClosure:
						reg.Closure, _ = fv.Fn.(*ssa.Function)
					}
					if reg.Closure != nil {
						reg.Type, reg.Fresh = u.factoryResult(reg.Closure)
					}
					t.Regs = append(t.Regs, reg)
				}
			}
		}
	}
	// registrations the syntax does not give away (keys and factories in nested literal tables, factories wrapped by
	// helpers, generic constructors): evaluate the package's init functions with the engine, loops over literal tables
	// unrolled, and read the registrations off the map updates they perform
	for _, t := range u.Tables {
		need := false
		for _, r := range t.Regs {
			if r.KeyVal == nil || r.Closure == nil || !r.Fresh {
				need = true
			}
		}
		if !need {
			continue
		}
		if regs := u.enumerateRegistrations(t); regs != nil {
			// keep what the syntax found outside the evaluated init functions (map literals, once bodies)
			var kept []*Registration
			for _, r := range t.Regs {
				if r.Lit != nil {
					kept = append(kept, r)
				}
			}
			t.Regs = append(kept, regs...)
		}
	}
	for _, t := range u.Tables {
		sort.SliceStable(t.Regs, func(i, j int) bool {
			if t.Regs[i].Key != t.Regs[j].Key {
				return t.Regs[i].Key < t.Regs[j].Key
			}
			return t.Regs[i].Pos() < t.Regs[j].Pos()
		})
	}
	sort.Slice(u.Tables, func(i, j int) bool { return u.Tables[i].Name < u.Tables[j].Name })
	return nil
}

// enumerateRegistrations evaluates the declared init functions of the table's package and returns one registration
// per update of the table they perform – nil when that cannot be done exactly (a path is undecided, a key is not a
// constant, an update goes through something the engine does not follow).
func (u *Universe) enumerateRegistrations(t *Table) []*Registration {
	var inits []*ssa.Function
	for fn := range u.P.AllFuncs {
		if fn.Pkg == t.Global.Pkg && fn.Blocks != nil && isInitFunc(fn) && fn.Name() != "init" && !u.P.IsTestFile(fn.Pos()) {
			inits = append(inits, fn)
		}
	}
	sort.Slice(inits, func(i, j int) bool { return inits[i].Name() < inits[j].Name() })
	var out []*Registration
	for _, fn := range inits {
		e := NewEngine(u.P)
		e.UnrollMax = 4096
		e.MaxPaths = 64
		paths, err := e.AnalyzeRoot(fn, nil)
		if err != nil || len(paths) != 1 || paths[0].Trunc != "" || paths[0].Panic {
			// more than one way through an init function: only acceptable if none of them touches this table
			touches := false
			for _, p := range paths {
				walkEvents(p.Events, func(ev *Event, _ int) {
					if ev.Kind == EvMapWrite && tableName(ev.Recv) == t.Name {
						touches = true
					}
				})
			}
			if touches || err != nil {
				return nil
			}
			continue
		}
		bad := false
		walkEvents(paths[0].Events, func(ev *Event, depth int) {
			if ev.Kind != EvMapWrite || tableName(ev.Recv) != t.Name {
				return
			}
			if ev.Mode != "update" || len(ev.Args) != 2 || depth != 0 {
				bad = true
				return
			}
			k := stripCT(ev.Args[0])
			for k.Op == "conv" && len(k.Args) == 1 {
				k = stripCT(k.Args[0])
			}
			if !k.IsConst() || k.C == nil {
				bad = true
				return
			}
			r := &Registration{InInit: true, At: ev.Pos, KeyVal: k.C, Key: k.C.ExactString()}
			if kb, ok := t.KeyType.Underlying().(*types.Basic); ok && kb.Info()&types.IsInteger != 0 && k.C.Kind() == constant.Int && !representable(k.C, kb) {
				bad = true
				return
			}
			f := stripCT(ev.Args[1])
			for f.Op == "conv" && len(f.Args) == 1 {
				f = stripCT(f.Args[0])
			}
			var ffn *ssa.Function
			var free []*Val
			switch f.Op {
			case "func":
				ffn, _ = f.Aux.(*ssa.Function)
			case "closure":
				ffn, _ = f.Aux.(*ssa.Function)
				free = f.Args
			}
			if ffn != nil {
				r.Closure = ffn
				cells := map[string]memEntry{}
				for bi, b := range free {
					sb := stripCT(b)
					if sb != nil && sb.Op == "alloc" && bi < len(ffn.FreeVars) {
						// a captured variable (Go captures by reference) that holds a function and that the factory only
						// reads: the constructor it wraps – a constant of the program. Anything else it captured (a
						// counter, a cache, an object) is state shared between its calls.
						readOnly := true
						for _, ref := range *ffn.FreeVars[bi].Referrers() {
							switch x := ref.(type) {
							case *ssa.UnOp, *ssa.DebugRef:
							case *ssa.Store:
								if x.Addr == ssa.Value(ffn.FreeVars[bi]) {
									readOnly = false
								}
							default:
								readOnly = false
							}
						}
						if me, has := paths[0].Mem[sb.Key()]; has && readOnly {
							if cv := stripCT(me.V); cv != nil && cv.Op == "func" {
								cells[sb.Key()] = me
								continue
							}
						}
					}
					if sb == nil || sb.Op != "func" {
						r.CapturesState = true
					}
				}
				r.Type, r.Fresh = u.factoryByEvaluation(ffn, free, cells)
				if os.Getenv("FPDEBUG") != "" {
					fmt.Fprintln(os.Stderr, "enumerated", t.Name, r.Key, ffn.String(), "free", prettyVals(free), "->", r.Type, r.Fresh, r.CapturesState)
				}
			}
			out = append(out, r)
		})
		if bad {
			return nil
		}
	}
	return out
}

// factoryByEvaluation: every way through the factory (with what it captured) returns a value allocated by this very
// call, of one codec type.
func (u *Universe) factoryByEvaluation(fn *ssa.Function, free []*Val, cells map[string]memEntry) (string, bool) {
	if name, fresh := u.factoryResult(fn); fresh {
		return name, true
	}
	e := NewEngine(u.P)
	e.MaxPaths = 64
	e.InitMem = cells
	paths, err := e.AnalyzeRootFree(fn, nil, free)
	if err != nil || len(paths) == 0 {
		return "", false
	}
	tname := ""
	for _, p := range paths {
		if p.Panic || p.Trunc != "" || len(p.Ret) != 1 {
			return "", false
		}
		v := stripIface(stripCT(p.Ret[0]))
		for v != nil && v.Op == "conv" && v.Name == "changetype" && len(v.Args) == 1 {
			v = stripIface(stripCT(v.Args[0]))
		}
		if v == nil || v.Op != "alloc" || v.Type == nil {
			return "", false
		}
		ct := u.TypeOf(v.Type)
		if ct == nil || (tname != "" && tname != ct.Name) {
			return "", false
		}
		tname = ct.Name
		// nothing else may happen: no store of the object anywhere, no call outside the model
		escapes := false
		walkEvents(p.Events, func(ev *Event, _ int) {
			switch ev.Kind {
			case EvStore, EvMapWrite, EvCall, EvGo, EvLock, EvAtomic:
				escapes = true
			}
		})
		if escapes {
			return "", false
		}
	}
	return tname, tname != ""
}

// Pos: where the registration is written (a registrar call or an entry of a map literal).
func (r *Registration) Pos() token.Pos {
	if r.At.IsValid() {
		return r.At
	}
	if r.Call != nil {
		return r.Call.Pos()
	}
	if r.Lit != nil {
		return r.Lit.Pos()
	}
	return token.NoPos
}

func isInitFunc(fn *ssa.Function) bool {
	return fn.Parent() == nil && (fn.Name() == "init" || strings.HasPrefix(fn.Name(), "init#"))
}

// classifyTableRef: an instruction that mentions the table's global.
func (u *Universe) classifyTableRef(t *Table, fn *ssa.Function, in ssa.Instruction) {
	if t.PtrRecord {
		switch x := in.(type) {
		case *ssa.Store:
			// the initialiser: variable = constructor() returning a fresh record
			if isInitFunc(fn) && x.Addr == ssa.Value(t.Global) && freshNonNil(x.Val, 0) {
				return
			}
		case *ssa.UnOp:
			// the pointer loaded and handed to methods (or helpers) that reach the map through the record's field
			if x.X == ssa.Value(t.Global) {
				okAll := true
				for _, r := range *x.Referrers() {
					switch r := r.(type) {
					case *ssa.DebugRef:
					case *ssa.Call:
						switch structMapUse(r, x, t.MapField, 0) {
						case "lookup":
							addFn(&t.Lookups, fn)
						case "update":
							addFn(&t.Registrar, fn)
						default:
							okAll = false
							t.OtherRefs = append(t.OtherRefs, r)
						}
					case *ssa.FieldAddr:
						if r.Field == t.MapField {
							switch fieldMapUse(r, 0) {
							case "lookup":
								addFn(&t.Lookups, fn)
								continue
							case "update":
								addFn(&t.Registrar, fn)
								continue
							}
						} else if loadOnlyAddr(r) {
							continue
						}
						okAll = false
						t.OtherRefs = append(t.OtherRefs, r)
					default:
						okAll = false
						t.OtherRefs = append(t.OtherRefs, r)
					}
				}
				_ = okAll
				return
			}
		}
		t.OtherRefs = append(t.OtherRefs, in)
		return
	}
	if t.MapField >= 0 {
		// the table is a record around the map: its address handed to a method (or helper) that reaches the map
		// through that field, or the field taken here
		switch x := in.(type) {
		case *ssa.Call:
			switch structMapUse(x, t.Global, t.MapField, 0) {
			case "lookup":
				addFn(&t.Lookups, fn)
				return
			case "update":
				addFn(&t.Registrar, fn)
				return
			}
		case *ssa.FieldAddr:
			if x.Field == t.MapField {
				switch fieldMapUse(x, 0) {
				case "lookup":
					addFn(&t.Lookups, fn)
					return
				case "update":
					addFn(&t.Registrar, fn)
					return
				}
			}
		}
		t.OtherRefs = append(t.OtherRefs, in)
		return
	}
	if t.Accessor != nil {
		if st, ok := in.(*ssa.Store); ok && fn == t.OnceBody && st.Addr == ssa.Value(t.Global) {
			return // the once body's assignment
		}
		if ld, ok := in.(*ssa.UnOp); ok && fn == t.Accessor && ld.X == ssa.Value(t.Global) {
			return // the accessor's read (checked when the accessor was recognised)
		}
	}
	// the usual shape: t0 = *global ; then Lookup / MapUpdate on t0
	if ld, ok := in.(*ssa.UnOp); ok {
		u.classifyMapValue(t, fn, ld)
		return
	}
	if st, ok := in.(*ssa.Store); ok && isInitFunc(fn) {
		// package initialiser: global = make(map…)
		if _, ok := st.Val.(*ssa.MakeMap); ok {
			return
		}
	}
	t.OtherRefs = append(t.OtherRefs, in)
}

// classifyMapValue: ld is the table's map value in fn (loaded from the variable, or handed out by the accessor of a
// lazily built table): what is done with it?
func (u *Universe) classifyMapValue(t *Table, fn *ssa.Function, ld ssa.Value) {
	{
		allOK := true
		for _, r := range *ld.Referrers() {
			if mapQueryUse(r, ld, 0) {
				continue // asks whether a key is there, how many there are, which keys: no factory leaves the table this way
			}
			if isInitFunc(fn) || u.calledFromInitOnly(fn) {
				// start-up code reading the table it has just filled (a self-check that no entry is nil, that every
				// factory builds a known type): reads during initialisation change nothing
				switch r.(type) {
				case *ssa.Range, *ssa.Lookup:
					continue
				}
			}
			switch r := r.(type) {
			case *ssa.Lookup:
				if r.X == ld {
					addFn(&t.Lookups, fn)
					continue
				}
			case *ssa.MapUpdate:
				if r.Map == ld {
					addFn(&t.Registrar, fn)
					continue
				}
			case *ssa.DebugRef:
				continue
			case *ssa.Store:
				// the map put into a field of a record made here and handed back whole: a view of the table
				if fa, isFA := r.Addr.(*ssa.FieldAddr); isFA && r.Val == ld {
					if al, isAl := fa.X.(*ssa.Alloc); isAl && viewReturned(al, fn) {
						if t.Views == nil {
							t.Views = map[*ssa.Function]int{}
						}
						t.Views[fn] = fa.Field
						continue
					}
				}
			case *ssa.Call:
				// the table handed to a module function (e.g. a method of a named map type) that only looks up in it
				// or only updates it: this function is then a lookup / registrar through that helper
				if use := paramMapUse(r, ld, 0); use == "lookup" {
					addFn(&t.Lookups, fn)
					continue
				} else if use == "update" {
					addFn(&t.Registrar, fn)
					continue
				}
			}
			allOK = false
			if os.Getenv("FPDEBUG") == "tables" {
				fmt.Fprintf(os.Stderr, "OTHERREF %s in %s: %T %v\n", t.Name, fn, r, r)
			}
			t.OtherRefs = append(t.OtherRefs, r)
		}
		_ = allOK
	}
}

// onceBodies: function literals handed to Do of a package-level sync.Once and used for nothing else, with that Once.
func onceBodies(p *Program) map[*ssa.Function]*ssa.Global {
	out := map[*ssa.Function]*ssa.Global{}
	bad := map[*ssa.Function]bool{}
	for fn := range p.AllFuncs {
		if !p.InModule(fn) || fn.Blocks == nil || p.IsTestFile(fn.Pos()) {
			continue
		}
		for _, b := range fn.Blocks {
			for _, in := range b.Instrs {
				c, ok := in.(ssa.CallInstruction)
				if !ok {
					continue
				}
				callee := c.Common().StaticCallee()
				if callee == nil || fullName(callee) != "(*sync.Once).Do" || len(c.Common().Args) != 2 {
					continue
				}
				g, isG := c.Common().Args[0].(*ssa.Global)
				var body *ssa.Function
				switch f := c.Common().Args[1].(type) {
				case *ssa.Function:
					body = f
				case *ssa.MakeClosure:
					if len(f.Bindings) == 0 {
						body, _ = f.Fn.(*ssa.Function)
					}
				}
				if body == nil {
					continue
				}
				if !isG || (out[body] != nil && out[body] != g) {
					bad[body] = true
					continue
				}
				out[body] = g
			}
		}
	}
	// the literal is used for nothing but these Do calls
	for body := range out {
		if body.Parent() == nil {
			bad[body] = true
			continue
		}
		for _, b := range body.Parent().Blocks {
			for _, in := range b.Instrs {
				for _, op := range in.Operands(nil) {
					if *op != ssa.Value(body) {
						continue
					}
					if c, ok := in.(ssa.CallInstruction); !ok || !isOnceDo(c, out[body], body) {
						bad[body] = true
					}
				}
			}
		}
	}
	for b := range bad {
		delete(out, b)
	}
	return out
}

func isOnceDo(c ssa.CallInstruction, once *ssa.Global, body *ssa.Function) bool {
	callee := c.Common().StaticCallee()
	if callee == nil || fullName(callee) != "(*sync.Once).Do" || len(c.Common().Args) != 2 || c.Common().Args[0] != ssa.Value(once) {
		return false
	}
	switch f := c.Common().Args[1].(type) {
	case *ssa.Function:
		return f == body
	case *ssa.MakeClosure:
		return f.Fn == ssa.Value(body)
	}
	return false
}

func instrIndex(in ssa.Instruction) int {
	for i, x := range in.Block().Instrs {
		if x == in {
			return i
		}
	}
	return -1
}

// paramMapUse: call passes the map value v to a static module callee; what does the callee do with that parameter?
// "lookup" (only Lookup / len, possibly through further such calls), "update" (MapUpdate, possibly with lookups) or ""
// (anything else: stored, returned, ranged over, passed to unknown code).
func paramMapUse(call *ssa.Call, v ssa.Value, depth int) string {
	callee := call.Call.StaticCallee()
	if callee == nil || callee.Blocks == nil || depth > 3 {
		return ""
	}
	// an instantiation wrapper forwards its parameters to the generic body
	idx := -1
	for i, a := range call.Call.Args {
		if a == v {
			if idx >= 0 {
				return ""
			}
			idx = i
		}
	}
	if idx < 0 || idx >= len(callee.Params) {
		return ""
	}
	p := callee.Params[idx]
	res := "lookup"
	for _, r := range *p.Referrers() {
		switch r := r.(type) {
		case *ssa.DebugRef:
		case *ssa.Lookup:
			if r.X != p {
				return ""
			}
		case *ssa.MapUpdate:
			if r.Map != p {
				return ""
			}
			res = "update"
		case *ssa.Call:
			if b, ok := r.Call.Value.(*ssa.Builtin); ok && b.Name() == "len" {
				continue
			}
			sub := paramMapUse(r, p, depth+1)
			if sub == "" {
				return ""
			}
			if sub == "update" {
				res = "update"
			}
		default:
			return ""
		}
	}
	return res
}

// calledFromInitOnly: fn is an unexported module function whose every use is a direct call from an init function (a
// start-up self-check factored out of init).
func (u *Universe) calledFromInitOnly(fn *ssa.Function) bool {
	if fn == nil || fn.Object() == nil || fn.Object().Exported() || fn.Parent() != nil {
		return false
	}
	if u.initOnly == nil {
		u.initOnly = map[*ssa.Function]int{} // 1 only init callers, 2 other uses
		for f := range u.P.AllFuncs {
			if !u.P.InModule(f) || f.Blocks == nil || u.P.IsTestFile(f.Pos()) {
				continue
			}
			for _, b := range f.Blocks {
				for _, in := range b.Instrs {
					for _, op := range in.Operands(nil) {
						if op == nil || *op == nil {
							continue
						}
						g, ok := (*op).(*ssa.Function)
						if !ok {
							continue
						}
						direct := false
						if c, isCall := in.(*ssa.Call); isCall && c.Call.Value == ssa.Value(g) {
							direct = true
						}
						if direct && isInitFunc(f) {
							if u.initOnly[g] == 0 {
								u.initOnly[g] = 1
							}
						} else {
							u.initOnly[g] = 2
						}
					}
				}
			}
		}
	}
	return u.initOnly[fn] == 1
}

// mapQueryUse: the instruction r uses the map value v only to ask about its keys: a comma-ok look-up whose value is
// never taken, len, a range whose values are never taken, or a call of a module function that does only such things
// with it. Nothing registered in the table can leave it – or be replaced – this way.
func mapQueryUse(r ssa.Instruction, v ssa.Value, depth int) bool {
	unusedExtract := func(tuple ssa.Value, idx int) bool {
		for _, x := range *tuple.Referrers() {
			if ex, ok := x.(*ssa.Extract); ok && ex.Index == idx {
				for _, u := range *ex.Referrers() {
					if _, dbg := u.(*ssa.DebugRef); !dbg {
						return false
					}
				}
			}
		}
		return true
	}
	switch r := r.(type) {
	case *ssa.Lookup:
		return r.X == v && r.CommaOk && unusedExtract(r, 0)
	case *ssa.Range:
		if r.X != v {
			return false
		}
		for _, n := range *r.Referrers() {
			nx, ok := n.(*ssa.Next)
			if !ok {
				if _, dbg := n.(*ssa.DebugRef); dbg {
					continue
				}
				return false
			}
			if !unusedExtract(nx, 2) {
				return false
			}
		}
		return true
	case *ssa.Call:
		if b, ok := r.Call.Value.(*ssa.Builtin); ok {
			return b.Name() == "len" && len(r.Call.Args) == 1 && r.Call.Args[0] == v
		}
		callee := r.Call.StaticCallee()
		if callee == nil || callee.Blocks == nil || depth > 3 || r.Call.IsInvoke() {
			return false
		}
		idx := -1
		for i, a := range r.Call.Args {
			if a == v {
				if idx >= 0 {
					return false
				}
				idx = i
			}
		}
		if idx < 0 || idx >= len(callee.Params) {
			return false
		}
		p := callee.Params[idx]
		for _, u := range *p.Referrers() {
			if _, dbg := u.(*ssa.DebugRef); dbg {
				continue
			}
			if !mapQueryUse(u, p, depth+1) {
				return false
			}
		}
		return true
	}
	return false
}

// fieldMapUse: fa is the address of the map field of a table record; what is done with the map? ("lookup", "update", "")
func fieldMapUse(fa *ssa.FieldAddr, depth int) string {
	res := "lookup"
	for _, r := range *fa.Referrers() {
		switch r := r.(type) {
		case *ssa.DebugRef:
		case *ssa.Store:
			// (lazy) initialisation with a fresh map
			if r.Addr != fa {
				return ""
			}
			if _, isMake := r.Val.(*ssa.MakeMap); !isMake {
				return ""
			}
			res = "update"
		case *ssa.UnOp:
			if r.Op != token.MUL {
				return ""
			}
			for _, r2 := range *r.Referrers() {
				switch u := r2.(type) {
				case *ssa.DebugRef:
				case *ssa.Lookup:
					if u.X != r {
						return ""
					}
				case *ssa.MapUpdate:
					if u.Map != r {
						return ""
					}
					res = "update"
				case *ssa.BinOp: // m == nil
					if u.Op != token.EQL && u.Op != token.NEQ {
						return ""
					}
				case *ssa.Call:
					if b, ok := u.Call.Value.(*ssa.Builtin); ok && b.Name() == "len" {
						continue
					}
					sub := paramMapUse(u, r, depth+1)
					if sub == "" {
						return ""
					}
					if sub == "update" {
						res = "update"
					}
				default:
					return ""
				}
			}
		default:
			return ""
		}
	}
	return res
}

// structMapUse: call passes the table record's address v to a static module callee; what does the callee do with the
// map in field idx of that record (possibly through an instantiation wrapper or a further helper)?
func structMapUse(call *ssa.Call, v ssa.Value, idx int, depth int) string {
	callee := call.Call.StaticCallee()
	if callee == nil || callee.Blocks == nil || depth > 4 {
		return ""
	}
	ai := -1
	for i, a := range call.Call.Args {
		if a == v {
			if ai >= 0 {
				return ""
			}
			ai = i
		}
	}
	if ai < 0 || ai >= len(callee.Params) {
		return ""
	}
	p := callee.Params[ai]
	res := "lookup"
	for _, r := range *p.Referrers() {
		switch r := r.(type) {
		case *ssa.DebugRef:
		case *ssa.FieldAddr:
			if r.X != p {
				return ""
			}
			if r.Field != idx {
				if !loadOnlyAddr(r) {
					return ""
				}
				continue // a label of the record read (the name used in the error message)
			}
			sub := fieldMapUse(r, depth+1)
			if sub == "" {
				return ""
			}
			if sub == "update" {
				res = "update"
			}
		case *ssa.Call:
			sub := structMapUse(r, p, idx, depth+1)
			if sub == "" {
				return ""
			}
			if sub == "update" {
				res = "update"
			}
		default:
			return ""
		}
	}
	return res
}

// loadOnlyAddr: the address is only loaded from.
func loadOnlyAddr(v ssa.Value) bool {
	refs := v.Referrers()
	if refs == nil {
		return false
	}
	for _, r := range *refs {
		switch l := r.(type) {
		case *ssa.DebugRef:
		case *ssa.UnOp:
			if l.Op != token.MUL {
				return false
			}
		default:
			return false
		}
	}
	return true
}

func addFn(l *[]*ssa.Function, fn *ssa.Function) {
	for _, f := range *l {
		if f == fn {
			return
		}
	}
	*l = append(*l, fn)
}

// factoryResult: the closure returns a fresh &T{} (possibly converted to the interface).
func (u *Universe) factoryResult(fn *ssa.Function) (string, bool) {
	if fn.Blocks == nil {
		return "", false
	}
	var tname string
	fresh := true
	n := 0
	for _, b := range fn.Blocks {
		for _, in := range b.Instrs {
			ret, ok := in.(*ssa.Return)
			if !ok {
				continue
			}
			n++
			if len(ret.Results) != 1 {
				return "", false
			}
			v := ret.Results[0]
			for {
				// (conversions between pointer types with the same base, as in P(new(T)) of a generic constructor)
				switch x := v.(type) {
				case *ssa.MakeInterface:
					v = x.X
					continue
				case *ssa.ChangeType:
					v = x.X
					continue
				}
				break
			}
			al, ok := v.(*ssa.Alloc)
			if !ok || !al.Heap || al.Block().Parent() != fn {
				fresh = false
				if ct := u.TypeOf(v.Type()); ct != nil {
					tname = ct.Name
				}
				continue
			}
			ct := u.TypeOf(al.Type())
			if ct == nil {
				return typeStr(al.Type()), false
			}
			if tname != "" && tname != ct.Name {
				return "", false
			}
			tname = ct.Name
			// the allocation must not be stored anywhere else
			for _, r := range *al.Referrers() {
				switch r.(type) {
				case *ssa.MakeInterface, *ssa.Return, *ssa.DebugRef, *ssa.FieldAddr:
				default:
					fresh = false
				}
			}
		}
	}
	return tname, fresh && n > 0 && tname != ""
}

func (u *Universe) discoverServices() error {
	p := u.P
	// the registry: the global of codec whose pointee struct has a sync mutex and a map
	for _, m := range u.Codec.Members {
		f, ok := m.(*ssa.Function)
		if !ok || p.IsTestFile(f.Pos()) {
			continue
		}
		_ = f
	}
	// services: values of a pointer type with Algorithm() string and Calc(x) that an init function of the module turns
	// into an interface value (to hand them to the registry – directly, through a slice literal, a loop, a helper …)
	seen := map[*types.Named]bool{}
	// start-up code: the init functions and the module functions they call (statically, transitively)
	startup := map[*ssa.Function]bool{}
	var work []*ssa.Function
	for fn := range p.AllFuncs {
		if p.InModule(fn) && fn.Blocks != nil && !p.IsTestFile(fn.Pos()) && isInitFunc(fn) {
			startup[fn] = true
			work = append(work, fn)
		}
	}
	for len(work) > 0 {
		fn := work[len(work)-1]
		work = work[:len(work)-1]
		for _, b := range fn.Blocks {
			for _, in := range b.Instrs {
				if c, ok := in.(ssa.CallInstruction); ok {
					if cal := c.Common().StaticCallee(); cal != nil && cal.Blocks != nil && p.InModule(cal) && !startup[cal] && !p.IsTestFile(cal.Pos()) {
						startup[cal] = true
						work = append(work, cal)
					}
				}
				// function literals and function values start-up code makes or hands on (an option closure run by a
				// constructor, a callback): they run – if at all – as part of start-up too
				for _, op := range in.Operands(nil) {
					if op == nil || *op == nil {
						continue
					}
					var lit *ssa.Function
					switch v := (*op).(type) {
					case *ssa.Function:
						lit = v
					case *ssa.MakeClosure:
						lit, _ = v.Fn.(*ssa.Function)
					}
					if lit != nil && lit.Blocks != nil && p.InModule(lit) && !startup[lit] && !p.IsTestFile(lit.Pos()) {
						startup[lit] = true
						work = append(work, lit)
					}
				}
			}
		}
	}
	var fns []*ssa.Function
	for fn := range startup {
		fns = append(fns, fn)
	}
	sort.Slice(fns, func(i, j int) bool { return fns[i].String() < fns[j].String() })
	for _, fn := range fns {
		for _, b := range fn.Blocks {
			for _, in := range b.Instrs {
				mi, ok := in.(*ssa.MakeInterface)
				if !ok {
					continue
				}
				pt, ok := mi.X.Type().(*types.Pointer)
				if !ok {
					continue
				}
				named, ok := pt.Elem().(*types.Named)
				if !ok || seen[named] {
					continue
				}
				// (LookupMethod panics for a type without the method: ask the method set first)
				ms := types.NewMethodSet(pt)
				if ms.Lookup(named.Obj().Pkg(), "Algorithm") == nil || ms.Lookup(named.Obj().Pkg(), "Calc") == nil {
					continue
				}
				algo := p.Prog.LookupMethod(pt, named.Obj().Pkg(), "Algorithm")
				calc := p.Prog.LookupMethod(pt, named.Obj().Pkg(), "Calc")
				if algo == nil || calc == nil {
					continue
				}
				seen[named] = true
				s := &ChecksumSvc{Type: named, Calc: calc, AlgoFn: algo, RegCall: mi}
				s.Name = constStringResult(algo)
				if s.Name == "" {
					// the name spelt through a typed constant and a method (`return AlgCRC16.String()`): evaluated
					e := NewEngine(p)
					e.MaxPaths = 16
					if paths, err := e.AnalyzeRoot(algo, nil); err == nil && len(paths) == 1 && len(paths[0].Ret) == 1 && paths[0].Trunc == "" && !paths[0].Panic {
						if r := stripCT(paths[0].Ret[0]); r != nil {
							for r.Op == "conv" && len(r.Args) == 1 && isStringOrBytes(r.Type) {
								r = stripCT(r.Args[0])
							}
							if r.IsConst() && r.C != nil && r.C.Kind() == constant.String {
								s.Name = constant.StringVal(r.C)
							}
						}
					}
				}
				if calc.Signature.Results().Len() == 1 {
					s.ResultT = calc.Signature.Results().At(0).Type()
				}
				u.Services = append(u.Services, s)
			}
		}
	}
	sort.Slice(u.Services, func(i, j int) bool { return u.Services[i].Type.Obj().Name() < u.Services[j].Type.Obj().Name() })
	return nil
}

// constSet: the constant values v can take when it is a constant, an element of a local array/slice literal all of
// whose elements are constants (the operand of a range loop), or +, -, * of such values with at most one operand taking
// more than one value. ok=false when v is anything else.
func constSet(v ssa.Value, depth int) ([]constant.Value, bool) {
	if depth > 6 {
		return nil, false
	}
	switch x := v.(type) {
	case *ssa.Const:
		if x.Value == nil {
			return nil, false
		}
		return []constant.Value{x.Value}, true
	case *ssa.ChangeType:
		return constSet(x.X, depth+1)
	case *ssa.Convert:
		vals, ok := constSet(x.X, depth+1)
		if !ok {
			return nil, false
		}
		// only value-preserving conversions between integer types
		b, isB := x.Type().Underlying().(*types.Basic)
		if !isB || b.Info()&types.IsInteger == 0 {
			return nil, false
		}
		for _, c := range vals {
			if c.Kind() != constant.Int || !representable(c, b) {
				return nil, false
			}
		}
		return vals, true
	case *ssa.BinOp:
		var op token.Token
		switch x.Op {
		case token.ADD, token.SUB, token.MUL:
			op = x.Op
		default:
			return nil, false
		}
		a, ok1 := constSet(x.X, depth+1)
		b, ok2 := constSet(x.Y, depth+1)
		if !ok1 || !ok2 || (len(a) > 1 && len(b) > 1) {
			return nil, false
		}
		var out []constant.Value
		for _, p := range a {
			for _, q := range b {
				if p.Kind() != constant.Int || q.Kind() != constant.Int {
					return nil, false
				}
				r := constant.BinaryOp(p, op, q)
				if bt, isB := x.Type().Underlying().(*types.Basic); !isB || !representable(r, bt) {
					return nil, false // would wrap
				}
				out = append(out, r)
			}
		}
		return out, true
	case *ssa.UnOp:
		if x.Op != token.MUL {
			return nil, false
		}
		ia, ok := x.X.(*ssa.IndexAddr)
		if !ok {
			return nil, false
		}
		var al *ssa.Alloc
		switch base := ia.X.(type) {
		case *ssa.Slice:
			if base.Low != nil || base.High != nil || base.Max != nil {
				return nil, false
			}
			al, _ = base.X.(*ssa.Alloc)
		case *ssa.Alloc:
			al = base
		}
		if al == nil {
			return nil, false
		}
		pt, ok := al.Type().Underlying().(*types.Pointer)
		if !ok {
			return nil, false
		}
		arr, ok := pt.Elem().Underlying().(*types.Array)
		if !ok {
			return nil, false
		}
		elems := map[int64]constant.Value{}
		for _, r := range *al.Referrers() {
			switch u := r.(type) {
			case *ssa.Slice:
				// only re-sliced whole and only read (indexed) or ranged over
				for _, r2 := range *u.Referrers() {
					switch r2.(type) {
					case *ssa.IndexAddr, *ssa.DebugRef:
					case *ssa.Call:
						if b, ok := r2.(*ssa.Call).Call.Value.(*ssa.Builtin); !ok || b.Name() != "len" {
							return nil, false
						}
					default:
						return nil, false
					}
				}
			case *ssa.DebugRef:
			case *ssa.IndexAddr:
				idx, isC := u.Index.(*ssa.Const)
				if !isC {
					// a read through a variable index: fine as long as nothing is stored through it
					for _, r2 := range *u.Referrers() {
						if _, isStore := r2.(*ssa.Store); isStore {
							return nil, false
						}
					}
					continue
				}
				i, _ := constant.Int64Val(constant.ToInt(idx.Value))
				for _, r2 := range *u.Referrers() {
					if st, isStore := r2.(*ssa.Store); isStore && st.Addr == u {
						c, isC := st.Val.(*ssa.Const)
						if !isC || c.Value == nil {
							return nil, false
						}
						if _, dup := elems[i]; dup {
							return nil, false
						}
						elems[i] = c.Value
					}
				}
			default:
				return nil, false
			}
		}
		var out []constant.Value
		for i := int64(0); i < arr.Len(); i++ {
			c, ok := elems[i]
			if !ok {
				if b, isB := arr.Elem().Underlying().(*types.Basic); isB && b.Info()&types.IsString != 0 {
					c = constant.MakeString("")
				} else {
					c = constant.MakeInt64(0)
				}
			}
			out = append(out, c)
		}
		return out, len(out) > 0
	}
	return nil, false
}

func representable(c constant.Value, b *types.Basic) bool {
	if c.Kind() != constant.Int {
		return false
	}
	bits, _ := intBits(b)
	if bits == 0 {
		bits = 64
	}
	if b.Info()&types.IsUnsigned != 0 {
		if constant.Sign(c) < 0 {
			return false
		}
		lim := constant.Shift(constant.MakeInt64(1), token.SHL, uint(bits))
		return constant.Compare(c, token.LSS, lim)
	}
	lim := constant.Shift(constant.MakeInt64(1), token.SHL, uint(bits-1))
	return constant.Compare(c, token.LSS, lim) && constant.Compare(c, token.GEQ, constant.UnaryOp(token.SUB, lim, 0))
}

func constStringResult(fn *ssa.Function) string {
	if fn.Blocks == nil {
		return ""
	}
	res := ""
	for _, b := range fn.Blocks {
		for _, in := range b.Instrs {
			if r, ok := in.(*ssa.Return); ok && len(r.Results) == 1 {
				c, ok := r.Results[0].(*ssa.Const)
				if !ok || c.Value == nil || c.Value.Kind() != constant.String {
					return ""
				}
				s := constant.StringVal(c.Value)
				if res != "" && res != s {
					return ""
				}
				res = s
			}
		}
	}
	return res
}

func (u *Universe) ServiceByName(name string) *ChecksumSvc {
	for _, s := range u.Services {
		if s.Name == name {
			return s
		}
	}
	return nil
}


// viewReturned: the record al made in fn is used for nothing but filling its fields and being returned (as a whole value
// loaded from it, or by its address).
func viewReturned(al *ssa.Alloc, fn *ssa.Function) bool {
	returned := false
	for _, r := range *al.Referrers() {
		switch r := r.(type) {
		case *ssa.DebugRef:
		case *ssa.FieldAddr:
			for _, rr := range *r.Referrers() {
				if st, ok := rr.(*ssa.Store); !ok || st.Addr != ssa.Value(r) {
					if _, dbg := rr.(*ssa.DebugRef); !dbg {
						return false
					}
				}
			}
		case *ssa.UnOp:
			for _, rr := range *r.Referrers() {
				switch rr.(type) {
				case *ssa.Return:
					returned = true
				case *ssa.DebugRef:
				default:
					return false
				}
			}
		case *ssa.Return:
			returned = true
		default:
			return false
		}
	}
	return returned
}

// recordMapUse: call hands the record value rec (a view of a table: the map is its field fidx) to a module function as
// one of its arguments; what does that function do with the map? "lookup" (reads entries), "query" (asks only whether a
// key is there, how many, which keys), "" (anything else: updates it, stores it, hands the record on in a way not followed).
func recordMapUse(call *ssa.Call, rec ssa.Value, fidx int, depth int) string {
	callee := call.Call.StaticCallee()
	if callee == nil || callee.Blocks == nil || depth > 3 {
		return ""
	}
	idx := -1
	for i, a := range call.Call.Args {
		if a == rec {
			if idx >= 0 {
				return ""
			}
			idx = i
		}
	}
	if idx < 0 || idx >= len(callee.Params) {
		return ""
	}
	res := "query"
	var mapVals []ssa.Value
	var recUses func(v ssa.Value, isAddr bool) bool
	recUses = func(v ssa.Value, isAddr bool) bool {
		for _, r := range *v.Referrers() {
			switch r := r.(type) {
			case *ssa.DebugRef:
			case *ssa.Field:
				if isAddr || r.X != v {
					return false
				}
				if r.Field == fidx {
					mapVals = append(mapVals, r)
				}
			case *ssa.FieldAddr:
				if !isAddr || r.X != v {
					return false
				}
				for _, rr := range *r.Referrers() {
					switch rr := rr.(type) {
					case *ssa.DebugRef:
					case *ssa.UnOp:
						if r.Field == fidx {
							mapVals = append(mapVals, rr)
						}
					default:
						return false // the field written or its address handed on
					}
				}
			case *ssa.Store:
				// the parameter spilled into a local of the callee (its address is taken by a method call or a field access)
				if isAddr && r.Addr == v {
					if _, fromParam := r.Val.(*ssa.Parameter); fromParam {
						continue // the spill itself, seen from the local
					}
					return false
				}
				if isAddr || r.Val != v {
					return false
				}
				al, ok := r.Addr.(*ssa.Alloc)
				if !ok || !recUses(al, true) {
					return false
				}
			case *ssa.UnOp:
				if !isAddr || !recUses(r, false) {
					return false
				}
			case *ssa.ChangeType:
				// an instantiation wrapper hands its receiver on under the generic body's type
				if isAddr || !recUses(r, false) {
					return false
				}
			case *ssa.Call:
				sub := recordMapUse(r, v, fidx, depth+1)
				if sub == "" {
					return false
				}
				if sub == "lookup" {
					res = "lookup"
				}
			default:
				return false
			}
		}
		return true
	}
	if !recUses(callee.Params[idx], false) {
		return ""
	}
	for _, m := range mapVals {
		for _, r := range *m.Referrers() {
			if _, dbg := r.(*ssa.DebugRef); dbg {
				continue
			}
			if mapQueryUse(r, m, 0) {
				continue
			}
			if lk, ok := r.(*ssa.Lookup); ok && lk.X == m {
				res = "lookup"
				continue
			}
			return ""
		}
	}
	return res
}


type literalEntry struct {
	key constant.Value
	val ssa.Value
}

// rangedLiteralEntries: k and v are the key and value a `for k, v := range m` hands out, m being a map made in this
// function, filled only by updates with constant keys and used for nothing but that range: the entries.
func rangedLiteralEntries(k, v ssa.Value) []literalEntry {
	strip := func(x ssa.Value) ssa.Value {
		for {
			switch y := x.(type) {
			case *ssa.ChangeType:
				x = y.X
				continue
			}
			return x
		}
	}
	ek, ok1 := strip(k).(*ssa.Extract)
	ev, ok2 := strip(v).(*ssa.Extract)
	if !ok1 || !ok2 || ek.Index != 1 || ev.Index != 2 || ek.Tuple != ev.Tuple {
		return nil
	}
	nx, ok := ek.Tuple.(*ssa.Next)
	if !ok {
		return nil
	}
	rg, ok := nx.Iter.(*ssa.Range)
	if !ok {
		return nil
	}
	mm, ok := rg.X.(*ssa.MakeMap)
	if !ok {
		return nil
	}
	var out []literalEntry
	seen := map[string]bool{}
	for _, r := range *mm.Referrers() {
		switch r := r.(type) {
		case *ssa.DebugRef:
		case *ssa.Range:
			if r != rg {
				return nil
			}
		case *ssa.MapUpdate:
			c, isC := r.Key.(*ssa.Const)
			if !isC || c.Value == nil || r.Map != ssa.Value(mm) || r.Block().Parent() != mm.Parent() {
				return nil
			}
			if seen[c.Value.ExactString()] {
				return nil
			}
			seen[c.Value.ExactString()] = true
			out = append(out, literalEntry{c.Value, r.Value})
		default:
			return nil
		}
	}
	return out
}
