package main

import (
	"os"
	"fmt"
	"go/constant"
	"go/token"
	"go/types"
	"strings"
)

// Val is the provenance term of an SSA value along one analysed path: where a
// value comes from, expressed over the root function's parameters, the initial
// contents of memory reachable from them, wire reads, and pure operations.
// It is a description of dataflow, not a run-time value.
type Val struct {
	Op   string
	Type types.Type
	Args []*Val
	C    constant.Value // Op == "const" (nil C with Op const = nil/zero value)
	ID   int            // event id / alloc id / marker id / param index
	Name string         // auxiliary name (callee, global, field, operator)
	Aux  interface{}    // *ssa.Function for closures / funcs; types.Object for globals
	key  string
}

// Ops:
//  const            constant (C == nil means nil / zero value of Type)
//  param  ID=i      i-th parameter of the root function
//  init   [addr]    initial content of memory at addr (before the root call)
//  alloc  ID        address of a local/heap allocation made on this path (Name = "heap"|"local")
//  global Name      address of a package-level variable (Aux types.Object)
//  field  [addr] ID address of field ID of *addr (Name = field name)
//  index  [addr,i]  address of element i of *addr / of slice addr
//  wire   ID        value produced by read event ID (integer or byte content)
//  short  ID        byte count of a short (*Buffer).Read (event ID); < len
//  len    [x]       len(x)
//  cap    [x]
//  conv   [x]       conversion to Type (Name: "convert"|"changetype")
//  binop  Name [x,y]
//  unop   Name [x]
//  slice  [x,lo,hi,max] sub-slice (absent bounds are nil entries)
//  makeslice ID [len,cap] fresh slice
//  buflen ID        result of buf.Len() at marker ID     (Args[0] = buffer)
//  bufbytes ID      result of buf.Bytes() at marker ID   (Args[0] = buffer)
//  call   Name [args] result of a modelled pure function (Aux = result index as int)
//  calc   ID        result of a checksum service Calc (event ID)
//  lookup [m,k]     m[k] value ; lookupok [m,k] the comma-ok
//  dyncall [f,args...] ID result of calling an unknown function value (ID = site id; Aux result idx)
//  closure Aux=fn [bindings]
//  func   Aux=fn
//  iface  [x]       interface value holding x (Type = dynamic type of x is x.Type)
//  tassert [x]      x.(Type)  (Name "ok" for the commaok flag)
//  collect ID [init, elem, count]  slice accumulated by loop ID
//  loopvar ID Name  loop-variant value inside loop summary
//  elem [x, i]      element of slice/array content x
//  tuple [..]
//  nonnil Name      an error value known to be non-nil (Name = origin)
//  unknown ID Name

func (v *Val) Key() string {
	if v == nil {
		return "_"
	}
	if v.key != "" {
		return v.key
	}
	var b strings.Builder
	b.WriteString(v.Op)
	switch v.Op {
	case "const":
		if v.C == nil {
			b.WriteString(":nil")
		} else {
			b.WriteString(":" + v.C.ExactString())
		}
		// constants of different types but same numeric value compare equal for
		// guard matching; type is deliberately not part of the key for numbers.
		if v.C == nil && v.Type != nil {
			b.WriteString("<" + typeStr(v.Type) + ">")
		}
	case "param", "alloc", "wire", "short", "makeslice", "buflen", "bufbytes", "calc", "unknown", "collect", "loopvar", "dyncall", "crc32hash":
		fmt.Fprintf(&b, "#%d", v.ID)
		if v.Name != "" {
			b.WriteString(":" + v.Name)
		}
	case "global", "call", "binop", "unop", "nonnil", "tassert", "bytesconst":
		b.WriteString(":" + v.Name)
		if v.Op == "call" {
			if i, ok := v.Aux.(int); ok && i > 0 {
				fmt.Fprintf(&b, ".%d", i)
			}
		}
	case "field":
		fmt.Fprintf(&b, ".%d", v.ID)
	case "conv":
		b.WriteString("<" + typeStr(v.Type) + ">")
	case "closure", "func":
		fmt.Fprintf(&b, ":%v", v.Aux)
	case "iface":
		if len(v.Args) > 0 && v.Args[0] != nil && v.Args[0].Type != nil {
			b.WriteString("<" + typeStr(v.Args[0].Type) + ">")
		}
	}
	if len(v.Args) > 0 && v.Op != "dyncall" || v.Op == "dyncall" {
		b.WriteString("(")
		for i, a := range v.Args {
			if i > 0 {
				b.WriteString(",")
			}
			b.WriteString(a.Key())
		}
		b.WriteString(")")
	}
	v.key = b.String()
	return v.key
}

// wrapInt reduces an integer constant to the range of the sized integer type t (two's complement), as the machine
// operation on values of that type does; other constants and types are left alone.
func wrapInt(c constant.Value, t types.Type) constant.Value {
	if c == nil || c.Kind() != constant.Int || t == nil {
		return c
	}
	b, ok := t.Underlying().(*types.Basic)
	if !ok || b.Info()&types.IsInteger == 0 || b.Info()&types.IsUntyped != 0 {
		return c
	}
	bits, uns := intBits(b)
	if bits <= 0 {
		return c
	}
	mod := constant.Shift(constant.MakeInt64(1), token.SHL, uint(bits))
	mask := constant.BinaryOp(mod, token.SUB, constant.MakeInt64(1))
	w := constant.BinaryOp(c, token.AND, mask) // (AND of a negative big integer is two's complement in go/constant)
	if !uns {
		half := constant.Shift(constant.MakeInt64(1), token.SHL, uint(bits-1))
		if constant.Compare(w, token.GEQ, half) {
			w = constant.BinaryOp(w, token.SUB, mod)
		}
	}
	return w
}

func typeStr(t types.Type) string {
	if t == nil {
		return "?"
	}
	if tp, ok := t.(*types.TypeParam); ok {
		// generic bodies: a type parameter is named by its constraint, so that a callee's own parameter and the
		// caller's argument for it render alike
		c := types.TypeString(tp.Constraint(), func(p *types.Package) string { return "" })
		if i := strings.LastIndex(c, "."); i >= 0 {
			c = c[i+1:]
		}
		return fmt.Sprintf("<%s#%d>", c, tp.Index())
	}
	if b, ok := t.(*types.Basic); ok {
		switch b.Kind() { // aliases byte/rune print by their canonical names
		case types.Uint8:
			return "uint8"
		case types.Int32:
			return "int32"
		}
	}
	return types.TypeString(t, func(p *types.Package) string {
		return shortPkg(p.Path())
	})
}

// wireTypeStr names a number type by what it is on the wire: a named number type (`type Side uint8`) is rendered by
// binary.Write/Read exactly as its underlying type.
func wireTypeStr(t types.Type) string {
	if t == nil {
		return "?"
	}
	if _, isTP := t.(*types.TypeParam); isTP {
		return typeStr(t)
	}
	if b, ok := t.Underlying().(*types.Basic); ok && b.Info()&(types.IsNumeric|types.IsBoolean) != 0 {
		return typeStr(types.Typ[b.Kind()])
	}
	return typeStr(t)
}

func (v *Val) String() string { return v.Pretty() }

// Pretty renders a Val for reports.
func (v *Val) Pretty() string {
	if v == nil {
		return "_"
	}
	switch v.Op {
	case "const":
		if v.C == nil {
			return "nil"
		}
		if v.C.Kind() == constant.Int && v.Type != nil {
			if b, ok := v.Type.Underlying().(*types.Basic); ok && (b.Kind() == types.Int32 || b.Kind() == types.UntypedRune) {
				if n, ok := constant.Int64Val(v.C); ok && n >= 0 && n < 128 {
					return fmt.Sprintf("%q", rune(n))
				}
			}
		}
		return v.C.ExactString()
	case "param":
		return v.Name
	case "init":
		return "*" + v.Args[0].Pretty()
	case "field":
		a := v.Args[0]
		if a.Op == "param" || a.Op == "init" || a.Op == "alloc" {
			base := a.Pretty()
			base = strings.TrimPrefix(base, "*")
			return base + "." + v.Name
		}
		return "(" + a.Pretty() + ")." + v.Name
	case "index":
		return v.Args[0].Pretty() + "[" + v.Args[1].Pretty() + "]"
	case "global":
		return v.Name
	case "alloc":
		return fmt.Sprintf("new#%d", v.ID)
	case "wire":
		return fmt.Sprintf("wire#%d", v.ID)
	case "len", "cap":
		return v.Op + "(" + v.Args[0].Pretty() + ")"
	case "conv":
		return typeStr(v.Type) + "(" + v.Args[0].Pretty() + ")"
	case "binop":
		return "(" + v.Args[0].Pretty() + " " + v.Name + " " + v.Args[1].Pretty() + ")"
	case "unop":
		return v.Name + v.Args[0].Pretty()
	case "slice":
		s := v.Args[0].Pretty() + "["
		if v.Args[1] != nil {
			s += v.Args[1].Pretty()
		}
		s += ":"
		if v.Args[2] != nil {
			s += v.Args[2].Pretty()
		}
		return s + "]"
	case "makeslice":
		return fmt.Sprintf("make#%d(%s,%s)", v.ID, v.Args[0].Pretty(), v.Args[1].Pretty())
	case "buflen":
		return fmt.Sprintf("Len@%d", v.ID)
	case "bufbytes":
		return fmt.Sprintf("Bytes@%d", v.ID)
	case "call":
		var as []string
		for _, a := range v.Args {
			as = append(as, a.Pretty())
		}
		return v.Name + "(" + strings.Join(as, ", ") + ")"
	case "nonnil":
		return "err<" + v.Name + ">"
	case "iface":
		return v.Args[0].Pretty()
	case "lookup", "lookupok":
		return v.Op + "(" + v.Args[0].Pretty() + ", " + v.Args[1].Pretty() + ")"
	case "closure", "func":
		return fmt.Sprintf("%v", v.Aux)
	}
	k := v.Key()
	if len(k) > 120 && !prettyFull {
		k = k[:120] + "…"
	}
	return k
}

func mkConst(c constant.Value, t types.Type) *Val { return &Val{Op: "const", C: c, Type: t} }
func mkInt(n int64) *Val                          { return &Val{Op: "const", C: constant.MakeInt64(n), Type: types.Typ[types.Int]} }
func mkNil(t types.Type) *Val                     { return &Val{Op: "const", Type: t} }
func mkBool(b bool) *Val                          { return &Val{Op: "const", C: constant.MakeBool(b), Type: types.Typ[types.Bool]} }

func (v *Val) IsConst() bool { return v != nil && v.Op == "const" }
func (v *Val) IsNilConst() bool {
	return v != nil && v.Op == "const" && v.C == nil
}
func (v *Val) Int64() (int64, bool) {
	if v == nil || v.Op != "const" || v.C == nil {
		return 0, false
	}
	c := constant.ToInt(v.C)
	if c.Kind() != constant.Int {
		return 0, false
	}
	return constant.Int64Val(c)
}
func (v *Val) Bool() (bool, bool) {
	if v == nil || v.Op != "const" || v.C == nil || v.C.Kind() != constant.Bool {
		return false, false
	}
	return constant.BoolVal(v.C), true
}

// Walk visits v and every sub-term.
func (v *Val) Walk(f func(*Val) bool) {
	if v == nil {
		return
	}
	if !f(v) {
		return
	}
	for _, a := range v.Args {
		a.Walk(f)
	}
}

// Contains reports whether any sub-term satisfies pred.
func (v *Val) Contains(pred func(*Val) bool) bool {
	found := false
	v.Walk(func(x *Val) bool {
		if found {
			return false
		}
		if pred(x) {
			found = true
			return false
		}
		return true
	})
	return found
}

// stripConv removes value-preserving wrappers (iface, changetype) – not numeric conversions.
func stripIface(v *Val) *Val {
	for v != nil && (v.Op == "iface" || (v.Op == "conv" && v.Name == "changetype")) {
		v = v.Args[0]
	}
	return v
}

// ---------- small algebra on Vals ----------

var tokName = map[token.Token]string{
	token.ADD: "+", token.SUB: "-", token.MUL: "*", token.QUO: "/", token.REM: "%",
	token.AND: "&", token.OR: "|", token.XOR: "^", token.SHL: "<<", token.SHR: ">>", token.AND_NOT: "&^",
	token.EQL: "==", token.NEQ: "!=", token.LSS: "<", token.LEQ: "<=", token.GTR: ">", token.GEQ: ">=",
	token.NOT: "!", token.ARROW: "<-",
}

func mkBinop(op token.Token, x, y *Val, t types.Type) *Val {
	// constant folding
	if x.IsConst() && y.IsConst() && x.C != nil && y.C != nil {
		switch op {
		case token.EQL, token.NEQ, token.LSS, token.LEQ, token.GTR, token.GEQ:
			if x.C.Kind() == y.C.Kind() || (isNum(x.C) && isNum(y.C)) {
				return mkBool(constant.Compare(x.C, op, y.C))
			}
		case token.ADD, token.SUB, token.MUL:
			if isNum(x.C) && isNum(y.C) {
				return mkConst(wrapInt(constant.BinaryOp(x.C, op, y.C), t), t)
			}
		case token.AND, token.OR, token.XOR, token.AND_NOT:
			if x.C.Kind() == constant.Int && y.C.Kind() == constant.Int && t != nil && isIntegerType(t) {
				return mkConst(wrapInt(constant.BinaryOp(x.C, op, y.C), t), t)
			}
		case token.SHL, token.SHR:
			if x.C.Kind() == constant.Int && y.C.Kind() == constant.Int && t != nil && isIntegerType(t) {
				if n, ok := constant.Uint64Val(y.C); ok && n < 128 {
					return mkConst(wrapInt(constant.Shift(x.C, op, uint(n)), t), t)
				}
			}
		}
	}
	// b == true is b, b == false is !b (a `switch ok { case true: … }`)
	if op == token.EQL || op == token.NEQ {
		for i := 0; i < 2; i++ {
			c, o := []*Val{x, y}[i], []*Val{x, y}[1-i]
			if bv, isB := c.Bool(); isB && c.IsConst() && o.Type != nil && isBoolType(o.Type) && !o.IsConst() {
				if bv == (op == token.EQL) {
					return o
				}
				if nb, ok := o.Bool(); ok {
					return mkBool(!nb)
				}
				return &Val{Op: "unop", Name: "!", Args: []*Val{o}, Type: t}
			}
		}
	}
	// a value of a narrow integer type (possibly widened) against a constant outside that type's range
	switch op {
	case token.LSS, token.LEQ, token.GTR, token.GEQ, token.EQL, token.NEQ:
		if r, ok := rangeCompare(op, x, y); ok {
			return mkBool(r)
		}
	}
	// a short count is strictly less than the length asked for
	if isShortVs(x, y) {
		switch op {
		case token.LSS, token.LEQ:
			return mkBool(true)
		case token.GTR, token.GEQ:
			return mkBool(false)
		}
	}
	if isShortVs(y, x) {
		switch op {
		case token.GTR, token.GEQ:
			return mkBool(true)
		case token.LSS, token.LEQ:
			return mkBool(false)
		}
	}
	// nil comparisons
	if op == token.EQL || op == token.NEQ {
		if r, ok := nilCompare(x, y); ok {
			if op == token.NEQ {
				r = !r
			}
			return mkBool(r)
		}
		if x.Key() == y.Key() && !x.Contains(func(v *Val) bool { return v.Op == "unknown" }) {
			return mkBool(op == token.EQL)
		}
		// the same integer up to value-preserving conversions (n against int(n) for a narrower unsigned n)
		if x.Type != nil && y.Type != nil && isIntegerType(x.Type) && isIntegerType(y.Type) && !x.Contains(func(v *Val) bool { return v.Op == "unknown" }) {
			if a, b := affOf(x), affOf(y); !a.Top && !b.Top && a.Equal(b) {
				return mkBool(op == token.EQL)
			}
		}
		// short count never equals the requested length
		if isShortVs(x, y) || isShortVs(y, x) {
			return mkBool(op == token.NEQ)
		}
	}
	// x - x, x + 0
	if op == token.SUB && x.Key() == y.Key() {
		return mkConst(constant.MakeInt64(0), t)
	}
	if (op == token.ADD || op == token.SUB) && y.IsConst() {
		if n, ok := y.Int64(); ok && n == 0 {
			return x
		}
	}
	return &Val{Op: "binop", Name: tokName[op], Args: []*Val{x, y}, Type: t}
}

// typeRangeOf: v is a value of integer type T, possibly passed through value-preserving widening conversions: the range
// of T bounds it.
func typeRangeOf(v *Val) (lo, hi constant.Value, ok bool) {
	for i := 0; i < 6; i++ {
		if v == nil || v.Type == nil {
			return nil, nil, false
		}
		if v.Op == "conv" && len(v.Args) == 1 && v.Args[0].Type != nil && isIntegerType(v.Type) && isIntegerType(v.Args[0].Type) && wideningInt(v.Args[0].Type, v.Type) {
			v = v.Args[0]
			continue
		}
		break
	}
	if v.Op == "buflen" || v.Op == "len" || v.Op == "cap" {
		return constant.MakeInt64(0), constant.MakeInt64(1<<62), true // a length is never negative
	}
	// binary.Size of a value whose type parameter admits only fixed-size number types: 1, 2, 4 or 8
	if v.Op == "call" && v.Name == "encoding/binary.Size" && len(v.Args) == 1 {
		if a := stripIface(v.Args[0]); a != nil && a.Type != nil && numberTypeSet(a.Type) {
			return constant.MakeInt64(1), constant.MakeInt64(8), true
		}
	}
	if v.Op == "const" || v.Type == nil {
		return nil, nil, false
	}
	b, isB := v.Type.Underlying().(*types.Basic)
	if !isB || b.Info()&types.IsInteger == 0 {
		return nil, nil, false
	}
	bits, unsigned := intBits(b)
	if bits == 0 || bits >= 64 {
		return nil, nil, false
	}
	one := constant.MakeInt64(1)
	if unsigned {
		return constant.MakeInt64(0), constant.BinaryOp(constant.Shift(one, token.SHL, uint(bits)), token.SUB, one), true
	}
	h := constant.Shift(one, token.SHL, uint(bits-1))
	return constant.UnaryOp(token.SUB, h, 0), constant.BinaryOp(h, token.SUB, one), true
}

// rangeCompare decides x op y when one side is an integer constant that lies outside the range of the other side's type.
func rangeCompare(op token.Token, x, y *Val) (bool, bool) {
	flip := map[token.Token]token.Token{token.LSS: token.GTR, token.GTR: token.LSS, token.LEQ: token.GEQ, token.GEQ: token.LEQ, token.EQL: token.EQL, token.NEQ: token.NEQ}
	if x.IsConst() && !y.IsConst() {
		x, y, op = y, x, flip[op]
	}
	if !y.IsConst() || y.C == nil || y.C.Kind() != constant.Int || x.IsConst() {
		return false, false
	}
	lo, hi, ok := typeRangeOf(x)
	if !ok {
		return false, false
	}
	c := y.C
	below := constant.Compare(c, token.LSS, lo) // c < every x
	above := constant.Compare(c, token.GTR, hi) // c > every x
	switch op {
	case token.GTR: // x > c
		if above || constant.Compare(c, token.EQL, hi) {
			return false, true
		}
		if below {
			return true, true
		}
	case token.GEQ: // x >= c
		if above {
			return false, true
		}
		if below || constant.Compare(c, token.EQL, lo) {
			return true, true
		}
	case token.LSS: // x < c
		if below || constant.Compare(c, token.EQL, lo) {
			return false, true
		}
		if above {
			return true, true
		}
	case token.LEQ: // x <= c
		if below {
			return false, true
		}
		if above || constant.Compare(c, token.EQL, hi) {
			return true, true
		}
	case token.EQL:
		if below || above {
			return false, true
		}
	case token.NEQ:
		if below || above {
			return true, true
		}
	}
	return false, false
}

func isNum(c constant.Value) bool {
	return c.Kind() == constant.Int || c.Kind() == constant.Float
}

// isShortVs: a = short(e) and b is the full length requested by that read.
func isShortVs(a, b *Val) bool {
	if a.Op != "short" {
		return false
	}
	if len(a.Args) == 1 && a.Args[0].Key() == b.Key() {
		return true
	}
	return false
}

// nilness of a Val: +1 known non-nil, -1 known nil, 0 unknown
func nilness(v *Val) int {
	if v == nil {
		return 0
	}
	switch v.Op {
	case "const":
		if v.C == nil {
			return -1
		}
		return 0
	case "nonnil", "alloc", "makeslice", "closure", "func", "global", "field", "index", "arrayptr":
		return +1
	case "iface":
		return +1 // an interface holding a typed value is a non-nil interface
	case "call":
		if v.Name == "fmt.Errorf" || v.Name == "errors.New" {
			return +1
		}
	case "conv":
		// a conversion between a type and a defined type of the same kind (func(*T) to an Option type, a pointer, map,
		// channel or slice to its named twin) keeps nil nil and non-nil non-nil
		if len(v.Args) == 1 && v.Type != nil && v.Args[0] != nil && v.Args[0].Type != nil {
			sameKind := false
			switch v.Type.Underlying().(type) {
			case *types.Signature:
				_, sameKind = v.Args[0].Type.Underlying().(*types.Signature)
			case *types.Pointer:
				_, sameKind = v.Args[0].Type.Underlying().(*types.Pointer)
			case *types.Map:
				_, sameKind = v.Args[0].Type.Underlying().(*types.Map)
			case *types.Chan:
				_, sameKind = v.Args[0].Type.Underlying().(*types.Chan)
			case *types.Slice:
				_, sameKind = v.Args[0].Type.Underlying().(*types.Slice)
			}
			if sameKind {
				return nilness(v.Args[0])
			}
		}
	case "choice":
		n := nilness(v.Args[0])
		for _, a := range v.Args[1:] {
			if nilness(a) != n {
				return 0
			}
		}
		return n
	}
	return 0
}

func nilCompare(x, y *Val) (equal bool, known bool) {
	if y.IsNilConst() {
		switch nilness(x) {
		case +1:
			return false, true
		case -1:
			return true, true
		}
	}
	if x.IsNilConst() {
		switch nilness(y) {
		case +1:
			return false, true
		case -1:
			return true, true
		}
	}
	return false, false
}

func mkLen(x *Val) *Val {
	switch x.Op {
	case "unknown":
		// what a short Next handed back: its length is that read's short count
		if x.Name == "partial-read" && len(x.Args) == 1 && x.Args[0].Op == "short" {
			return x.Args[0]
		}
	case "makeslice":
		return x.Args[0]
	case "const":
		if x.C != nil && x.C.Kind() == constant.String {
			return mkInt(int64(len(constant.StringVal(x.C))))
		}
		if x.C == nil {
			return mkInt(0)
		}
	case "conv":
		// string <-> []byte conversions preserve byte length
		if isStringOrBytes(x.Type) && x.Args[0].Type != nil && isStringOrBytes(x.Args[0].Type) {
			return mkLen(x.Args[0])
		}
		// a change of type (named slice type, a generic body's []K for its wrapper's []K) leaves the value as it is
		if x.Name == "changetype" && len(x.Args) == 1 {
			return mkLen(x.Args[0])
		}
		if _, isTP := x.Args[0].Type.(*types.TypeParam); isTP && isStringOrBytes(x.Type) {
			return mkLen(x.Args[0]) // []byte(v) of a type-parameter value that can only be text
		}
	case "slice":
		lo, hi := x.Args[1], x.Args[2]
		if hi == nil {
			hi = mkLen(x.Args[0])
		}
		if lo == nil {
			return hi
		}
		return mkBinop(token.SUB, hi, lo, types.Typ[types.Int])
	case "call":
		if x.Name == "bytes.Repeat" && len(x.Args) == 2 {
			if n, ok := mkLen(x.Args[0]).Int64(); ok && n == 1 {
				return x.Args[1]
			}
			return mkBinop(token.MUL, mkLen(x.Args[0]), x.Args[1], types.Typ[types.Int])
		}
	case "arraylit":
		return mkInt(int64(len(x.Args)))
	case "availbuf":
		return mkInt(0)
	case "bufnext":
		if len(x.Args) >= 2 {
			return x.Args[1]
		}
	case "alloc":
		// pointer to a fixed-size array (the base of arr[:])
		if p, ok := x.Type.(*types.Pointer); ok {
			if arr, ok := p.Elem().Underlying().(*types.Array); ok {
				return mkInt(arr.Len())
			}
		}
	case "wire":
		if len(x.Args) == 1 && x.Args[0] != nil { // bytes delivered by a successful read: exactly the requested length
			return x.Args[0]
		}
	case "collect":
		return x.Args[2]
	}
	return &Val{Op: "len", Args: []*Val{x}, Type: types.Typ[types.Int]}
}

func isStringOrBytes(t types.Type) bool {
	switch u := t.Underlying().(type) {
	case *types.Basic:
		return u.Info()&types.IsString != 0
	case *types.Slice:
		if b, ok := u.Elem().Underlying().(*types.Basic); ok {
			return b.Kind() == types.Uint8
		}
	}
	return false
}

// ---------- affine expressions over Val symbols ----------

// Affine is c + Σ coef·sym, where each symbol is the key of a Val.
type Affine struct {
	C    int64
	Term map[string]int64
	Sym  map[string]*Val
	Top  bool // not expressible
}

func affConst(c int64) *Affine { return &Affine{C: c, Term: map[string]int64{}, Sym: map[string]*Val{}} }
func affTop() *Affine          { return &Affine{Top: true} }

func (a *Affine) Add(b *Affine, sign int64) *Affine {
	if a.Top || b.Top {
		return affTop()
	}
	r := affConst(a.C + sign*b.C)
	for k, v := range a.Term {
		r.Term[k] = v
		r.Sym[k] = a.Sym[k]
	}
	for k, v := range b.Term {
		r.Term[k] += sign * v
		r.Sym[k] = b.Sym[k]
		if r.Term[k] == 0 {
			delete(r.Term, k)
			delete(r.Sym, k)
		}
	}
	return r
}

func (a *Affine) Scale(n int64) *Affine {
	if a.Top {
		return a
	}
	r := affConst(a.C * n)
	if n == 0 {
		return r
	}
	for k, v := range a.Term {
		r.Term[k] = v * n
		r.Sym[k] = a.Sym[k]
	}
	return r
}

func (a *Affine) IsConst() (int64, bool) {
	if a.Top || len(a.Term) > 0 {
		return 0, false
	}
	return a.C, true
}

func (a *Affine) Equal(b *Affine) bool {
	if a.Top || b.Top {
		return false
	}
	d := a.Add(b, -1)
	c, ok := d.IsConst()
	return ok && c == 0
}

func (a *Affine) String() string {
	if a.Top {
		return "⊤"
	}
	var parts []string
	keys := make([]string, 0, len(a.Term))
	for k := range a.Term {
		keys = append(keys, k)
	}
	sortStrings(keys)
	for _, k := range keys {
		c := a.Term[k]
		s := a.Sym[k].Pretty()
		switch c {
		case 1:
			parts = append(parts, s)
		case -1:
			parts = append(parts, "-"+s)
		default:
			parts = append(parts, fmt.Sprintf("%d*%s", c, s))
		}
	}
	if a.C != 0 || len(parts) == 0 {
		parts = append(parts, fmt.Sprintf("%d", a.C))
	}
	return strings.Join(parts, " + ")
}

// affOf converts an integer-valued Val into an affine expression (symbols for
// anything that is not +,-,const·). Integer conversions that cannot change the
// value on the analysed domain (int <-> same value) are looked through only
// when widening; narrowing conversions become symbols.
func affOf(v *Val) *Affine {
	if v == nil {
		return affTop()
	}
	if n, ok := v.Int64(); ok {
		return affConst(n)
	}
	switch v.Op {
	case "binop":
		switch v.Name {
		case "+":
			return affOf(v.Args[0]).Add(affOf(v.Args[1]), 1)
		case "-":
			return affOf(v.Args[0]).Add(affOf(v.Args[1]), -1)
		case "*":
			if n, ok := v.Args[0].Int64(); ok {
				return affOf(v.Args[1]).Scale(n)
			}
			if n, ok := v.Args[1].Int64(); ok {
				return affOf(v.Args[0]).Scale(n)
			}
		}
	case "conv":
		if wideningInt(v.Args[0].Type, v.Type) {
			return affOf(v.Args[0])
		}
		// a length (never negative) converted to an unsigned type of at least int's width keeps its value: uint64(buf.Len())
		if in := v.Args[0]; in != nil && (in.Op == "buflen" || in.Op == "len" || in.Op == "cap") && v.Type != nil {
			if b, ok := v.Type.Underlying().(*types.Basic); ok && b.Info()&types.IsUnsigned != 0 {
				if bits, _ := intBits(b); bits == 64 || bits == 0 {
					return affOf(in)
				}
			}
		}
	}
	a := affConst(0)
	a.Term[v.Key()] = 1
	a.Sym[v.Key()] = v
	return a
}

// wideningInt: conversion from integer type `from` to integer type `to` that
// preserves every value of `from` (64-bit int assumed).
func wideningInt(from, to types.Type) bool {
	if from == nil || to == nil {
		return false
	}
	if types.Identical(from, to) {
		return true // T(x) for x already of type T (as left behind by substituting a generic helper's type parameter)
	}
	if _, isTP := from.(*types.TypeParam); isTP {
		// generic body: int(T) for an unsigned type parameter narrower than int keeps the value; every concrete
		// instantiation is analysed separately with its real width
		if tb, ok := to.Underlying().(*types.Basic); ok {
			bits, _ := intBits(tb)
			return bits == 64
		}
		return false
	}
	fb, ok1 := from.Underlying().(*types.Basic)
	tb, ok2 := to.Underlying().(*types.Basic)
	if !ok1 || !ok2 || fb.Info()&types.IsInteger == 0 || tb.Info()&types.IsInteger == 0 {
		return false
	}
	fs, fu := intBits(fb)
	ts, tu := intBits(tb)
	if fs == 0 || ts == 0 {
		return false
	}
	if fu == tu {
		return ts >= fs
	}
	if fu && !tu {
		return ts > fs
	}
	return false
}

func intBits(b *types.Basic) (bits int, unsigned bool) {
	switch b.Kind() {
	case types.Int8:
		return 8, false
	case types.Int16:
		return 16, false
	case types.Int32:
		return 32, false
	case types.Int64, types.Int:
		return 64, false
	case types.Uint8:
		return 8, true
	case types.Uint16:
		return 16, true
	case types.Uint32:
		return 32, true
	case types.Uint64, types.Uint, types.Uintptr:
		return 64, true
	case types.UntypedInt, types.UntypedRune:
		return 64, false
	}
	return 0, false
}

func sortStrings(s []string) {
	for i := 1; i < len(s); i++ {
		for j := i; j > 0 && s[j] < s[j-1]; j-- {
			s[j], s[j-1] = s[j-1], s[j]
		}
	}
}

func typeUnder(t types.Type) types.Type {
	if t == nil {
		return nil
	}
	return t.Underlying()
}

var prettyFull = os.Getenv("FPCHECK_FULL") != ""
