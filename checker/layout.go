package main

import (
	"reflect"
	"go/constant"
	"golang.org/x/tools/go/ssa"
	"os"
	"sync"
	"fmt"
	"go/token"
	"go/types"
	"strings"
)

// FieldLayout is the canonical description of one wire field, extracted from
// the flattened effect sequence of an Encode or Decode path.
type FieldLayout struct {
	Name    string `json:"name"`              // wire name (json tag) or Go field name; "" inside list elements
	Kind    string `json:"kind"`              // int | fixed | ptext | list | obj | dyn | len | checksum | const | irregular
	Type    string `json:"type,omitempty"`    // number type
	Order   string `json:"order,omitempty"`   // BE | LE | "" (single byte)
	Width   int64  `json:"width,omitempty"`   // fixed text width
	WidthSym string `json:"width_sym,omitempty"` // symbolic width (primitive analysed with symbolic parameters)
	Pad     string `json:"pad,omitempty"`     // pad byte (decimal) or ""
	Side    string `json:"side,omitempty"`    // left | right
	Prefix  string `json:"prefix,omitempty"`  // prefix number type (ptext, list)
	POrder  string `json:"porder,omitempty"`  // prefix byte order
	Elem    *FieldLayout `json:"elem,omitempty"`
	Obj     string `json:"obj,omitempty"`     // static type of a nested object
	Table   string `json:"table,omitempty"`   // discriminator table of a dynamic part
	Key     string `json:"key,omitempty"`     // wire name of the key field
	Algo    string `json:"algo,omitempty"`    // checksum algorithm
	Note    string `json:"note,omitempty"`    // irregularity description

	GoField int        `json:"-"` // struct field index (-1 unknown)
	Pos     token.Pos  `json:"-"`
	Ev      []*Event   `json:"-"`
	Patched  bool      `json:"-"` // written as a zero placeholder and filled in place afterwards with the field's value
	ZeroList bool      `json:"-"` // list on a path where its count is zero: no element layout of its own
	ValueOps []string  `json:"-"` // transformations on the value path that are not on the lossless allow-list
	WireIDs []int      `json:"-"` // decode: ids of the read events feeding this field
	KeyVal  *Val       `json:"-"`
	RecvVal *Val       `json:"-"`
}

func (f *FieldLayout) Canon() string {
	if f == nil {
		return "-"
	}
	var b strings.Builder
	b.WriteString(f.Name + ":" + f.Kind)
	switch f.Kind {
	case "int", "len", "checksum", "const":
		fmt.Fprintf(&b, "(%s,%s)", f.Type, f.Order)
		if f.Algo != "" {
			b.WriteString("[" + f.Algo + "]")
		}
	case "fixed":
		if f.WidthSym != "" {
			fmt.Fprintf(&b, "(%s,pad=%s,%s)", f.WidthSym, f.Pad, f.Side)
		} else {
			fmt.Fprintf(&b, "(%d,pad=%s,%s)", f.Width, f.Pad, f.Side)
		}
	case "ptext":
		fmt.Fprintf(&b, "(%s,%s)", f.Prefix, f.POrder)
	case "list":
		if f.Elem == nil {
			fmt.Fprintf(&b, "(%s,%s)[no elements on this path]", f.Prefix, f.POrder)
		} else {
			fmt.Fprintf(&b, "(%s,%s)[%s]", f.Prefix, f.POrder, f.Elem.Canon())
		}
	case "obj":
		b.WriteString("(" + f.Obj + ")")
	case "dyn":
		fmt.Fprintf(&b, "(%s by %s)", f.Table, f.Key)
	default:
		b.WriteString("{" + f.Note + "}")
	}
	return b.String()
}

// WireCanon is Canon with self-computed kinds reduced to what is on the wire.
func (f *FieldLayout) WireCanon() string {
	if f == nil {
		return "-"
	}
	g := *f
	if g.Kind == "len" || g.Kind == "checksum" {
		g.Kind = "int"
		g.Algo = ""
	}
	return g.Canon()
}

type Layout struct {
	Fields []*FieldLayout
}

func (l *Layout) Canon() string {
	var s []string
	for _, f := range l.Fields {
		s = append(s, f.Canon())
	}
	return strings.Join(s, " · ")
}

func (l *Layout) WireCanon() string {
	var s []string
	for _, f := range l.Fields {
		s = append(s, f.WireCanon())
	}
	return strings.Join(s, " · ")
}

func isWireEvent(e *Event) bool {
	switch e.Kind {
	case EvWriteInt, EvWriteBytes, EvReadInt, EvReadBytes, EvObj, EvRep, EvAlt, EvBufOther:
		return true
	}
	return false
}

// countsAsWire: the event occupies a position in the wire sequence.
func countsAsWire(e *Event) bool {
	if !isWireEvent(e) {
		return false
	}
	if e.Kind == EvBufOther && observerMethods[e.Mode] {
		return false
	}
	if (e.Kind == EvAlt || e.Kind == EvRep) && !altHasWire(e) {
		return false // effect-free alternatives / loops (pure computation such as scanning read bytes)
	}
	return true
}

func wireOnly(evs []*Event) []*Event {
	var out []*Event
	for _, e := range evs {
		if countsAsWire(e) {
			if r := repeatedByte(e); r != nil {
				e = r
			}
			out = append(out, e)
		}
	}
	return out
}

var repeatedByteMemo sync.Map // *Event -> *Event (nil when the loop is not a byte repetition)

// repeatedByte: a counted loop that is never left early and whose every iteration writes one and the same
// loop-invariant single byte is the same wire content as one write of bytes.Repeat([]byte{b}, count).
func repeatedByte(e *Event) *Event {
	if e.Kind != EvRep || e.Partial || e.Count == nil || len(e.Iter) == 0 {
		return nil
	}
	if r, ok := repeatedByteMemo.Load(e); ok {
		return r.(*Event)
	}
	var src *Val
	var w0 *Event
	for _, arm := range e.Iter {
		var ws []*Event
		for _, x := range arm.Events {
			if countsAsWire(x) {
				ws = append(ws, x)
			}
		}
		if len(ws) != 1 || ws[0].Kind != EvWriteInt {
			repeatedByteMemo.Store(e, (*Event)(nil))
			return nil
		}
		w := ws[0]
		if sz, ok := fixedSize(w.IntType); !ok || sz != 1 {
			repeatedByteMemo.Store(e, (*Event)(nil))
			return nil
		}
		if w.Src.Contains(func(x *Val) bool { return x.Op == "loopvar" || x.Op == "wire" || x.Op == "elem" }) {
			repeatedByteMemo.Store(e, (*Event)(nil))
			return nil
		}
		if src != nil && src.Key() != w.Src.Key() {
			repeatedByteMemo.Store(e, (*Event)(nil))
			return nil
		}
		src, w0 = w.Src, w
	}
	r := &Event{ID: e.ID, Kind: EvWriteBytes, Pos: e.Pos, Fn: e.Fn, Site: e.Site, Instr: e.Instr, NCond: e.NCond, Buf: w0.Buf, Size: e.Count,
		Src: &Val{Op: "call", Name: "bytes.Repeat", Args: []*Val{{Op: "arraylit", Args: []*Val{src}}, e.Count}}}
	repeatedByteMemo.Store(e, r)
	return r
}

func altHasWire(e *Event) bool {
	for _, a := range e.Iter {
		if len(wireOnly(a.Events)) > 0 {
			return true
		}
	}
	return false
}

// buffer methods that neither consume nor modify
// (Grow changes capacity only; its argument is judged as an allocation sink by C10 and as a panic site by C09)
var observerMethods = map[string]bool{"String": true, "Cap": true, "Available": true, "AvailableBuffer": true, "Grow": true}

// rootPos: the position of the outermost call site in the analysed root function.
func rootPos(e *Event) token.Pos {
	s := e.Site
	if s == nil {
		return e.Pos
	}
	for s.Parent != nil {
		s = s.Parent
	}
	if p := s.Instr.Pos(); p.IsValid() {
		return p
	}
	return e.Pos
}

// stripCT removes changetype wrappers.
func stripCT(v *Val) *Val {
	for v != nil && v.Op == "conv" && v.Name == "changetype" {
		v = v.Args[0]
	}
	return v
}

// recvField: v is the initial content of field idx of the root receiver (param#0).
func recvField(v *Val) (int, bool) {
	v = stripCT(v)
	if v == nil || v.Op != "init" {
		return 0, false
	}
	a := v.Args[0]
	if a.Op == "field" && a.Args[0].Op == "param" && a.Args[0].ID == 0 {
		return a.ID, true
	}
	return 0, false
}

// recvFieldAddr: a is the address of field idx of the root receiver.
func recvFieldAddr(a *Val) (int, bool) {
	if a != nil && a.Op == "field" && a.Args[0].Op == "param" && a.Args[0].ID == 0 {
		return a.ID, true
	}
	return 0, false
}

// nestedFieldAddr: a is the address of field inner of the nested part held in field outer of the root receiver
// (p.Sub.f with Sub a struct value, or p.Sub.f through the pointer p.Sub held before the call).
func nestedFieldAddr(a *Val) (outer, inner int, ok bool) {
	if a == nil || a.Op != "field" || len(a.Args) == 0 {
		return 0, 0, false
	}
	base := a.Args[0]
	if base.Op == "init" && len(base.Args) == 1 {
		base = base.Args[0] // the pointer the field held on entry
	}
	if o, ok := recvFieldAddr(base); ok {
		return o, a.ID, true
	}
	return 0, 0, false
}

// nestedField: v is the value of p.Sub.f on entry.
func nestedField(v *Val) (outer, inner int, ok bool) {
	v = stripCT(v)
	if v == nil || v.Op != "init" || len(v.Args) != 1 {
		return 0, 0, false
	}
	return nestedFieldAddr(v.Args[0])
}

// collapseNested replaces a run of fields that were read into (written from) the fields of the nested part held in
// receiver field X – its fields handled inline instead of through the part's own Decode (Encode) – by the single atom
// obj(T), provided the run is, field for field, the layout the part's own method has. nestedOf(f) gives (X, inner
// field index) for such a field; layoutOf(X) the nested type's name and its own layout.
func collapseNested(fs []*FieldLayout, nestedOf func(f *FieldLayout) (int, int, bool), layoutOf func(outer int) (string, string, []*FieldLayout)) []*FieldLayout {
	var out []*FieldLayout
	for i := 0; i < len(fs); {
		o, _, ok := nestedOf(fs[i])
		if !ok {
			out = append(out, fs[i])
			i++
			continue
		}
		j := i
		for j < len(fs) {
			if o2, _, ok2 := nestedOf(fs[j]); !ok2 || o2 != o {
				break
			}
			j++
		}
		tname, fname, own := layoutOf(o)
		match := own != nil && len(own) == j-i
		if match {
			for k := range own {
				_, inner, _ := nestedOf(fs[i+k])
				g := *fs[i+k]
				g.Name = own[k].Name
				if g.WireCanon() != own[k].WireCanon() || inner != own[k].GoField || len(allValueOps(fs[i+k])) > 0 {
					match = false
				}
			}
		}
		if match {
			out = append(out, &FieldLayout{Kind: "obj", Name: fname, Obj: tname, GoField: o, Pos: fs[i].Pos, Ev: fs[i].Ev})
		} else {
			out = append(out, fs[i:j]...)
		}
		i = j
	}
	return out
}

// elemOf: v is an element *S[i] of slice S; returns S.
func elemOf(v *Val) *Val {
	v = stripCT(v)
	if v != nil && v.Op == "init" && v.Args[0].Op == "index" {
		return sameSlice(v.Args[0].Args[0])
	}
	if v != nil && v.Op == "elem" {
		return sameSlice(v.Args[0])
	}
	return nil
}

// sameSlice strips conversions between slice types (a []string handed to a generic helper as its []E): the slice is
// the same slice.
func sameSlice(v *Val) *Val {
	for v != nil && v.Op == "conv" && len(v.Args) == 1 && v.Type != nil && v.Args[0].Type != nil {
		_, s1 := v.Type.Underlying().(*types.Slice)
		_, s2 := v.Args[0].Type.Underlying().(*types.Slice)
		if !s1 || !s2 {
			break
		}
		v = v.Args[0]
	}
	return v
}

// textOf strips string<->[]byte conversions.
func textOf(v *Val) *Val {
	// (a value of a type parameter converted to []byte or string can only be text: generic helpers instantiated at string)
	for v != nil && v.Op == "conv" && v.Type != nil && isStringOrBytes(v.Type) && v.Args[0].Type != nil && (isStringOrBytes(v.Args[0].Type) || isTypeParam(v.Args[0].Type)) {
		v = v.Args[0]
	}
	return stripCT(v)
}

// lenArg: v = T(len(X)) or len(X); returns X.
func lenArg(v *Val) *Val {
	v = stripCT(v)
	for v != nil && v.Op == "conv" && (isIntegerType(v.Type) || isTypeParam(v.Type)) {
		v = stripCT(v.Args[0])
	}
	if v != nil && v.Op == "len" {
		return v.Args[0]
	}
	return nil
}

func isTypeParam(t types.Type) bool {
	_, ok := t.(*types.TypeParam)
	return ok
}

func affEq(a, b *Val) bool { return affOf(a).Equal(affOf(b)) }

type layoutCtx struct {
	loopIdx map[int]*Event
	u    *Universe
	ct   *CodecType // nil when analysing a primitive standalone
	path *Path
	// subject naming
	elemOf *Val // when inside a REP body: the list whose elements are subjects
	tiles  func(ev *Event, n int64) []*FieldLayout // decode: fields assembled from sub-slices of one constant-size read
	zeroList func(ev *Event) (name string, idx int, ok bool) // decode: the list field set to a fresh empty list on a path where the count read by ev is zero
	nested map[string][2]int // provisional names "X.#i" of fields of a nested part handled inline -> (X, i)
}

func (c *layoutCtx) fieldName(idx int) string {
	if c.ct != nil && idx >= 0 && idx < len(c.ct.WireName) {
		return c.ct.WireName[idx]
	}
	return fmt.Sprintf("#%d", idx)
}

// promotedName: field `in` of the embedded struct in receiver field o is the message's own field – promoted, with its
// own wire name.
func (c *layoutCtx) promotedName(o, in int) (string, bool) {
	if c.ct == nil || c.ct.Struct == nil || o < 0 || o >= c.ct.Struct.NumFields() || !c.ct.Struct.Field(o).Embedded() {
		return "", false
	}
	est, isS := c.ct.Struct.Field(o).Type().Underlying().(*types.Struct)
	if !isS || in < 0 || in >= est.NumFields() {
		return "", false
	}
	tag := reflect.StructTag(est.Tag(in)).Get("json")
	if j := strings.Index(tag, ","); j >= 0 {
		tag = tag[:j]
	}
	if tag == "" || tag == "-" {
		tag = est.Field(in).Name()
	}
	return tag, true
}

// subject: describes where an encoded value comes from: a receiver field, an
// element of the current list, or a root parameter (primitive analysis).
func (c *layoutCtx) subject(v *Val) (name string, idx int, ok bool) {
	v = stripCT(v)
	if i, ok := recvField(v); ok && c.elemOf == nil {
		return c.fieldName(i), i, true
	}
	if c.elemOf != nil {
		if s := elemOf(v); s != nil && s.Key() == c.elemOf.Key() {
			return "", -1, true
		}
	}
	if c.ct == nil && v != nil && v.Op == "param" {
		return v.Name, v.ID, true
	}
	if o, in, ok := nestedField(v); ok && c.elemOf == nil && c.ct != nil {
		// a field of a nested part written inline: named X.#i until the run is recognised as the part's own layout
		if c.nested == nil {
			c.nested = map[string][2]int{}
		}
		if tag, okE := c.promotedName(o, in); okE {
			return tag, o, true
		}
		name := fmt.Sprintf("%s.#%d", c.fieldName(o), in)
		c.nested[name] = [2]int{o, in}
		return name, o, true
	}
	return "", -1, false
}

func intLayout(ev *Event) *FieldLayout {
	return &FieldLayout{Kind: "int", Type: wireTypeStr(ev.IntType), Order: ev.Order, GoField: -1, Pos: rootPos(ev), Ev: []*Event{ev}}
}

func irregular(ev *Event, note string) *FieldLayout {
	return &FieldLayout{Kind: "irregular", Note: note, GoField: -1, Pos: rootPos(ev), Ev: []*Event{ev}}
}

// ---------------------------------------------------------------------------
// encode side

func (c *layoutCtx) extractEnc(evs []*Event) []*FieldLayout {
	w := hoistCommonAlts(wireOnly(evs))
	var out []*FieldLayout
	for i := 0; i < len(w); i++ {
		ev := w[i]
		switch ev.Kind {
		case EvWriteInt:
			if lx := lenArg(ev.Src); lx != nil {
				f := &FieldLayout{Prefix: wireTypeStr(ev.IntType), POrder: ev.Order, GoField: -1, Pos: rootPos(ev), Ev: []*Event{ev}}
				name, idx, ok := c.subject(textOf(lx))
				f.Name, f.GoField = name, idx
				if !ok {
					f.Kind, f.Note = "irregular", "length prefix of "+lx.Pretty()+" (not a field)"
					out = append(out, f)
					continue
				}
				if i+1 < len(w) {
					nx := w[i+1]
					if nx.Kind == EvWriteBytes && textOf(nx.Src) != nil && textOf(nx.Src).Key() == textOf(lx).Key() {
						f.Kind = "ptext"
						f.Ev = append(f.Ev, nx)
						out = append(out, f)
						i++
						continue
					}
					if nx.Kind == EvRep && affEq(nx.Count, mkLen(lx)) && !nx.Partial {
						f.Kind = "list"
						f.Ev = append(f.Ev, nx)
						f.Elem = c.elemLayoutEnc(nx, lx)
						out = append(out, f)
						i++
						continue
					}
					// alternative spellings of the same list body (e.g. a bulk write for long lists, a loop for short ones)
					if nx.Kind == EvAlt {
						var elem *FieldLayout
						okAlt := len(nx.Iter) > 0
						for _, arm := range nx.Iter {
							aw := wireOnly(arm.Events)
							if len(aw) != 1 || aw[0].Kind != EvRep || !affEq(aw[0].Count, mkLen(lx)) || aw[0].Partial {
								okAlt = false
								break
							}
							el := c.elemLayoutEnc(aw[0], lx)
							if elem == nil {
								elem = el
							} else if elem.Canon() != el.Canon() {
								elem = &FieldLayout{Kind: "irregular", Note: "alternative encodings of the list render its elements differently: " + elem.Canon() + " / " + el.Canon(), Pos: rootPos(nx)}
								break
							}
						}
						if okAlt {
							f.Kind = "list"
							f.Ev = append(f.Ev, nx)
							f.Elem = elem
							out = append(out, f)
							i++
							continue
						}
					}
				}
				f.Kind, f.Note = "irregular", "length prefix of "+name+" not followed by exactly its data"
				out = append(out, f)
				continue
			}
			// a same-width integer conversion (int32 <-> uint32 …) does not change the bytes written: the atom is the
			// source value's number type
			var sameWidth *Val
			if cv := stripCT(ev.Src); cv.Op == "conv" && len(cv.Args) == 1 && isIntegerType(cv.Type) {
				in := stripCT(cv.Args[0])
				if in.Type != nil && isIntegerType(in.Type) {
					s1, ok1 := fixedSize(cv.Type)
					s2, ok2 := fixedSize(in.Type)
					s3, ok3 := fixedSize(ev.IntType)
					if ok1 && ok2 && ok3 && s1 == s2 && s1 == s3 {
						sameWidth = in
					}
				}
			}
			f := intLayout(ev)
			src := stripCT(ev.Src)
			if sameWidth != nil {
				src, f.Type = sameWidth, typeStr(sameWidth.Type)
			}
			if name, idx, ok := c.subject(src); ok {
				f.Name, f.GoField = name, idx
			} else if src.IsConst() {
				f.Kind = "const"
				f.Note = src.Pretty()
			} else if src.Op == "calc" {
				f.Kind = "checksum"
			} else {
				// a converted field value?
				inner := src
				var ops []string
				for inner.Op == "conv" {
					ops = append(ops, "convert to "+typeStr(inner.Type))
					inner = stripCT(inner.Args[0])
				}
				if name, idx, ok := c.subject(inner); ok {
					f.Name, f.GoField = name, idx
					f.ValueOps = ops
				} else {
					f.Kind, f.Note = "irregular", "number written from "+src.Pretty()
				}
			}
			out = append(out, f)
		case EvWriteBytes, EvAlt:
			if ev.Kind == EvAlt && !altOnlyBytes(ev) {
				// alternative spellings of the same fields inside a callee: every arm must render the same layout
				var first []*FieldLayout
				canon := ""
				bad := ""
				for _, arm := range ev.Iter {
					if c.ct == nil && outsideDomainConds(arm.Conds) {
						continue // a primitive analysed with symbolic parameters: this alternative needs a negative width
					}
					fs := c.extractEnc(arm.Events)
					cs := (&Layout{Fields: fs}).Canon()
					if first == nil {
						first, canon = fs, cs
					} else if cs != canon {
						bad = canon + "   /   " + cs
					}
				}
				if bad != "" {
					out = append(out, irregular(ev, "alternative paths of one callee render different layouts: "+bad))
				} else {
					out = append(out, first...)
				}
				continue
			}
			j := i
			for j+1 < len(w) && (w[j+1].Kind == EvWriteBytes || (w[j+1].Kind == EvAlt && altOnlyBytes(w[j+1]))) && ev.Kind == EvWriteBytes && sameTextSubject(c, ev, w[j+1]) {
				j++
			}
			out = append(out, c.fixedEnc(w[i:j+1]))
			i = j
		case EvObj:
			out = append(out, c.objLayout(ev, true))
		case EvRep:
			out = append(out, irregular(ev, "loop writing without a count prefix"))
		case EvBufOther:
			out = append(out, irregular(ev, "unclassified buffer use: "+ev.Mode))
		default:
			out = append(out, irregular(ev, "unexpected "+ev.Kind.String()+" while encoding"))
		}
	}
	return out
}

func altOnlyBytes(e *Event) bool {
	ok := true
	for _, a := range e.Iter {
		for _, x := range wireOnly(a.Events) {
			if x.Kind != EvWriteBytes && !(x.Kind == EvAlt && altOnlyBytes(x)) {
				ok = false
			}
		}
	}
	return ok
}

func sameTextSubject(c *layoutCtx, a, b *Event) bool {
	sa, sb := byteSubject(a.Src), byteSubject(b.Src)
	if b.Kind != EvWriteBytes {
		return false
	}
	return sa == nil || sb == nil || sa.Key() == sb.Key()
}

// byteSubject: the text value a WRITE_BYTES source derives from (nil for pad bytes).
func byteSubject(src *Val) *Val {
	src = stripCT(src)
	if src == nil {
		return nil
	}
	if src.Op == "call" && (src.Name == "bytes.Repeat" || src.Name == "strings.Repeat") {
		return nil
	}
	if src.Op == "slice" {
		return textOf(src.Args[0])
	}
	return textOf(src)
}

func (c *layoutCtx) elemLayoutEnc(rep *Event, list *Val) *FieldLayout {
	sub := *c
	sub.elemOf = sameSlice(stripCT(list))
	var canon string
	var first *FieldLayout
	if len(rep.Iter) == 0 {
		return &FieldLayout{Kind: "irregular", Note: "loop without an iteration path"}
	}
	for _, arm := range rep.Iter {
		fs := sub.extractEnc(arm.Events)
		if len(fs) != 1 {
			var s []string
			for _, f := range fs {
				s = append(s, f.Canon())
			}
			return &FieldLayout{Kind: "irregular", Note: fmt.Sprintf("list element is not a single field: [%s]", strings.Join(s, " · ")), Pos: rootPos(rep)}
		}
		if first == nil {
			first, canon = fs[0], fs[0].Canon()
		} else if fs[0].Canon() != canon {
			// the iteration paths may be the alternative spellings of one field (cut / pad-left / pad-right of a fixed
			// text decided inside the loop body rather than inside a callee): judge them together, as the arms of one ALT
			alt := &Event{Kind: EvAlt, Pos: rep.Pos, Fn: rep.Fn, Site: rep.Site}
			for _, a := range rep.Iter {
				alt.Iter = append(alt.Iter, &Arm{Conds: a.Conds, Events: a.Events})
			}
			if joint := sub.extractEnc([]*Event{alt}); len(joint) == 1 && joint[0].Kind != "irregular" {
				joint[0].Name = ""
				return joint[0]
			}
			return &FieldLayout{Kind: "irregular", Note: "list element layout differs between iteration paths", Pos: rootPos(rep)}
		}
	}
	first.Name = ""
	return first
}

// byteWrite is one WRITE_BYTES classified for fixed-text recognition.
type byteWrite struct {
	ev   *Event
	pad  *Val // pad byte when this write is padding
	data *Val // text subject when this write is data
	cut  *Val // upper bound when data is cut (lower bound must be absent)
	lo   *Val
}

func classifyByteWrite(ev *Event) byteWrite {
	bw := byteWrite{ev: ev}
	src := stripCT(ev.Src)
	if src.Op == "call" && src.Name == "bytes.Repeat" && len(src.Args) == 2 {
		b := src.Args[0]
		if b.Op == "arraylit" && len(b.Args) == 1 {
			bw.pad = b.Args[0]
		} else {
			bw.pad = b
		}
		return bw
	}
	if src.Op == "slice" {
		bw.data = textOf(src.Args[0])
		bw.lo, bw.cut = src.Args[1], src.Args[2]
		return bw
	}
	bw.data = textOf(src)
	return bw
}

// armSeq is one straight-line alternative of a group of events, with the conditions under which it is taken.
type armSeq struct {
	evs   []*Event
	conds []Cond
}

// expandArms flattens nested ALTs of byte writes into alternative straight-line sequences.
func expandArms(evs []*Event) []armSeq {
	arms := []armSeq{{}}
	for _, e := range wireOnly(evs) {
		if e.Kind == EvAlt {
			var next []armSeq
			for _, a := range e.Iter {
				for _, sub := range expandArms(a.Events) {
					for _, pre := range arms {
						next = append(next, armSeq{
							evs:   append(append([]*Event(nil), pre.evs...), sub.evs...),
							conds: append(append(append([]Cond(nil), pre.conds...), a.Conds...), sub.conds...),
						})
					}
				}
			}
			arms = next
			continue
		}
		for i := range arms {
			arms[i].evs = append(arms[i].evs, e)
		}
	}
	return arms
}

// fixedEnc recognises a fixed-width text field from byte writes: every arm
// emits exactly N bytes made of (a prefix of) the subject's bytes and pad bytes
// on one side.
func (c *layoutCtx) fixedEnc(evs []*Event) *FieldLayout {
	f := &FieldLayout{Kind: "fixed", GoField: -1, Pos: rootPos(evs[0]), Ev: evs}
	arms := expandArms(evs)
	var subj *Val
	width := int64(-1)
	widthSym := ""
	pad, side := "", ""
	var cuts []*Val
	// the width every arm must have: a constant total if some arm has one, else the first arm's
	var ref *Affine
	totalOf := func(arm armSeq) *Affine {
		t := affConst(0)
		for _, e := range arm.evs {
			if e.Kind == EvWriteBytes {
				t = t.Add(affOf(e.Size), 1)
			}
		}
		return t
	}
	for _, arm := range arms {
		t := totalOf(arm)
		if _, isC := t.IsConst(); isC || ref == nil {
			ref = t
			if isC {
				break
			}
		}
	}
	armFacts := func(armS armSeq, a, b *Affine) []intFact {
		conds := armS.conds
		if c.path != nil {
			conds = append(append([]Cond(nil), c.path.Conds...), conds...)
		}
		facts := factsOf(conds)
		if c.ct == nil {
			// a primitive analysed with symbolic parameters: widths and lengths are non-negative (the property's domain)
			for _, t := range []*Affine{a, b} {
				for k := range t.Term {
					if sym := t.Sym[k]; sym.Op == "param" || sym.Op == "len" {
						facts = append(facts, intFact{G: affOf(sym), Lo: i64(0)})
					}
				}
			}
		}
		return facts
	}
	sameWidth := func(armS armSeq, total, ref *Affine) bool {
		if total.Top || ref.Top {
			return false
		}
		if total.Equal(ref) {
			return true
		}
		lo, hi := boundsOf(total.Add(ref, -1), armFacts(armS, total, ref))
		if lo != nil && hi != nil && *lo > *hi {
			return true // the arm's conditions contradict each other (len(s) < N together with N - len(s) == 0): never taken
		}
		return lo != nil && hi != nil && *lo == 0 && *hi == 0
	}
	// prefer a reference width that every arm provably has under its own conditions
	for _, cand := range arms {
		ct := totalOf(cand)
		all := true
		for _, armS := range arms {
			if !sameWidth(armS, totalOf(armS), ct) {
				all = false
				break
			}
		}
		if all {
			ref = ct
			break
		}
	}
	for _, armS := range arms {
		arm := armS.evs
		total := affConst(0)
		seenData, padBefore, padAfter := false, false, false
		for _, e := range arm {
			if e.Kind != EvWriteBytes {
				f.Kind, f.Note = "irregular", "text field mixes "+e.Kind.String()
				return f
			}
			bw := classifyByteWrite(e)
			total = total.Add(affOf(e.Size), 1)
			if bw.pad != nil {
				p := padString(bw.pad)
				// a constant pad byte on an arm taken only when the field's pad byte IS that constant (`if pad != 0 { fill }`
				// over a zeroed array, else the zeros as they are): the same pad byte
				if isDecimal(p) {
					conds := armS.conds
					if c.path != nil {
						conds = append(append([]Cond(nil), c.path.Conds...), conds...)
					}
					for _, cd := range conds {
						v := cd.V
						if v == nil || v.Op != "binop" || len(v.Args) != 2 || (v.Name != "==" && v.Name != "!=") || (v.Name == "==") != cd.Taken {
							continue
						}
						for side := 0; side < 2; side++ {
							if k, isC := v.Args[side].Int64(); isC && fmt.Sprintf("%d", k&0xFF) == p {
								// (the other side is a pad byte – a byte or rune value –, not some length that happens to be
								// compared with the same number: a 32-byte field padded with ' ' = 32)
								if q := padString(v.Args[1-side]); !isDecimal(q) && (pad == "" || pad == q) && byteOrRune(v.Args[1-side]) {
									p = q
								}
							}
						}
					}
				}
				if pad != "" && pad != p {
					f.Kind, f.Note = "irregular", "different pad bytes in one field: "+pad+" / "+p
					return f
				}
				pad = p
				if seenData {
					padAfter = true
				} else {
					padBefore = true
				}
				continue
			}
			if bw.data == nil {
				f.Kind, f.Note = "irregular", "bytes from "+e.Src.Pretty()
				return f
			}
			if subj == nil {
				subj = bw.data
			} else if subj.Key() != bw.data.Key() {
				f.Kind, f.Note = "irregular", "bytes of two different values in one text field"
				return f
			}
			if bw.lo != nil {
				f.ValueOps = append(f.ValueOps, "cut does not start at byte 0: "+e.Src.Pretty())
			}
			if bw.cut != nil {
				cuts = append(cuts, bw.cut)
			}
			seenData = true
		}
		// a cut value must fill the whole field: exactly its first N bytes, no padding after a cut
		for _, c := range cuts {
			if !affOf(c).Equal(total) {
				f.ValueOps = append(f.ValueOps, "an over-long value is cut to "+c.Pretty()+" bytes, not to the field's first "+total.String()+" bytes")
			}
		}
		cuts = nil
		if ref != nil && !total.Equal(ref) && sameWidth(armS, total, ref) {
			// the arm's own width equals the field width because of the conditions under which the arm is taken
			// (e.g. "nothing left to pad": width - len(s) <= 0 together with the earlier !(len(s) > width))
			total = ref
		}
		n, ok := total.IsConst()
		if !ok {
			// symbolic width: allowed only when analysing a primitive with symbolic parameters
			if c.ct != nil {
				f.Kind, f.Note = "irregular", "text field width is not constant on some path: "+total.String()
				return f
			}
			if widthSym != "" && widthSym != total.String() {
				f.Kind, f.Note = "irregular", "text field width differs between paths: "+widthSym+" / "+total.String()
				return f
			}
			widthSym = total.String()
			n = -1
		}
		if width >= 0 && n >= 0 && width != n {
			f.Kind, f.Note = "irregular", fmt.Sprintf("text field width differs between paths: %d / %d", width, n)
			return f
		}
		if n >= 0 {
			width = n
		}
		s := ""
		switch {
		case padBefore && padAfter:
			s = "both"
		case padBefore:
			s = "left"
		case padAfter:
			s = "right"
		}
		if s != "" {
			if side != "" && side != s {
				f.Kind, f.Note = "irregular", "pad side differs between paths"
				return f
			}
			side = s
		}
	}
	f.Width, f.Pad, f.Side, f.WidthSym = width, pad, side, widthSym
	if width >= 0 && widthSym != "" {
		f.Kind, f.Note = "irregular", fmt.Sprintf("text field width is %d on some paths and %s on others", width, widthSym)
		return f
	}
	if subj == nil {
		f.Kind, f.Note = "irregular", "text field without data bytes"
		return f
	}
	name, idx, ok := c.subject(subj)
	if !ok {
		f.Kind, f.Note = "irregular", "text written from "+subj.Pretty()
		return f
	}
	f.Name, f.GoField = name, idx
	return f
}

func padString(p *Val) string {
	p = stripCT(p)
	for p.Op == "conv" {
		p = stripCT(p.Args[0])
	}
	if n, ok := p.Int64(); ok {
		return fmt.Sprintf("%d", n&0xFF)
	}
	return p.Pretty()
}

func (c *layoutCtx) objLayout(ev *Event, enc bool) *FieldLayout {
	f := &FieldLayout{Kind: "obj", GoField: -1, Pos: rootPos(ev), Ev: []*Event{ev}, RecvVal: ev.Recv}
	if ev.Failed {
		f.Kind, f.Note = "irregular", "failed nested codec on a success path"
		return f
	}
	wantDir := "Decode"
	if enc {
		wantDir = "Encode"
	}
	if ev.Dir != wantDir {
		f.Kind, f.Note = "irregular", "nested "+ev.Dir+" while "+strings.ToLower(wantDir[:len(wantDir)-1])+"ing"
		return f
	}
	recv := stripCT(ev.Recv)
	// static nested part
	if ev.Callee != nil {
		ct := c.u.TypeOf(ev.ObjType)
		if ct != nil {
			f.Obj = ct.Name
		} else {
			f.Obj = typeStr(ev.ObjType)
		}
	}
	// which field?
	switch {
	case recv.Op == "dyncall" && len(recv.Args) > 0 && recv.Args[0].Op == "lookup":
		// freshly built from a discriminator table
		lk := recv.Args[0]
		f.Kind = "dyn"
		f.Table = tableName(lk.Args[0])
		f.KeyVal = lk.Args[1]
		f.Key = c.keyName(lk.Args[1])
	case recv.Op == "alloc":
		// freshly allocated nested part (materialised); the field it is stored in is resolved by the caller
	default:
		if name, idx, ok := c.subject(recv); ok {
			f.Name, f.GoField = name, idx
			if ev.Callee == nil {
				f.Kind = "dyn"
			}
		} else if recv.Op == "addr-of-field" {
		} else if a := stripCT(recv); a.Op == "field" {
			// value-embedded nested part: receiver is &p.Sub
			if idx, ok := recvFieldAddr(a); ok && c.elemOf == nil {
				f.Name, f.GoField = c.fieldName(idx), idx
			}
		} else {
			f.Note = "receiver " + recv.Pretty()
		}
	}
	return f
}

func tableName(m *Val) string {
	m = stripCT(m)
	if m.Op == "init" && m.Args[0].Op == "global" {
		return m.Args[0].Name
	}
	// the map kept in the (only) field of a table record: named after the record's variable
	if m.Op == "init" && m.Args[0].Op == "field" && len(m.Args[0].Args) == 1 {
		base := m.Args[0].Args[0]
		if base.Op == "init" && len(base.Args) == 1 {
			base = base.Args[0]
		}
		if base.Op == "global" {
			if g, ok := base.Aux.(*ssa.Global); ok {
				et := g.Type().(*types.Pointer).Elem()
				oneMap := func(sv *types.Struct) bool { // the record's only map (its other fields are labels)
					n := 0
					for i := 0; i < sv.NumFields(); i++ {
						if _, isM := sv.Field(i).Type().Underlying().(*types.Map); isM {
							n++
						} else if _, isB := sv.Field(i).Type().Underlying().(*types.Basic); !isB {
							return false
						}
					}
					return n == 1
				}
				if sv, isStruct := et.Underlying().(*types.Struct); isStruct && oneMap(sv) {
					return base.Name
				}
				// the variable holds a pointer to the record
				if pt, isP := et.Underlying().(*types.Pointer); isP {
					if sv, isStruct := pt.Elem().Underlying().(*types.Struct); isStruct && oneMap(sv) {
						return base.Name
					}
				}
			}
		}
	}
	return m.Pretty()
}

// keyName maps a lookup key to the wire name of the field it was taken from.
func (c *layoutCtx) keyName(k *Val) string {
	k = stripCT(k)
	if name, _, ok := c.subject(k); ok {
		return name
	}
	// decode: the key is the value just stored into a field
	if c.path != nil {
		for _, me := range c.path.Mem {
			if me.V.Key() == k.Key() || (stripCT(me.V) != nil && stripCT(me.V).Key() == k.Key()) { // (a named key type: ApplID(val))
				if idx, ok := recvFieldAddr(me.Addr); ok {
					return c.fieldName(idx)
				}
			}
		}
	}
	return k.Pretty()
}

// ---------------------------------------------------------------------------
// decode side

// storeTargets: field index -> stored value, from the STORE events of the path (last store wins).
func storeTargets(evs []*Event) map[int]*Event {
	m := map[int]*Event{}
	for _, e := range evs {
		if e.Kind == EvStore {
			if idx, ok := recvFieldAddr(e.Dst); ok {
				m[idx] = e
			}
		}
	}
	return m
}

func containsWire(v *Val, id int) bool {
	return v.Contains(func(x *Val) bool { return x.Op == "wire" && x.ID == id })
}
func containsCollect(v *Val, loop int) bool {
	return v.Contains(func(x *Val) bool { return x.Op == "collect" && x.ID == loop })
}

// valuePath checks that v derives from wire#id only through lossless operations; returns the offending ones.
func valuePath(v *Val, id int, allowTrim bool, loops map[int]*Event) (ops []string, trim string, pad *Val, padIsByte bool) {
	v = stripCT(v)
	for {
		if loops != nil && loops[tileBaseKey] != nil && loops[tileBaseKey].Recv != nil && v.Key() == loops[tileBaseKey].Recv.Key() {
			return
		}
		switch {
		case v.Op == "choice":
			// alternatives computed after the same reads: every one of them must be lossless, and they must agree
			var firstTrim string
			forks, _ := v.Aux.([]*choiceFork)
			for i, alt := range v.Args {
				altLoops := loops
				if i < len(forks) && forks[i] != nil {
					// interpret the alternative with the loops and conditions of its own fork
					altLoops = map[int]*Event{}
					for k, l := range loops {
						altLoops[k] = l
					}
					for _, l := range forks[i].Loops {
						altLoops[l.LoopID] = l
					}
					altLoops[forkCondsKey] = &Event{Iter: []*Arm{{Conds: forks[i].Conds}}}
				}
				o2, t2, p2, b2 := valuePath(alt, id, allowTrim, altLoops)
				ops = append(ops, o2...)
				if i == 0 {
					firstTrim, pad, padIsByte = t2, p2, b2
				} else if t2 != firstTrim {
					ops = append(ops, "the value is stripped differently on different paths")
				}
			}
			if trim == "" {
				trim = firstTrim
			}
			return
		case v.Op == "wire" && v.ID == id:
			return
		case v.Op == "conv" && isStringOrBytes(v.Type) && v.Args[0].Type != nil && isStringOrBytes(stripCT(v.Args[0]).Type):
			v = stripCT(v.Args[0])
		case v.Op == "conv" && v.Name == "changetype":
			v = v.Args[0]
		case v.Op == "arraylit" && len(v.Args) == 1:
			v = stripCT(v.Args[0])
		case allowTrim && v.Op == "call" && (v.Name == "bytes.TrimRight" || v.Name == "bytes.TrimLeft" || v.Name == "strings.TrimRight" || v.Name == "strings.TrimLeft") && len(v.Args) == 2 && trim == "":
			if v.Name[len(v.Name)-4:] == "Left" {
				trim = "left"
			} else {
				trim = "right"
			}
			pad = v.Args[1]
			// a cutset string(rune(b)) is the one byte b exactly when b < 0x80 (above that it is a two-byte UTF-8 text):
			// established by the conditions of the alternative this trim belongs to
			if cs := stripCT(v.Args[1]); cs != nil && cs.Op == "conv" && len(cs.Args) == 1 && isStringOrBytes(cs.Type) {
				b := stripCT(cs.Args[0])
				// (string([]byte{b}) is the same one-byte cutset as string(rune(b)) for b < 0x80 – and like it not a
				// one-byte cutset above: an invalid UTF-8 cutset strips every invalid byte)
				if b.Op == "arraylit" && len(b.Args) == 1 && b.Args[0] != nil {
					b = stripCT(b.Args[0])
				}
				for b.Op == "conv" && len(b.Args) == 1 && b.Type != nil && b.Args[0].Type != nil && isIntegerType(b.Type) && isIntegerType(b.Args[0].Type) && wideningInt(b.Args[0].Type, b.Type) {
					b = stripCT(b.Args[0])
				}
				if bt, isB := typeUnder(b.Type).(*types.Basic); isB && bt.Kind() == types.Uint8 && loops != nil && loops[forkCondsKey] != nil && len(loops[forkCondsKey].Iter) == 1 {
					if condHolds(loops[forkCondsKey].Iter[0].Conds, b, "<", mkInt(0x80)) {
						pad, padIsByte = b, true
					}
				}
			}
			v = stripCT(v.Args[0])
		case v.Op == "loopout" && allowTrim && loops != nil && loops[v.ID] != nil && len(v.Args) >= 1:
			// a slice narrowed by a loop: recognised only as the strip idiom (drop the boundary byte while it is the pad byte)
			if side, p, ok := verifyShrink(loops[v.ID], v.Name); ok && trim == "" {
				trim, pad, padIsByte = side, p, true
			} else {
				ops = append(ops, "narrowed by a loop that is not the boundary-strip idiom")
			}
			v = stripCT(v.Args[0])
		case v.Op == "slice" && allowTrim:
			if side, p, ok := scanTrim(v, loops); ok && trim == "" {
				if side != "" {
					trim, pad, padIsByte = side, p, true
				}
			} else {
				ops = append(ops, "sub-slice "+v.Pretty())
			}
			v = stripCT(v.Args[0])
		case v.Op == "call":
			ops = append(ops, v.Name)
			if len(v.Args) == 0 {
				return
			}
			var next *Val
			for _, a := range v.Args {
				if containsWire(a, id) {
					next = a
					break
				}
			}
			if next == nil {
				return
			}
			v = stripCT(next)
		case v.Op == "conv":
			ops = append(ops, "convert to "+typeStr(v.Type))
			v = stripCT(v.Args[0])
		case v.Op == "binop":
			ops = append(ops, "arithmetic "+v.Name)
			if containsWire(v.Args[0], id) {
				v = stripCT(v.Args[0])
			} else {
				v = stripCT(v.Args[1])
			}
		default:
			ops = append(ops, "derived through "+v.Op)
			return
		}
	}
}

// cutsetByte: the single byte a TrimLeft/TrimRight cutset denotes, when it is string(rune) of a constant < 0x80.
func cutsetByte(p *Val) string {
	p = stripCT(p)
	if p.Op == "conv" {
		inner := stripCT(p.Args[0])
		if n, ok := inner.Int64(); ok {
			if n >= 0 && n < 0x80 {
				return fmt.Sprintf("%d", n)
			}
			return fmt.Sprintf("rune(%d) as UTF-8 cutset", n)
		}
		return "string(" + inner.Pretty() + ")"
	}
	if p.IsConst() && p.C != nil {
		if p.C.Kind() == constant.String {
			if s := constant.StringVal(p.C); len(s) == 1 && s[0] < 0x80 {
				return fmt.Sprintf("%d", s[0])
			}
		}
		return "cutset " + p.C.ExactString()
	}
	return p.Pretty()
}

// hoistCommonAlts replaces an ALT all of whose arms perform the very same wire events (they differ only in observers,
// panic sites and conditions – e.g. a count helper with a fast path) by those events.
func hoistCommonAlts(w []*Event) []*Event {
	var out []*Event
	for _, e := range w {
		if e.Kind == EvAlt && len(e.Iter) > 1 {
			// an arm taken only when the count just read is zero, which then does nothing more, is the zero-count case
			// of the arm that goes on to read count elements (reading zero elements is doing nothing more)
			var keep []*Arm
			for i, arm := range e.Iter {
				aw := wireOnly(arm.Events)
				sub := false
				if len(aw) > 0 && (aw[len(aw)-1].Kind == EvReadInt || aw[len(aw)-1].Kind == EvWriteInt) && zeroCountArm(arm, aw[len(aw)-1]) {
					for j, other := range e.Iter {
						ow := wireOnly(other.Events)
						if j == i || len(ow) <= len(aw) {
							continue
						}
						pre := true
						for k := range aw {
							if ow[k] != aw[k] {
								pre = false
							}
						}
						if pre {
							sub = true
						}
					}
				}
				if !sub {
					keep = append(keep, arm)
				}
			}
			if len(keep) < len(e.Iter) && len(keep) > 0 {
				e2 := *e
				e2.Iter = keep
				e = &e2
			}
		}
		if e.Kind == EvAlt && len(e.Iter) > 0 {
			first := wireOnly(e.Iter[0].Events)
			same := true
			for _, arm := range e.Iter[1:] {
				aw := wireOnly(arm.Events)
				if len(aw) != len(first) {
					same = false
					break
				}
				for i := range aw {
					if aw[i] != first[i] {
						same = false
					}
				}
			}
			if same {
				out = append(out, hoistCommonAlts(first)...)
				continue
			}
		}
		out = append(out, e)
	}
	return out
}

// zeroCountArm: the arm's conditions say that the number delivered by read event r is zero.
func zeroCountArm(arm *Arm, r *Event) bool {
	for _, c := range arm.Conds {
		v := c.V
		if v.Op != "binop" || len(v.Args) != 2 {
			continue
		}
		for side := 0; side < 2; side++ {
			x := stripIntConv(v.Args[side])
			k, isC := v.Args[1-side].Int64()
			if x == nil || !isC {
				continue
			}
			if r.Kind == EvReadInt {
				if x.Op != "wire" || x.ID != r.ID {
					continue
				}
			} else {
				// the count written is T(len(list)): the arm needs len(list) == 0
				lx := lenArg(r.Src)
				if lx == nil || !affEq(x, mkLen(lx)) || affOf(x).Top {
					continue
				}
			}
			op := v.Name
			if !c.Taken {
				op = map[string]string{"==": "!=", "!=": "==", "<": ">=", ">=": "<", ">": "<=", "<=": ">"}[op]
			}
			if side == 1 {
				op = map[string]string{"==": "==", "!=": "!=", "<": ">", ">": "<", "<=": ">=", ">=": "<="}[op]
			}
			if (op == "==" && k == 0) || (op == "<=" && k == 0) || (op == "<" && k == 1) {
				return true
			}
		}
	}
	return false
}

func (c *layoutCtx) extractDec(evs []*Event, sink func(wireIDs []int, loop int) (name string, idx int, v *Val, ok bool)) []*FieldLayout {
	w := hoistCommonAlts(wireOnly(evs))
	var out []*FieldLayout
	for i := 0; i < len(w); i++ {
		ev := w[i]
		if ev.Failed {
			out = append(out, irregular(ev, "failed read on a success path"))
			continue
		}
		switch ev.Kind {
		case EvReadInt:
			wv := &Val{Op: "wire", ID: ev.ID}
			if i+1 < len(w) {
				nx := w[i+1]
				// a counted run of numbers taken in one read and split by hand: k*count bytes whose value is bulkints
				if nx.Kind == EvReadBytes && !nx.Failed {
					if name, idx, v, okS := sink([]int{nx.ID}, 0); okS {
						if b := stripCT(v); b.Op == "bulkints" && len(b.Args) == 2 && stripCT(b.Args[0]).Op == "wire" && stripCT(b.Args[0]).ID == nx.ID && affEq(b.Args[1], wv) {
							if st, isSl := b.Type.Underlying().(*types.Slice); isSl {
								if k, okK := fixedSize(st.Elem()); okK && (affOf(nx.Size).Equal(affOf(wv).Scale(k)) || (k == -1 && countTimesSize(nx.Size, wv))) {
									ord := b.Name
									if k == 1 {
										ord = ""
									}
									f := &FieldLayout{Kind: "list", Prefix: wireTypeStr(ev.IntType), POrder: ev.Order, Name: name, GoField: idx, Pos: rootPos(ev), Ev: []*Event{ev, nx}, WireIDs: []int{ev.ID, nx.ID},
										Elem: &FieldLayout{Kind: "int", Type: wireTypeStr(st.Elem()), Order: ord, GoField: -1}}
									out = append(out, f)
									i++
									continue
								}
							}
						}
					}
				}
				if nx.Kind == EvReadBytes && !nx.Failed && affEq(nx.Size, wv) {
					f := &FieldLayout{Kind: "ptext", Prefix: wireTypeStr(ev.IntType), POrder: ev.Order, GoField: -1, Pos: rootPos(ev), Ev: []*Event{ev, nx}, WireIDs: []int{ev.ID, nx.ID}}
					name, idx, v, ok := sink([]int{nx.ID}, 0)
					f.Name, f.GoField = name, idx
					if !ok {
						f.Note = "value read is not stored in a field"
						f.Kind = "irregular"
					} else {
						ops, trim, _, _ := valuePath(v, nx.ID, true, c.loops())
						f.ValueOps = ops
						if trim != "" {
							f.ValueOps = append(f.ValueOps, "trim "+trim)
						}
						if nx.Mode == "Read" {
							// (*Buffer).Read: exactness is established by the n == len check (rule E2)
						}
					}
					out = append(out, f)
					i++
					continue
				}
				if nx.Kind == EvRep && affEq(nx.Count, wv) && !nx.Partial {
					f := &FieldLayout{Kind: "list", Prefix: wireTypeStr(ev.IntType), POrder: ev.Order, GoField: -1, Pos: rootPos(ev), Ev: []*Event{ev, nx}, WireIDs: []int{ev.ID}}
					name, idx, v, ok := sink(nil, nx.LoopID)
					f.Name, f.GoField = name, idx
					if !ok {
						f.Kind, f.Note = "irregular", "list read is not stored in a field"
						out = append(out, f)
						i++
						continue
					}
					f.Elem = c.elemLayoutDec(nx, v)
					if col := findCollect(v, nx.LoopID); col != nil {
						// the accumulated slice must start from a fresh, empty slice
						init := stripCT(col.Args[0])
						if !(init.Op == "makeslice" || init.IsNilConst()) {
							f.ValueOps = append(f.ValueOps, "list accumulates onto "+init.Pretty())
						} else if init.Op == "makeslice" {
							if n, ok := init.Args[0].Int64(); !ok || n != 0 {
								f.ValueOps = append(f.ValueOps, "list starts with "+init.Args[0].Pretty()+" zero elements")
							}
						}
						if stripCT(v).Key() != col.Key() {
							f.ValueOps = append(f.ValueOps, "list transformed after reading: "+v.Pretty())
						}
					}
					out = append(out, f)
					i++
					continue
				}
			}
			f := intLayout(ev)
			f.WireIDs = []int{ev.ID}
			name, idx, v, ok := sink([]int{ev.ID}, 0)
			if !ok && c.zeroList != nil {
				// the count read is zero on this path and the list field is set to a fresh empty list: the zero-count
				// case of the list (its element layout is whatever the paths that read elements say)
				if zn, zi, okZ := c.zeroList(ev); okZ {
					out = append(out, &FieldLayout{Kind: "list", Prefix: wireTypeStr(ev.IntType), POrder: ev.Order, Name: zn, GoField: zi, Pos: rootPos(ev), Ev: []*Event{ev}, WireIDs: []int{ev.ID}, ZeroList: true})
					continue
				}
			}
			if ok {
				f.Name, f.GoField = name, idx
				ops, _, _, _ := valuePath(v, ev.ID, false, c.loops())
				f.ValueOps = ops
			} else {
				f.Kind, f.Note = "irregular", "number read (wire#"+fmt.Sprint(ev.ID)+") is not stored in a field"
			}
			out = append(out, f)
		case EvReadBytes:
			// a count or length prefix assembled by hand (ReadFull of N bytes, ByteOrder.UintN over exactly those bytes,
			// widened): the same wire atom as a number read, followed by its list or text
			if n, okN := affOf(ev.Size).IsConst(); okN && i+1 < len(w) {
				nx := w[i+1]
				var cnt *Val
				switch {
				case nx.Kind == EvRep && !nx.Partial:
					cnt = nx.Count
				case nx.Kind == EvReadBytes && !nx.Failed:
					cnt = nx.Size
				}
				if cnt != nil {
					if pt, ord, okP := manualCount(cnt, ev.ID, n); okP {
						// re-dispatch as if the prefix had been read as a number
						syn := &Event{ID: ev.ID, Kind: EvReadInt, Pos: ev.Pos, Fn: ev.Fn, Site: ev.Site, Instr: ev.Instr, NCond: ev.NCond, Buf: ev.Buf, IntType: pt, Order: ord, Size: ev.Size}
						cnt2 := &Val{Op: "wire", ID: ev.ID}
						nx2 := *nx
						if nx.Kind == EvRep {
							nx2.Count = cnt2
						} else {
							nx2.Size = cnt2
						}
						sub := c.extractDec([]*Event{syn, &nx2}, sink)
						out = append(out, sub...)
						i++
						continue
					}
				}
			}
			// a number assembled by hand: ReadFull of N bytes, then ByteOrder.UintN over exactly those bytes
			// (in a generic body: binary.Size(v) bytes, then binary.Decode into v)
			n, okN := affOf(ev.Size).IsConst()
			if !okN {
				if l := stripCT(ev.Size); l.Op == "call" && l.Name == "encoding/binary.Size" {
					n, okN = -1, true
				}
			}
			if okN {
				if name, idx, v, okS := sink([]int{ev.ID}, 0); okS {
					if it, ord, okI := manualInt(v, ev.ID, n); okI {
						f := &FieldLayout{Kind: "int", Type: wireTypeStr(it), Order: ord, Name: name, GoField: idx, Pos: rootPos(ev), Ev: []*Event{ev}, WireIDs: []int{ev.ID}}
						if n == 1 {
							f.Order = ""
						}
						out = append(out, f)
						continue
					}
				}
			}
			// several numbers taken out of one read of constant size: ByteOrder.UintN over sub-slices that tile it
			if nC, okC := affOf(ev.Size).IsConst(); okC && c.tiles != nil {
				if fs := c.tiles(ev, nC); fs != nil {
					out = append(out, fs...)
					continue
				}
			}
			f := &FieldLayout{Kind: "fixed", GoField: -1, Pos: rootPos(ev), Ev: []*Event{ev}, WireIDs: []int{ev.ID}}
			n, ok := affOf(ev.Size).IsConst()
			if !ok {
				if c.ct != nil || ev.Size.Contains(func(x *Val) bool { return x.Op == "wire" }) {
					f.Kind, f.Note = "irregular", "bytes read with a length that is neither constant nor the preceding prefix: "+ev.Size.Pretty()
					out = append(out, f)
					continue
				}
				f.WidthSym = affOf(ev.Size).String()
				n = -1
			}
			f.Width = n
			name, idx, v, ok := sink([]int{ev.ID}, 0)
			if !ok {
				f.Kind, f.Note = "irregular", "text read is not stored in a field"
				out = append(out, f)
				continue
			}
			f.Name, f.GoField = name, idx
			ops, trim, pad, isByte := valuePath(v, ev.ID, true, c.loops())
			f.ValueOps = ops
			f.Side = trim
			if pad != nil {
				if isByte {
					f.Pad = padString(pad)
				} else {
					f.Pad = cutsetByte(pad)
				}
			}
			out = append(out, f)
		case EvObj:
			f := c.objLayout(ev, false)
			out = append(out, f)
		case EvRep:
			out = append(out, irregular(ev, "loop reading without a count prefix (count "+ev.Count.Pretty()+")"))
		case EvBufOther:
			out = append(out, irregular(ev, "unclassified buffer use: "+ev.Mode))
		default:
			out = append(out, irregular(ev, "unexpected "+ev.Kind.String()+" while decoding"))
		}
	}
	return out
}

func findCollect(v *Val, loop int) *Val {
	var r *Val
	v.Walk(func(x *Val) bool {
		if r == nil && x.Op == "collect" && x.ID == loop {
			r = x
		}
		return r == nil
	})
	return r
}

func (c *layoutCtx) elemLayoutDec(rep *Event, stored *Val) *FieldLayout {
	col := findCollect(stored, rep.LoopID)
	if col == nil {
		return &FieldLayout{Kind: "irregular", Note: "list value is not the accumulation of the loop's reads"}
	}
	elemAll := col.Args[1]
	var first *FieldLayout
	canon := ""
	for ai, arm := range rep.Iter {
		// (when the ways through the body append different expressions, this way's own one)
		elem := elemAll
		if al := stripCT(elemAll); al.Op == "arraylit" && len(al.Args) == 1 {
			if ch := stripCT(al.Args[0]); ch.Op == "choice" && ch.Name == "perarm" && len(ch.Args) == len(rep.Iter) {
				elem = &Val{Op: "arraylit", Args: []*Val{ch.Args[ai]}, Type: al.Type}
			}
		}
		sub := *c
		fs := sub.extractDec(arm.Events, func(ids []int, loop int) (string, int, *Val, bool) {
			for _, id := range ids {
				if containsWire(elem, id) {
					return "", -1, elem, true
				}
			}
			if loop != 0 && containsCollect(elem, loop) {
				return "", -1, elem, true
			}
			return "", -1, nil, false
		})
		// object elements: the element is the receiver of a nested Decode
		for _, f := range fs {
			if f.Kind == "obj" || f.Kind == "dyn" {
				if f.RecvVal != nil && !elem.Contains(func(x *Val) bool { return x.Key() == stripCT(f.RecvVal).Key() }) {
					f.ValueOps = append(f.ValueOps, "decoded object is not the element appended")
				}
				// every element is an object of its own: what Decode is called on is made inside the iteration (ids are
				// handed out in execution order: anything made before the loop started has a smaller id than the loop)
				if f.RecvVal != nil && rep.LoopID > 0 && f.RecvVal.Contains(func(x *Val) bool {
					return (x.Op == "dyncall" || x.Op == "alloc") && x.ID > 0 && x.ID < rep.LoopID
				}) {
					f.ValueOps = append(f.ValueOps, "every element is decoded into one and the same object, made before the loop: "+f.RecvVal.Pretty())
				}
			}
		}
		if len(fs) != 1 {
			var s []string
			for _, f := range fs {
				s = append(s, f.Canon())
			}
			return &FieldLayout{Kind: "irregular", Note: fmt.Sprintf("list element is not a single field: [%s]", strings.Join(s, " · ")), Pos: rootPos(rep)}
		}
		if first == nil {
			first, canon = fs[0], fs[0].Canon()
		} else if fs[0].Canon() != canon {
			return &FieldLayout{Kind: "irregular", Note: "list element layout differs between iteration paths", Pos: rootPos(rep)}
		}
	}
	if first == nil {
		return &FieldLayout{Kind: "irregular", Note: "loop without an iteration path"}
	}
	first.Name = ""
	return first
}

var _ = types.Typ

// loops indexes the REP events of the path by loop id.
func (c *layoutCtx) loops() map[int]*Event {
	if c.loopIdx == nil {
		c.loopIdx = map[int]*Event{}
		if c.path != nil {
			walkEvents(c.path.Events, func(e *Event, _ int) {
				if e.Kind == EvRep {
					if _, ok := c.loopIdx[e.LoopID]; !ok || !e.Partial {
						c.loopIdx[e.LoopID] = e
					}
				}
			})
			// a loop of the path itself left from inside an iteration: the conditions of that exit are the path conditions
			// recorded after the loop that speak of the loop's variables in that iteration
			for _, e := range c.path.Events {
				if e.Kind != EvRep || !e.Partial || e.NCond > len(c.path.Conds) {
					continue
				}
				var ex []Cond
				for _, cd := range c.path.Conds[e.NCond:] {
					if cd.V != nil && cd.V.Contains(func(x *Val) bool { return x.Op == "loopvar" && x.ID == e.LoopID }) {
						ex = append(ex, cd)
					}
				}
				c.loopIdx[exitCondsKey(e.LoopID)] = &Event{Iter: []*Arm{{Conds: ex}}}
			}
		}
	}
	return c.loopIdx
}

// scanTrim recognises the boundary-scan strip idiom: W[lo:hi] where one bound is the
// result of a loop that moves it inwards one byte at a time while the boundary byte
// equals the pad byte, and the other bound is the end of W. side is "left", "right" or
// "" (no stripping: the whole of W).
func scanTrim(sl *Val, loops map[int]*Event) (side string, pad *Val, ok bool) {
	W := stripCT(sl.Args[0])
	lo, hi := sl.Args[1], sl.Args[2]
	loFixed := lo == nil
	if n, isC := lo.Int64(); lo != nil && isC && n == 0 {
		loFixed = true
	}
	hiFixed := hi == nil || affEq(hi, mkLen(W))
	loopOf := func(v *Val) *Event {
		if v == nil {
			return nil
		}
		v = stripCT(v)
		if (v.Op == "loopvar" || v.Op == "loopout") && loops != nil {
			return loops[v.ID]
		}
		return nil
	}
	switch {
	case loFixed && hiFixed:
		return "", nil, true
	case !loFixed && hiFixed:
		if l := loopOf(lo); l != nil {
			if p, ok := verifyScan(l, W, true); ok {
				return "left", p, true
			}
		}
	case loFixed && !hiFixed:
		if l := loopOf(hi); l != nil {
			if p, ok := verifyScan(l, W, false); ok {
				return "right", p, true
			}
		}
	}
	return scanTrimGen(W, lo, hi, loops)
}

// forkCondsKey: pseudo loop id under which valuePath hands down the conditions of the fork an alternative comes from.
const forkCondsKey = -1

// exitCondsKey: pseudo loop id under which the conditions of a path's own early exit from loop id are kept.
func exitCondsKey(id int) int { return -(1000 + id) }

// tileBaseKey: pseudo loop id under which valuePath is told which sub-slice of a block read stands for "the bytes
// read" (a text field cut out of a record that was read in one piece).
const tileBaseKey = -2

// scanTrimGen covers the other spellings of the boundary scan: the index tested is the loop counter plus a constant
// (`for i := len(b)-1; i >= 0; i--` tests b[i] where the two-index form tests b[end-1]), the loop may be left from
// inside the iteration (`if b[i] != pad { return b[:i+1] }`) and the all-pad case may be written as an explicitly
// empty slice. Writing B for the boundary (B = counter + k, B = len(W) before the first iteration on the right side,
// B = 0 on the left side), what is verified is: the loop moves B by one per iteration; it continues exactly while B is
// not at the far end and the byte at the boundary (W[B-1] on the right, W[B] on the left) equals the pad byte; the
// result is W[:B] (W[B:]) with B the value at the exit, or an empty slice when the loop ran off the far end.
func scanTrimGen(W, lo, hi *Val, loops map[int]*Event) (string, *Val, bool) {
	if loops == nil {
		return "", nil, false
	}
	var exitConds []Cond
	if f := loops[forkCondsKey]; f != nil && len(f.Iter) == 1 {
		exitConds = f.Iter[0].Conds
	}
	L := affOf(mkLen(W))
	isZeroOrNil := func(v *Val) bool { return v == nil || isZero(v) }
	// candidate loops: the one the moving bound mentions, or (explicitly empty result) every effect-free loop of the fork
	type cand struct {
		loop  *Event
		right bool
		bound *Affine // the result's moving bound as an affine term (nil: the explicitly empty slice)
	}
	var cands []cand
	mention := func(v *Val) *Event {
		var l *Event
		if v != nil {
			v.Walk(func(x *Val) bool {
				if (x.Op == "loopvar" || x.Op == "loopout") && x.ID > 0 && loops[x.ID] != nil {
					l = loops[x.ID]
				}
				return true
			})
		}
		return l
	}
	empty := false
	if lo != nil && hi != nil && affEq(lo, hi) {
		empty = true
	} else if hi != nil && isZero(hi) && isZeroOrNil(lo) {
		empty = true
	} else if lo != nil && hi == nil && affOf(lo).Equal(L) {
		empty = true
	}
	switch {
	case empty:
		for id, l := range loops {
			if id > 0 && !l.Partial {
				cands = append(cands, cand{loop: l, right: true}, cand{loop: l, right: false})
			}
		}
	case isZeroOrNil(lo) && hi != nil:
		if l := mention(hi); l != nil {
			cands = append(cands, cand{loop: l, right: true, bound: affOf(hi)})
		}
	case lo != nil && (hi == nil || affOf(hi).Equal(L)):
		if l := mention(lo); l != nil {
			cands = append(cands, cand{loop: l, right: false, bound: affOf(lo)})
		}
	}
	if os.Getenv("FPDEBUG") == "scan" {
		fmt.Fprintln(os.Stderr, "SCANGEN W", W.Pretty(), "lo", valOrNil(lo), "hi", valOrNil(hi), "empty", empty, "cands", len(cands), "loops", len(loops))
		for id, l := range loops {
			fmt.Fprintln(os.Stderr, "   loop", id, "partial", l.Partial, "arms", len(l.Iter))
			for _, a := range l.Iter {
				for _, c := range a.Conds {
					fmt.Fprintln(os.Stderr, "      cond", c.String())
				}
				for k, v := range a.Next {
					fmt.Fprintln(os.Stderr, "      next", k, v.Pretty())
				}
			}
		}
	}
	for _, c := range cands {
		ec := exitConds
		if loops[forkCondsKey] == nil {
			if f := loops[exitCondsKey(c.loop.LoopID)]; f != nil && len(f.Iter) == 1 {
				ec = f.Iter[0].Conds
			}
		}
		if p, ok := verifyScanGen(c.loop, W, c.right, c.bound, ec); ok {
			if c.right {
				return "right", p, true
			}
			return "left", p, true
		}
	}
	return "", nil, false
}

// notFarEnd: cond (with its Taken flag) says "E >= 1" for an affine E; returns E.
func atLeastOne(c Cond) *Affine {
	v := c.V
	if v.Op != "binop" || len(v.Args) != 2 {
		return nil
	}
	op := v.Name
	if !c.Taken {
		neg := map[string]string{"<": ">=", ">=": "<", ">": "<=", "<=": ">"}
		n, ok := neg[op]
		if !ok {
			return nil
		}
		op = n
	}
	a, b := affOf(v.Args[0]), affOf(v.Args[1])
	if a.Top || b.Top {
		return nil
	}
	switch op {
	case ">": // a - b >= 1
		return a.Add(b, -1)
	case ">=": // a - b + 1 >= 1
		return a.Add(b, -1).Add(affConst(1), 1)
	case "<":
		return b.Add(a, -1)
	case "<=":
		return b.Add(a, -1).Add(affConst(1), 1)
	}
	return nil
}

// byteTest: cond says elem(W, idx) == pad (eq true) or != pad (eq false); returns idx and pad.
func byteTest(c Cond, W *Val) (idx *Affine, pad *Val, eq bool, ok bool) {
	v := c.V
	if v.Op != "binop" || (v.Name != "==" && v.Name != "!=") || len(v.Args) != 2 {
		return nil, nil, false, false
	}
	eq = (v.Name == "==") == c.Taken
	asElem := func(x *Val) *Val {
		x = stripCT(x)
		if x.Op == "init" && len(x.Args) == 1 && x.Args[0].Op == "index" {
			return &Val{Op: "elem", Args: x.Args[0].Args, Type: x.Type}
		}
		return x
	}
	el, p := asElem(v.Args[0]), asElem(v.Args[1])
	if el.Op != "elem" {
		el, p = p, el
	}
	if el.Op != "elem" || stripCT(el.Args[0]).Key() != W.Key() {
		return nil, nil, false, false
	}
	if p.Contains(func(x *Val) bool { return x.Op == "wire" || x.Op == "loopvar" || x.Op == "loopout" || x.Op == "elem" || x.Op == "index" }) {
		return nil, nil, false, false
	}
	return affOf(el.Args[1]), p, eq, true
}

func verifyScanGen(loop *Event, W *Val, right bool, bound *Affine, exitConds []Cond) (*Val, bool) {
	if loop == nil || len(loop.Iter) != 1 {
		return nil, false
	}
	arm := loop.Iter[0]
	for _, e := range arm.Events {
		if e.Kind != EvPanicSite {
			return nil, false
		}
	}
	if len(arm.Conds) != 2 {
		return nil, false
	}
	// the counter: the one loop variable of this loop the first condition mentions
	var lv *Val
	arm.Conds[0].V.Walk(func(x *Val) bool {
		if x.Op == "loopvar" && x.ID == loop.LoopID && len(x.Args) == 1 {
			lv = x
		}
		return true
	})
	if lv == nil {
		return nil, false
	}
	step, _ := lv.Aux.(int64)
	L := affOf(mkLen(W))
	// boundary B = lv + k with B(initial) = len(W) on the right, 0 on the left
	var k int64
	var isC bool
	if right {
		k, isC = L.Add(affOf(lv.Args[0]), -1).IsConst()
		if step != -1 {
			return nil, false
		}
	} else {
		k, isC = affConst(0).Add(affOf(lv.Args[0]), -1).IsConst()
		if step != 1 {
			return nil, false
		}
	}
	if !isC {
		return nil, false
	}
	if nx := arm.Next[lv.Name]; nx == nil || !affOf(nx).Equal(affOf(lv).Add(affConst(step), 1)) {
		return nil, false
	}
	B := affOf(lv).Add(affConst(k), 1)
	// not at the far end: right B >= 1, left len(W) - B >= 1
	far := B
	bidx := B.Add(affConst(1), -1)
	if !right {
		far = L.Add(B, -1)
		bidx = B
	}
	contTest := func(conds []Cond, at *Affine, atIdx *Affine, wantEq bool) (*Val, bool) {
		if len(conds) != 2 {
			return nil, false
		}
		e := atLeastOne(conds[0])
		if e == nil || !e.Equal(at) {
			return nil, false
		}
		idx, pad, eq, ok := byteTest(conds[1], W)
		if !ok || eq != wantEq || !idx.Equal(atIdx) {
			return nil, false
		}
		return pad, true
	}
	pad, ok := contTest(arm.Conds, far, bidx, true)
	if !ok {
		return nil, false
	}
	switch {
	case bound == nil:
		// explicitly empty result: the loop must have run off the far end – a complete (not early-left) loop whose only
		// way to end is its own test; the boundary is then at the far end and W[:0] / W[len:] is what the scan yields
		if loop.Partial {
			return nil, false
		}
		return pad, true
	default:
		// bound = X + k with X the counter inside the iteration left early, or the counter's value after the loop
		var x *Val
		if len(bound.Term) != 1 {
			return nil, false
		}
		for key, c := range bound.Term {
			if c != 1 {
				return nil, false
			}
			x = bound.Sym[key]
		}
		bc := bound.C
		if x.ID == loop.LoopID && x.Name != lv.Name && len(x.Args) >= 1 {
			// a second counter that moves in lock-step with the tested one (`start++` beside a range index): the same
			// variable up to the constant difference of their initial values
			xs, _ := x.Aux.(int64)
			// (the distance of their initial values: a constant also when both are symbolic – `end := len(b)` beside
			// `i := len(b)-1`)
			dd, okD := affOf(x.Args[0]).Add(affOf(lv.Args[0]), -1).IsConst()
			if xs != step || !okD {
				return nil, false
			}
			if nx2 := arm.Next[x.Name]; nx2 == nil {
				return nil, false
			}
			bc += dd
		} else if x.ID != loop.LoopID || x.Name != lv.Name {
			return nil, false
		}
		if bc != k {
			return nil, false
		}
		switch x.Op {
		case "loopout":
			return pad, !loop.Partial
		case "loopvar":
			// left from inside an iteration: the conditions of that exit must be exactly "not at the far end" and
			// "boundary byte differs from the same pad byte"
			if !loop.Partial {
				return nil, false
			}
			p2, ok := contTest(exitConds, far, bidx, false)
			if !ok || p2.Key() != pad.Key() {
				return nil, false
			}
			return pad, true
		}
	}
	return nil, false
}

func verifyScan(loop *Event, W *Val, left bool) (*Val, bool) {
	if len(loop.Iter) != 1 {
		return nil, false
	}
	arm := loop.Iter[0]
	for _, e := range arm.Events {
		if e.Kind != EvPanicSite {
			return nil, false
		}
	}
	if len(arm.Next) != 1 || len(arm.Conds) != 2 || !arm.Conds[0].Taken || !arm.Conds[1].Taken {
		return nil, false
	}
	var lv *Val
	arm.Conds[0].V.Walk(func(x *Val) bool {
		if x.Op == "loopvar" && x.ID == loop.LoopID {
			lv = x
		}
		return true
	})
	if lv == nil || len(lv.Args) != 1 {
		return nil, false
	}
	step, _ := lv.Aux.(int64)
	c1, c2 := arm.Conds[0].V, arm.Conds[1].V
	if c1.Op != "binop" || c2.Op != "binop" || c2.Name != "==" {
		return nil, false
	}
	var idx *Val
	if left {
		init, isC := lv.Args[0].Int64()
		if step != 1 || !isC || init != 0 || c1.Name != "<" || c1.Args[0].Key() != lv.Key() || !affEq(c1.Args[1], mkLen(W)) {
			return nil, false
		}
		idx = lv
	} else {
		s, isC := c1.Args[1].Int64()
		if step != -1 || !affEq(lv.Args[0], mkLen(W)) || c1.Name != ">" || c1.Args[0].Key() != lv.Key() || !isC || s != 0 {
			return nil, false
		}
		idx = &Val{Op: "binop", Name: "-", Args: []*Val{lv, mkInt(1)}}
	}
	el, p := stripCT(c2.Args[0]), stripCT(c2.Args[1])
	// the boundary byte: elem(b, i), or the load of &b[i] when b has no recorded content
	asElemV := func(v *Val) *Val {
		if v.Op == "init" && len(v.Args) == 1 && v.Args[0].Op == "index" {
			b := stripCT(v.Args[0].Args[0])
			for x := b; x != nil; {
				if x.Op == "bufnext" && len(x.Args) == 3 {
					// a view handed out by Next: its elements are those of the bytes that read delivered
					b = replaceVal(b, x, x.Args[2])
					break
				}
				if x.Op == "slice" {
					x = stripCT(x.Args[0])
					continue
				}
				break
			}
			return &Val{Op: "elem", Args: []*Val{b, v.Args[0].Args[1]}, Type: v.Type}
		}
		return v
	}
	el, p = asElemV(el), asElemV(p)
	if el.Op != "elem" {
		el, p = p, el
	}
	if os.Getenv("FPDEBUG") != "" {
		fmt.Fprintln(os.Stderr, "verifyScan: el", el.Pretty(), "W", W.Pretty(), "idx", idx.Pretty())
	}
	if el.Op != "elem" || !sameElement(stripCT(el.Args[0]), el.Args[1], W, idx) {
		return nil, false
	}
	if p.Contains(func(x *Val) bool { return x.Op == "wire" || x.Op == "loopvar" || x.Op == "elem" }) {
		return nil, false
	}
	return p, true
}

// verifyShrink recognises the other spelling of the strip idiom: a slice variable that loses its first (last) byte
// on every iteration, the loop running while the slice is non-empty and that boundary byte equals the pad byte:
//   for len(b) > 0 && b[0] == pad { b = b[1:] }          (left)
//   for len(b) > 0 && b[len(b)-1] == pad { b = b[:len(b)-1] }   (right)
func verifyShrink(loop *Event, name string) (string, *Val, bool) {
	if os.Getenv("FPDEBUG") != "" {
		for _, arm := range loop.Iter {
			fmt.Fprintln(os.Stderr, "shrink arm conds:", condString(arm.Conds), "next:", arm.Next[name].Pretty(), "events:", len(arm.Events))
		}
	}
	if len(loop.Iter) != 1 {
		return "", nil, false
	}
	arm := loop.Iter[0]
	for _, e := range arm.Events {
		if e.Kind != EvPanicSite {
			return "", nil, false
		}
	}
	if len(arm.Conds) != 2 || !arm.Conds[0].Taken || !arm.Conds[1].Taken {
		return "", nil, false
	}
	var lv *Val
	for _, c := range arm.Conds {
		c.V.Walk(func(x *Val) bool {
			if x.Op == "loopvar" && x.ID == loop.LoopID && x.Name == name {
				lv = x
			}
			return true
		})
	}
	if lv == nil {
		return "", nil, false
	}
	next := stripCT(arm.Next[name])
	if next == nil || next.Op != "slice" || stripCT(next.Args[0]).Key() != lv.Key() || next.Args[3] != nil {
		return "", nil, false
	}
	// the loop runs while the slice is non-empty
	c1 := arm.Conds[0].V
	L := mkLen(lv)
	// a counter kept equal to the slice's length (`for n := len(b); n > 0 && b[n-1] == pad; n-- { b = b[:n-1] }`):
	// starts as len of the slice's initial value, goes down by one exactly when the slice loses its last byte
	for cname, cnext := range arm.Next {
		if cname == name || cnext == nil {
			continue
		}
		var cv *Val
		arm.Conds[0].V.Walk(func(x *Val) bool {
			if x.Op == "loopvar" && x.ID == loop.LoopID && x.Name == cname {
				cv = x
			}
			return true
		})
		if cv == nil || len(cv.Args) != 1 || len(lv.Args) != 1 || !affEq(cv.Args[0], mkLen(lv.Args[0])) || affOf(cv).Top {
			continue
		}
		if d, ok := affOf(cnext).Add(affOf(cv), -1).IsConst(); !ok || d != -1 {
			continue
		}
		if os.Getenv("FPDEBUG") != "" {
			fmt.Fprintln(os.Stderr, "  lockstep candidate", cname, cv.Pretty(), "next", cnext.Pretty(), "slice next", next.Pretty())
		}
		if next.Args[1] == nil && next.Args[2] != nil && affEq(next.Args[2], cnext) {
			L = cv
		}
	}
	nonEmpty := false
	if c1.Op == "binop" && len(c1.Args) == 2 {
		a0, a1 := c1.Args[0], c1.Args[1]
		k0, isC0 := a0.Int64()
		k1, isC1 := a1.Int64()
		switch {
		case (c1.Name == ">" || c1.Name == "!=") && affEq(a0, L) && isC1 && k1 == 0,
			c1.Name == ">=" && affEq(a0, L) && isC1 && k1 == 1,
			(c1.Name == "<" || c1.Name == "!=") && affEq(a1, L) && isC0 && k0 == 0,
			c1.Name == "<=" && affEq(a1, L) && isC0 && k0 == 1:
			nonEmpty = true
		}
	}
	if !nonEmpty {
		return "", nil, false
	}
	c2 := arm.Conds[1].V
	if c2.Op != "binop" || c2.Name != "==" {
		return "", nil, false
	}
	el, p := stripCT(c2.Args[0]), stripCT(c2.Args[1])
	if el.Op != "elem" {
		el, p = p, el
	}
	// the boundary byte: elem(b, i), or the load of &b[i] when b has no recorded content
	asElem := func(v *Val) *Val {
		if v.Op == "init" && len(v.Args) == 1 && v.Args[0].Op == "index" {
			return &Val{Op: "elem", Args: v.Args[0].Args, Type: v.Type}
		}
		return v
	}
	el, p = asElem(el), asElem(p)
	if el.Op != "elem" {
		el, p = p, el
	}
	if el.Op != "elem" || stripCT(el.Args[0]).Key() != lv.Key() {
		return "", nil, false
	}
	if p.Contains(func(x *Val) bool { return x.Op == "wire" || x.Op == "loopvar" || x.Op == "elem" || x.Op == "index" }) {
		return "", nil, false
	}
	isZero := func(v *Val) bool {
		if v == nil {
			return true
		}
		n, ok := v.Int64()
		return ok && n == 0
	}
	lm1 := &Val{Op: "binop", Name: "-", Args: []*Val{L, mkInt(1)}}
	lo, hi := next.Args[1], next.Args[2]
	if n, ok := el.Args[1].Int64(); ok && n == 0 {
		// left: b = b[1:]
		if one, ok := lo.Int64(); lo != nil && ok && one == 1 && (hi == nil || affEq(hi, L)) {
			return "left", p, true
		}
		return "", nil, false
	}
	if affEq(el.Args[1], lm1) && isZero(lo) && hi != nil && affEq(hi, lm1) {
		return "right", p, true
	}
	return "", nil, false
}

// manualIntAt: v is T(ByteOrder.UintN(wire#id[lo:hi])) with constant bounds spanning exactly the number; returns lo.
func manualIntAt(v *Val, id int) (lo int64, it types.Type, ord string, ok bool) {
	v = stripCT(v)
	var outer types.Type
	for v.Op == "conv" && isIntegerType(v.Type) {
		if outer == nil {
			outer = v.Type
		}
		v = stripCT(v.Args[0])
	}
	if v.Op != "call" || len(v.Args) != 1 {
		return 0, nil, "", false
	}
	var k int64
	for _, o := range []struct{ pfx, o string }{{"(encoding/binary.bigEndian).Uint", "BE"}, {"(encoding/binary.littleEndian).Uint", "LE"}} {
		if strings.HasPrefix(v.Name, o.pfx) {
			ord = o.o
			k = map[string]int64{"16": 2, "32": 4, "64": 8}[strings.TrimPrefix(v.Name, o.pfx)]
		}
	}
	if k == 0 {
		return 0, nil, "", false
	}
	it = map[int64]types.Type{2: types.Typ[types.Uint16], 4: types.Typ[types.Uint32], 8: types.Typ[types.Uint64]}[k]
	sl := stripCT(v.Args[0])
	if off, hi, okW := wireOffset(sl, id); okW && (sl.Op == "wire" || stripCT(sl.Args[0]).Op != "wire") {
		// the block itself, or a cursor moved along it (`b = b[2:]` after every field): UintN takes the first N bytes
		// of what it is given
		if hi >= 0 && hi < off+k {
			return 0, nil, "", false
		}
		if outer != nil {
			if osz, okS := fixedSize(outer); !okS || osz != k {
				return 0, nil, "", false
			}
			it = outer
		}
		return off, it, ord, true
	}
	if sl.Op != "slice" || stripCT(sl.Args[0]).Op != "wire" || stripCT(sl.Args[0]).ID != id {
		return 0, nil, "", false
	}
	if sl.Args[1] != nil {
		l, isC := sl.Args[1].Int64()
		if !isC {
			return 0, nil, "", false
		}
		lo = l
	}
	if sl.Args[2] != nil {
		// (an open upper bound is fine as well: UintN takes the first N bytes of what it is given)
		if h, isC := sl.Args[2].Int64(); !isC || h < lo+k {
			return 0, nil, "", false
		}
	}
	if outer != nil {
		if osz, okS := fixedSize(outer); !okS || osz != k {
			return 0, nil, "", false
		}
		it = outer
	}
	return lo, it, ord, true
}

// countTimesSize: in a generic body, n is count * binary.Size(<an element>) – the bytes of count elements of the
// element type, whatever its width.
func countTimesSize(n, count *Val) bool {
	n = stripCT(n)
	if n == nil || n.Op != "binop" || n.Name != "*" || len(n.Args) != 2 {
		return false
	}
	for i := 0; i < 2; i++ {
		c, sz := stripCT(n.Args[i]), stripCT(n.Args[1-i])
		if sz != nil && sz.Op == "call" && sz.Name == "encoding/binary.Size" && affEq(c, count) {
			return true
		}
	}
	return false
}

// wireOffset: v is the block wire#id or a slice of it reached through any number of re-slicings with constant lower
// bounds: the offset of its first byte in the block, and the end of what it spans (-1: the end of the block).
func wireOffset(v *Val, id int) (off, hi int64, ok bool) {
	v = stripCT(v)
	if v == nil {
		return 0, 0, false
	}
	if v.Op == "wire" && v.ID == id {
		return 0, -1, true
	}
	if v.Op != "slice" || len(v.Args) < 3 || (len(v.Args) > 3 && v.Args[3] != nil) {
		return 0, 0, false
	}
	base, bhi, okB := wireOffset(v.Args[0], id)
	if !okB {
		return 0, 0, false
	}
	lo := int64(0)
	if v.Args[1] != nil {
		l, isC := v.Args[1].Int64()
		if !isC || l < 0 {
			return 0, 0, false
		}
		lo = l
	}
	hi = bhi
	if v.Args[2] != nil {
		h, isC := v.Args[2].Int64()
		if !isC || h < lo {
			return 0, 0, false
		}
		hi = base + h
	}
	return base + lo, hi, true
}

// manualCount: v is ByteOrder.UintN(wire#id), possibly widened (never narrowed or sign-changed at equal width), with N
// bytes read: the count or length that follows a hand-assembled prefix.
func manualCount(v *Val, id int, n int64) (types.Type, string, bool) {
	v = stripCT(v)
	for v.Op == "conv" && len(v.Args) == 1 && v.Args[0].Type != nil && wideningInt(stripCT(v.Args[0]).Type, v.Type) {
		v = stripCT(v.Args[0])
	}
	if v.Op != "call" {
		return nil, "", false
	}
	return manualInt(v, id, n)
}

// manualInt: v is T(ByteOrder.UintN(wire#id)) with N bytes read and T an integer type of the same size.
func manualInt(v *Val, id int, n int64) (types.Type, string, bool) {
	v = stripCT(v)
	for v.Op == "arraylit" && len(v.Args) == 1 { // the element appended to a list
		v = stripCT(v.Args[0])
	}
	if v.Op == "decoded" && len(v.Args) == 1 && v.Args[0].Op == "wire" && v.Args[0].ID == id && v.Type != nil {
		// binary.Decode over exactly the bytes read
		if sz, ok := fixedSize(v.Type); ok && (sz == n || sz == -1) {
			return v.Type, v.Name, true
		}
		return nil, "", false
	}
	var outer types.Type
	for v.Op == "conv" && isIntegerType(v.Type) {
		if outer == nil {
			outer = v.Type
		}
		v = stripCT(v.Args[0])
	}
	// one byte taken out of a one-byte read: Next(1)[0]
	if v.Op == "elem" && len(v.Args) == 2 && n == 1 {
		if w := stripCT(v.Args[0]); w != nil && w.Op == "wire" && w.ID == id {
			if k, isC := v.Args[1].Int64(); isC && k == 0 {
				it := types.Type(types.Typ[types.Uint8])
				if outer != nil {
					if osz, okS := fixedSize(outer); !okS || osz != 1 {
						return nil, "", false
					}
					it = outer
				}
				return it, "", true
			}
		}
	}
	// a float from its IEEE 754 bits: math.Float32frombits(UintN(…)) – what binary.Read renders
	if v.Op == "call" && len(v.Args) == 1 && outer == nil && (v.Name == "math.Float32frombits" || v.Name == "math.Float64frombits") {
		it, ord, ok := manualInt(v.Args[0], id, n)
		if !ok {
			return nil, "", false
		}
		if v.Name == "math.Float32frombits" && typeStr(it) == "uint32" {
			return types.Typ[types.Float32], ord, true
		}
		if v.Name == "math.Float64frombits" && typeStr(it) == "uint64" {
			return types.Typ[types.Float64], ord, true
		}
		return nil, "", false
	}
	if v.Op != "call" || len(v.Args) != 1 {
		return nil, "", false
	}
	ord := ""
	switch {
	case strings.HasPrefix(v.Name, "(encoding/binary.bigEndian).Uint"):
		ord = "BE"
	case strings.HasPrefix(v.Name, "(encoding/binary.littleEndian).Uint"):
		ord = "LE"
	default:
		return nil, "", false
	}
	var it types.Type
	switch v.Name[strings.LastIndex(v.Name, "Uint")+4:] {
	case "16":
		it = types.Typ[types.Uint16]
	case "32":
		it = types.Typ[types.Uint32]
	case "64":
		it = types.Typ[types.Uint64]
	default:
		return nil, "", false
	}
	sz, _ := fixedSize(it)
	arg := stripCT(v.Args[0])
	if sz != n || arg.Op != "wire" || arg.ID != id {
		return nil, "", false
	}
	if outer != nil {
		if osz, ok := fixedSize(outer); !ok || osz != sz {
			return nil, "", false
		}
		it = outer
	}
	return it, ord, true
}

// prefixBase: the slice a prefix view b[:n] (or b[0:n]) shares its elements with, index for index.
func prefixBase(v *Val) *Val {
	for v != nil && v.Op == "slice" && len(v.Args) >= 3 && (v.Args[1] == nil || isZero(v.Args[1])) {
		v = stripCT(v.Args[0])
	}
	return v
}

// sameElement: element i1 of b1 is element i2 of b2 – the same slice (or a prefix view of it) at the same index, or
// views b[lo:…] of one slice at indices that differ by the views' offsets.
func sameElement(b1, i1, b2, i2 *Val) bool {
	off := func(v *Val) (*Val, *Affine) {
		o := affConst(0)
		v = stripCT(v)
		for v != nil && v.Op == "slice" && len(v.Args) >= 3 {
			if v.Args[1] != nil {
				o = o.Add(affOf(v.Args[1]), 1)
			}
			v = stripCT(v.Args[0])
		}
		return v, o
	}
	r1, o1 := off(b1)
	r2, o2 := off(b2)
	if r1 == nil || r2 == nil || r1.Key() != r2.Key() || o1.Top || o2.Top {
		return false
	}
	a1, a2 := o1.Add(affOf(i1), 1), o2.Add(affOf(i2), 1)
	return !a1.Top && !a2.Top && a1.Equal(a2)
}

// byteOrRune: v is of type byte (uint8) or rune (int32) – what a pad character is held in.
func byteOrRune(v *Val) bool {
	if v == nil || v.Type == nil {
		return false
	}
	b, ok := v.Type.Underlying().(*types.Basic)
	return ok && (b.Kind() == types.Uint8 || b.Kind() == types.Int32)
}
