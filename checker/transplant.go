package main

import (
	"go/constant"
	"go/token"
	"go/types"

	"golang.org/x/tools/go/ssa"
)

// Scratch buffers.
//
// A function may render part of its output into a bytes.Buffer of its own first (`var body bytes.Buffer;
// p.Body.Encode(&body)`), write the size of that part where the format wants it (`body.Len()`), and then append the
// scratch buffer's bytes to the real one (`buf.Write(body.Bytes())`, possibly skipped when Len() is 0). For the bytes
// that end up in the output this is the same as reserving the length field, appending the part in place and filling
// the reserved bytes in afterwards – the form the frame rules know. transplantScratch rewrites a path of the first
// form into the second, under conditions that make the two indistinguishable:
//
//   - the scratch buffer is a zero bytes.Buffer allocated by the function and only ever used through method calls or
//     handed to callees (never assigned, so it starts empty);
//   - everything that happens to it on the path is an append (numbers, bytes, nested Encode calls, loops and
//     alternatives of those), followed by observations (Len, Bytes) only;
//   - its bytes reach the output through exactly one Write of its whole Bytes() made after the last append – or the
//     path has established that its Len() is 0, in which case its appends wrote nothing and may be placed anywhere;
//   - at most one number written to the output before that point is its Len() (converted): that write becomes the
//     zero placeholder, and an in-place write of (end - start) over it is added after the transplanted appends.
//
// Every use of the scratch buffer's Len() on the path is replaced by that difference. A path that does not meet the
// conditions is left as it is (and the rules report what they see).
func (e *Engine) transplantScratch(p *Path) {
	if p.Trunc != "" {
		return
	}
	// candidate scratch buffers: buffers of top-level events rooted at a local allocation
	type cand struct {
		L   *Val
		key string
	}
	var cands []cand
	seen := map[string]bool{}
	for _, ev := range p.Events {
		if ev.Buf == nil {
			continue
		}
		b := stripIface(ev.Buf)
		if b == nil || b.Op != "alloc" || !isBufferType(b.Type) || seen[b.Key()] {
			continue
		}
		seen[b.Key()] = true
		cands = append(cands, cand{b, b.Key()})
	}
	for _, c := range cands {
		e.transplantOne(p, c.L)
	}
}

func freshLocalBuffer(L *Val) bool {
	al, ok := L.Aux.(*ssa.Alloc)
	if !ok || al.Referrers() == nil {
		return false
	}
	for _, r := range *al.Referrers() {
		switch u := r.(type) {
		case *ssa.DebugRef, *ssa.MakeInterface:
		case ssa.CallInstruction:
			_ = u
		default:
			return false // assigned, its fields addressed, stored somewhere: not followed
		}
	}
	return true
}

func onBuf(ev *Event, key string) bool {
	return ev.Buf != nil && stripIface(ev.Buf) != nil && stripIface(ev.Buf).Key() == key
}

// appendOnly: the event (with everything nested in it) only appends to the buffer with the given key.
func appendOnly(ev *Event, key string) bool {
	switch ev.Kind {
	case EvWriteInt, EvWriteBytes:
		return onBuf(ev, key) && !ev.Failed
	case EvObj:
		return onBuf(ev, key) && ev.Dir == "Encode" && !ev.Failed
	case EvRep, EvAlt:
		any := false
		for _, a := range ev.Iter {
			for _, x := range a.Events {
				switch x.Kind {
				case EvPanicSite, EvAlloc:
					continue
				}
				if !appendOnly(x, key) {
					return false
				}
				any = true
			}
		}
		return any && !ev.Partial
	}
	return false
}

func mentionsBuf(ev *Event, key string) bool {
	found := false
	walkEvents([]*Event{ev}, func(x *Event, _ int) {
		if onBuf(x, key) {
			found = true
		}
	})
	return found
}

func (e *Engine) transplantOne(p *Path, L *Val) {
	if !freshLocalBuffer(L) {
		return
	}
	key := L.Key()
	var appends []int   // indices of top-level appends to L
	var lens []*Event   // Len observations of L made after the last append
	var bytesObs []*Event
	lastAppend := -1
	for i, ev := range p.Events {
		if !mentionsBuf(ev, key) {
			continue
		}
		switch {
		case ev.Kind == EvLen && onBuf(ev, key):
			lens = append(lens, ev)
		case ev.Kind == EvBytes && onBuf(ev, key):
			bytesObs = append(bytesObs, ev)
		case appendOnly(ev, key):
			if len(lens) > 0 || len(bytesObs) > 0 {
				return // observed half-way: the observation is not the final size
			}
			appends = append(appends, i)
			lastAppend = i
		default:
			return // read from, reset, truncated, patched, failed: not an append-only scratch buffer
		}
	}
	isLen := func(v *Val) bool {
		v = stripCT(v)
		if v == nil {
			return false
		}
		if v.Op == "buflen" {
			for _, l := range lens {
				if l.ID == v.ID {
					return true
				}
			}
		}
		if v.Op == "len" && len(v.Args) == 1 {
			if b := stripCT(v.Args[0]); b != nil && b.Op == "bufbytes" {
				for _, l := range bytesObs {
					if l.ID == b.ID {
						return true
					}
				}
			}
		}
		return false
	}
	// the drain: one Write of the whole Bytes() of L to another buffer
	drain := -1
	for i, ev := range p.Events {
		if ev.Kind != EvWriteBytes || ev.Src == nil || onBuf(ev, key) {
			continue
		}
		s := stripCT(ev.Src)
		if s == nil || s.Op != "bufbytes" {
			if ev.Src.Contains(func(x *Val) bool { return x.Op == "bufbytes" && len(x.Args) == 1 && stripIface(x.Args[0]) != nil && stripIface(x.Args[0]).Key() == key }) {
				return // part of the scratch bytes, or something made of them
			}
			continue
		}
		if len(s.Args) != 1 || stripIface(s.Args[0]) == nil || stripIface(s.Args[0]).Key() != key {
			continue
		}
		if drain >= 0 || i < lastAppend || ev.Failed {
			return
		}
		drain = i
	}
	at := drain // where the appends go
	if drain < 0 {
		// no drain: only when the path has established that the scratch buffer is empty
		zc := -1
		for ci, c := range p.Conds {
			v := stripCT(c.V)
			if v == nil || v.Op != "binop" || len(v.Args) != 2 {
				continue
			}
			z, isC := v.Args[1].Int64()
			if !isLen(v.Args[0]) || !isC {
				continue
			}
			switch {
			case v.Name == ">" && z == 0 && !c.Taken, v.Name == "==" && z == 0 && c.Taken, v.Name == "!=" && z == 0 && !c.Taken,
				v.Name == "<=" && z == 0 && c.Taken, v.Name == "<" && z == 1 && c.Taken, v.Name == ">=" && z == 1 && !c.Taken:
				zc = ci
			}
		}
		if zc < 0 {
			return
		}
		at = len(p.Events)
		for i, ev := range p.Events {
			if ev.NCond > zc && i > lastAppend {
				at = i
				break
			}
		}
	}
	// the output buffer
	var B *Val
	if drain >= 0 {
		B = p.Events[drain].Buf
	} else {
		for _, ev := range p.Events {
			if (ev.Kind == EvWriteInt || ev.Kind == EvWriteBytes) && ev.Buf != nil && !onBuf(ev, key) && isRootBuf(ev.Buf) {
				B = ev.Buf
				break
			}
		}
	}
	if B == nil || !isRootBuf(B) {
		return
	}
	// the number written from the scratch buffer's size
	lenW := -1
	for i, ev := range p.Events {
		if i >= at {
			break
		}
		if ev.Kind == EvWriteInt && !onBuf(ev, key) && ev.Src != nil && isLen(stripIntConv(ev.Src)) {
			if lenW >= 0 || !isRootBuf(ev.Buf) || ev.Failed {
				return
			}
			lenW = i
		}
	}
	mk := func(tmpl *Event, k EvKind) *Event {
		return &Event{ID: e.id(), Kind: k, Pos: tmpl.Pos, Fn: tmpl.Fn, Site: tmpl.Site, Instr: tmpl.Instr, NCond: tmpl.NCond, Buf: B}
	}
	intT := types.Typ[types.Int]
	lenOf := func(ev *Event) *Val { return &Val{Op: "buflen", ID: ev.ID, Args: []*Val{B}, Type: intT} }
	// rebuild the event list
	var tmplAt *Event
	if at < len(p.Events) {
		tmplAt = p.Events[at]
	} else if len(p.Events) > 0 {
		tmplAt = p.Events[len(p.Events)-1]
	} else {
		return
	}
	isAppend := map[int]bool{}
	for _, i := range appends {
		isAppend[i] = true
	}
	var moved []*Event
	for _, i := range appends {
		moved = append(moved, retarget(p.Events[i], key, B, tmplAt.NCond))
	}
	mS, mE := mk(tmplAt, EvLen), mk(tmplAt, EvLen)
	body := affToVal(affOf(lenOf(mE)).Add(affOf(lenOf(mS)), -1))
	var mA *Event
	var out []*Event
	for i, ev := range p.Events {
		if i == at {
			out = append(out, mS)
			out = append(out, moved...)
			out = append(out, mE)
			if lenW >= 0 {
				lw := p.Events[lenW]
				w, _ := fixedSize(lw.IntType)
				bb := mk(tmplAt, EvBytes)
				bbv := &Val{Op: "bufbytes", ID: bb.ID, Args: []*Val{B}, Type: types.NewSlice(types.Typ[types.Uint8])}
				lo := lenOf(mA)
				hi := affToVal(affOf(lo).Add(affConst(w), 1))
				src := body
				if c := stripCT(lw.Src); c != nil && c.Op == "conv" {
					src = &Val{Op: "conv", Args: []*Val{body}, Type: c.Type}
				}
				patch := mk(tmplAt, EvPatch)
				patch.IntType, patch.Order, patch.Size = lw.IntType, lw.Order, mkInt(w)
				patch.Dst = &Val{Op: "slice", Args: []*Val{bbv, lo, hi, nil}, Type: bbv.Type}
				patch.Src = src
				out = append(out, bb, patch)
			}
		}
		if isAppend[i] || i == drain {
			continue
		}
		if i == lenW {
			mA = mk(ev, EvLen)
			ph := *ev
			ph.Src = mkConst(constant.MakeInt64(0), ev.IntType)
			out = append(out, mA, &ph)
			continue
		}
		out = append(out, ev)
	}
	if at >= len(p.Events) {
		out = append(out, mS)
		out = append(out, moved...)
		out = append(out, mE)
		if lenW >= 0 {
			return // (a length written but nothing after the branch to anchor the patch: leave the path alone)
		}
	}
	// every use of the scratch buffer's size is the size of what was transplanted
	sub := func(v *Val) *Val {
		if v == nil {
			return nil
		}
		return mapVal(v, func(x *Val) *Val {
			if isLen(x) {
				return body
			}
			return nil
		})
	}
	// (events are shared between the paths that have a common beginning: substitute in copies)
	var cloneSub func(ev *Event) *Event
	cloneSub = func(ev *Event) *Event {
		c := *ev
		c.Src, c.Dst, c.Size, c.Count, c.Recv, c.Inv = sub(ev.Src), sub(ev.Dst), sub(ev.Size), sub(ev.Count), sub(ev.Recv), sub(ev.Inv)
		if len(ev.Args) > 0 {
			c.Args = make([]*Val, len(ev.Args))
			for i := range ev.Args {
				c.Args[i] = sub(ev.Args[i])
			}
		}
		if len(ev.Iter) > 0 {
			c.Iter = nil
			for _, a := range ev.Iter {
				na := *a
				na.Events = nil
				for _, x := range a.Events {
					na.Events = append(na.Events, cloneSub(x))
				}
				c.Iter = append(c.Iter, &na)
			}
		}
		return &c
	}
	var out2 []*Event
	for _, ev := range out {
		if (ev.Kind == EvLen || ev.Kind == EvBytes) && onBuf(ev, key) {
			continue // the scratch buffer is gone from the path
		}
		if ev == mS || ev == mE || ev == mA {
			out2 = append(out2, ev) // (their IDs are what the substituted values refer to)
			continue
		}
		out2 = append(out2, cloneSub(ev))
	}
	out = out2
	conds := make([]Cond, len(p.Conds))
	for i, c := range p.Conds {
		c.V = sub(c.V)
		conds[i] = c
	}
	for i := range p.Ret {
		p.Ret[i] = sub(p.Ret[i])
	}
	p.Events, p.Conds = out, conds
	_ = token.NoPos
}

// mapVal rebuilds v with f applied top-down: where f returns a value, that value replaces the sub-term.
func mapVal(v *Val, f func(*Val) *Val) *Val {
	if v == nil {
		return nil
	}
	if r := f(v); r != nil {
		return r
	}
	changed := false
	args := make([]*Val, len(v.Args))
	for i, x := range v.Args {
		args[i] = mapVal(x, f)
		if args[i] != x {
			changed = true
		}
	}
	if !changed {
		return v
	}
	c := *v
	c.Args = args
	c.key = ""
	return &c
}

// retarget copies an append (and what is nested in it) onto another buffer.
func retarget(ev *Event, key string, B *Val, ncond int) *Event {
	c := *ev
	if onBuf(ev, key) {
		c.Buf = B
	}
	c.NCond = ncond
	if len(ev.Iter) > 0 {
		c.Iter = nil
		for _, a := range ev.Iter {
			na := *a
			na.Events = nil
			for _, x := range a.Events {
				na.Events = append(na.Events, retarget(x, key, B, x.NCond))
			}
			c.Iter = append(c.Iter, &na)
		}
	}
	return &c
}

// Sub-buffers over a block already taken.
//
// `hdr := bytes.NewBuffer(buf.Next(16))` followed by ordinary reads on hdr: the block is taken from the input in one
// step (its availability is the business of the Next rules) and picked apart on a buffer of its own. When the reads on
// the sub-buffer are successful reads of constant sizes that add up to exactly the block, nothing else uses the block,
// and the sub-buffer is used for nothing else, the path is the same as reading those fields from the input directly:
// transplantSubBuffer rewrites it so (the Next event goes, the reads move onto the input buffer). A path on which a
// read on the sub-buffer fails although the block still holds enough bytes for it does not exist: reported as
// infeasible (true).
func (e *Engine) transplantSubBuffer(p *Path) (infeasible bool) {
	if p.Trunc != "" {
		return false
	}
	for i0, e0 := range p.Events {
		if e0.Kind != EvReadBytes || e0.Mode != "Next" || e0.Failed || e0.Buf == nil || !isRootBuf(e0.Buf) {
			continue
		}
		n, isC := affOf(e0.Size).IsConst()
		if !isC || n <= 0 {
			continue
		}
		isSub := func(b *Val) bool {
			b = stripIface(b)
			if b == nil || b.Op != "call" || b.Name != "bytes.NewBuffer" || len(b.Args) != 1 {
				return false
			}
			v := stripCT(b.Args[0])
			return v != nil && v.Op == "bufnext" && len(v.Args) == 3 && stripCT(v.Args[2]) != nil && stripCT(v.Args[2]).Op == "wire" && stripCT(v.Args[2]).ID == e0.ID
		}
		var reads []int
		used, ok, dead := int64(0), true, false
		subKey := ""
		for i, ev := range p.Events {
			if i <= i0 {
				continue
			}
			nested := false
			if len(ev.Iter) > 0 {
				walkEvents(ev.Iter0Events(), func(x *Event, _ int) {
					if x.Buf != nil && isSub(x.Buf) {
						nested = true
					}
				})
			}
			if nested {
				ok = false
				break
			}
			if ev.Buf == nil || !isSub(ev.Buf) {
				continue
			}
			if subKey == "" {
				subKey = stripIface(ev.Buf).Key()
			} else if stripIface(ev.Buf).Key() != subKey {
				ok = false
				break
			}
			switch ev.Kind {
			case EvReadInt, EvReadBytes:
				k, isK := affOf(ev.Size).IsConst()
				if !isK || k < 0 || ev.Mode == "Next" {
					ok = false
				}
				if ev.Failed {
					if isK && used+k <= n {
						dead = true // the block holds these bytes: the read cannot fail
					}
					ok = false
				}
				used += k
				reads = append(reads, i)
			case EvLen, EvBytes:
				ok = false
			default:
				ok = false
			}
			if !ok {
				break
			}
		}
		if dead {
			return true
		}
		if !ok || len(reads) == 0 || used != n {
			continue
		}
		// the block itself is used for nothing else
		isRead := map[int]bool{}
		for _, i := range reads {
			isRead[i] = true
		}
		other := false
		uses := func(v *Val) bool {
			return v != nil && v.Contains(func(x *Val) bool { return x.Op == "wire" && x.ID == e0.ID })
		}
		walkEvents(p.Events, func(x *Event, _ int) {
			if x == e0 {
				return
			}
			if uses(x.Src) || uses(x.Dst) || uses(x.Size) || uses(x.Count) || uses(x.Recv) {
				other = true
			}
			for _, a := range x.Args {
				if uses(a) {
					other = true
				}
			}
		})
		for _, r := range p.Ret {
			if uses(r) {
				other = true
			}
		}
		if other {
			continue
		}
		var out []*Event
		for i, ev := range p.Events {
			if i == i0 {
				continue
			}
			if isRead[i] {
				c := *ev
				c.Buf = e0.Buf
				out = append(out, &c)
				continue
			}
			out = append(out, ev)
		}
		p.Events = out
		return e.transplantSubBuffer(p) // (another block further on)
	}
	return false
}
