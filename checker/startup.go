package main

import (
	"go/token"
	"go/types"
	"sort"
	"sync"

	"golang.org/x/tools/go/ssa"
)

// Start-up constants: package-level byte arrays whose contents are fixed once package initialisation is over.
//
// A `var blank [N]byte` that only init code writes (element by element, with constant indices and values once its
// loops are unrolled) and that every other function only copies whole or indexes for reading is a constant of the
// program for every codec call. Its bytes are established here by evaluating the one init function that writes it;
// anything that cannot be established exactly (a second writer, an address that escapes, a slice of the array, a
// value that is not a constant) leaves the array unknown, as before.

var startupMu sync.Mutex

type startupEntry struct {
	bytes []byte
	done  bool
}

func (p *Program) StartupBytes(g *ssa.Global) []byte {
	startupMu.Lock()
	if p.startup == nil {
		p.startup = map[*ssa.Global]*startupEntry{}
	}
	if en, ok := p.startup[g]; ok {
		startupMu.Unlock()
		if !en.done {
			return nil // being evaluated: the init code itself sees it as plain memory
		}
		return en.bytes
	}
	en := &startupEntry{}
	p.startup[g] = en
	startupMu.Unlock()
	b := p.computeStartupBytes(g)
	startupMu.Lock()
	en.bytes, en.done = b, true
	startupMu.Unlock()
	return b
}

func (p *Program) computeStartupBytes(g *ssa.Global) []byte {
	arr, ok := g.Type().(*types.Pointer).Elem().Underlying().(*types.Array)
	if !ok || arr.Len() <= 0 || arr.Len() > 4096 {
		return nil
	}
	if eb, isB := arr.Elem().Underlying().(*types.Basic); !isB || eb.Kind() != types.Uint8 {
		return nil
	}
	loadOnly := func(v ssa.Value) bool {
		for _, r := range *v.Referrers() {
			switch l := r.(type) {
			case *ssa.DebugRef:
			case *ssa.UnOp:
				if l.Op != token.MUL {
					return false
				}
			default:
				return false
			}
		}
		return true
	}
	writers := map[*ssa.Function]bool{}
	for fn := range p.AllFuncs {
		if fn.Blocks == nil || !p.InModule(fn) {
			continue
		}
		for _, b := range fn.Blocks {
			for _, in := range b.Instrs {
				uses := false
				for _, op := range in.Operands(nil) {
					if op != nil && *op == ssa.Value(g) {
						uses = true
					}
				}
				if !uses {
					continue
				}
				switch u := in.(type) {
				case *ssa.DebugRef:
				case *ssa.UnOp: // the whole array copied out
					if u.Op != token.MUL {
						return nil
					}
				case *ssa.IndexAddr:
					if u.X != ssa.Value(g) {
						return nil
					}
					if loadOnly(u) {
						continue
					}
					// an element written: init code only
					if !isInitFunc(fn) {
						return nil
					}
					for _, r := range *u.Referrers() {
						switch l := r.(type) {
						case *ssa.DebugRef:
						case *ssa.UnOp:
							if l.Op != token.MUL {
								return nil
							}
						case *ssa.Store:
							if l.Addr != ssa.Value(u) {
								return nil
							}
						default:
							return nil
						}
					}
					writers[fn] = true
				default:
					return nil // assigned whole, sliced, its address handed on: not followed here
				}
			}
		}
	}
	out := make([]byte, arr.Len())
	if len(writers) == 0 {
		return out
	}
	if len(writers) > 1 {
		return nil
	}
	var w *ssa.Function
	for fn := range writers {
		w = fn
	}
	if w.Name() == "init" {
		// the package initialiser itself: only straight-line element stores of constants are read off
		for _, b := range w.Blocks {
			for _, in := range b.Instrs {
				ia, ok := in.(*ssa.IndexAddr)
				if !ok || ia.X != ssa.Value(g) {
					continue
				}
				k, isC := ia.Index.(*ssa.Const)
				if !isC || len(w.Blocks) != 1 {
					return nil
				}
				for _, r := range *ia.Referrers() {
					if s, isS := r.(*ssa.Store); isS {
						c, isCV := s.Val.(*ssa.Const)
						if !isCV || c.Value == nil {
							return nil
						}
						out[k.Int64()] = byte(c.Uint64())
					}
				}
			}
		}
		return out
	}
	e := NewEngine(p)
	e.UnrollMax = 4096
	e.MaxPaths = 64
	paths, err := e.AnalyzeRoot(w, nil)
	if err != nil || len(paths) != 1 || paths[0].Trunc != "" || paths[0].Panic {
		return nil
	}
	type st struct {
		pos int
		k   int64
		v   byte
	}
	bad := false
	var stores []st
	n := 0
	walkEvents(paths[0].Events, func(ev *Event, depth int) {
		n++
		if ev.Kind != EvStore || ev.Dst == nil {
			return
		}
		r := addrRoot(ev.Dst)
		if r == nil || r.Op != "global" || r.Aux != any(g) {
			return
		}
		d := ev.Dst
		if depth != 0 || d.Op != "index" || len(d.Args) != 2 || d.Args[0].Op != "global" || ev.Src == nil {
			bad = true
			return
		}
		k, okK := d.Args[1].Int64()
		v, okV := stripCT(ev.Src).Int64()
		if !okK || !okV || k < 0 || k >= arr.Len() || v < 0 || v > 255 {
			bad = true
			return
		}
		stores = append(stores, st{n, k, byte(v)})
	})
	if bad {
		return nil
	}
	sort.SliceStable(stores, func(i, j int) bool { return stores[i].pos < stores[j].pos })
	for _, s := range stores {
		out[s.k] = s.v
	}
	return out
}
