package main

import (
	"fmt"
	"os"
	"go/token"
	"go/types"
	"sort"
	"sync"

	"golang.org/x/tools/go/ssa"
)

// Start-up constants: package-level byte arrays whose contents are fixed once package initialisation is over.
//
// A `var blank [N]byte` that only init code writes (element by element, with constant indices and values once its
// loops are unrolled) and that every other function only copies whole or indexes for reading is a constant of the
// program for every codec call. Its bytes are established here by evaluating the one init function that writes it;
// anything that cannot be established exactly (a second writer, an address that escapes, a slice of the array, a
// value that is not a constant) leaves the array unknown, as before.

var startupMu sync.Mutex

type startupEntry struct {
	bytes []byte
	done  bool
}

func (p *Program) StartupBytes(g *ssa.Global) []byte {
	startupMu.Lock()
	if p.startup == nil {
		p.startup = map[*ssa.Global]*startupEntry{}
	}
	if en, ok := p.startup[g]; ok {
		startupMu.Unlock()
		if !en.done {
			return nil // being evaluated: the init code itself sees it as plain memory
		}
		return en.bytes
	}
	en := &startupEntry{}
	p.startup[g] = en
	startupMu.Unlock()
	b := p.computeStartupBytes(g)
	startupMu.Lock()
	en.bytes, en.done = b, true
	startupMu.Unlock()
	return b
}

func (p *Program) computeStartupBytes(g *ssa.Global) []byte {
	arr, ok := g.Type().(*types.Pointer).Elem().Underlying().(*types.Array)
	if !ok {
		return nil
	}
	if eb, isB := arr.Elem().Underlying().(*types.Basic); !isB || eb.Kind() != types.Uint8 {
		return nil
	}
	vals := p.computeStartupInts(g, true)
	if vals == nil {
		return nil
	}
	out := make([]byte, len(vals))
	for i, v := range vals {
		out[i] = byte(v)
	}
	return out
}

// TableInts: the contents of a package-level array of integers after the one function that writes it element by
// element has run (an init function, the package initialiser, or the body of a sync.Once) – nil when that cannot be
// established exactly. Whether the table is complete before it is read, and never written afterwards, is not decided
// here (C14 H2 / C20 do that).
func (p *Program) TableInts(g *ssa.Global) []int64 {
	startupMu.Lock()
	if p.tables == nil {
		p.tables = map[*ssa.Global][]int64{}
	}
	if v, ok := p.tables[g]; ok {
		startupMu.Unlock()
		return v
	}
	startupMu.Unlock()
	v := p.computeStartupInts(g, false)
	startupMu.Lock()
	p.tables[g] = v
	startupMu.Unlock()
	return v
}

// computeStartupInts: strict – only init code may write, nothing but whole copies and element reads elsewhere (what
// makes the array a constant for every other function); otherwise any single writer function is evaluated.
func (p *Program) computeStartupInts(g *ssa.Global, strict bool) []int64 {
	arr, ok := g.Type().(*types.Pointer).Elem().Underlying().(*types.Array)
	if !ok || arr.Len() <= 0 || arr.Len() > 4096 {
		return nil
	}
	eb, isB := arr.Elem().Underlying().(*types.Basic)
	if !isB || eb.Info()&types.IsInteger == 0 {
		return nil
	}
	loadOnly := func(v ssa.Value) bool {
		for _, r := range *v.Referrers() {
			switch l := r.(type) {
			case *ssa.DebugRef:
			case *ssa.UnOp:
				if l.Op != token.MUL {
					return false
				}
			default:
				return false
			}
		}
		return true
	}
	writers := map[*ssa.Function]bool{}
	var wholeFrom *ssa.Function // the function whose result the initialiser assigns to g as a whole
	var literal []int64         // … or the composite literal it assigns
	for fn := range p.AllFuncs {
		if fn.Blocks == nil || !p.InModule(fn) {
			continue
		}
		for _, b := range fn.Blocks {
			for _, in := range b.Instrs {
				uses := false
				for _, op := range in.Operands(nil) {
					if op != nil && *op == ssa.Value(g) {
						uses = true
					}
				}
				if !uses {
					continue
				}
				switch u := in.(type) {
				case *ssa.DebugRef:
				case *ssa.UnOp: // the whole array copied out
					if u.Op != token.MUL {
						return nil
					}
				case *ssa.IndexAddr:
					if u.X != ssa.Value(g) {
						return nil
					}
					if loadOnly(u) {
						continue
					}
					// an element written: init code only
					if strict && !isInitFunc(fn) {
						return nil
					}
					for _, r := range *u.Referrers() {
						switch l := r.(type) {
						case *ssa.DebugRef:
						case *ssa.UnOp:
							if l.Op != token.MUL {
								return nil
							}
						case *ssa.Store:
							if l.Addr != ssa.Value(u) {
								return nil
							}
						default:
							return nil
						}
					}
					writers[fn] = true
				case *ssa.Return:
					if strict {
						return nil
					}
				case *ssa.Store:
					// assigned whole by the package initialiser from a parameterless function (`var t = func() [N]T {…}()`)
					if u.Addr != ssa.Value(g) || !isInitFunc(fn) || fn.Name() != "init" || wholeFrom != nil || literal != nil {
						return nil
					}
					if ld, isLd := u.Val.(*ssa.UnOp); isLd && ld.Op == token.MUL {
						// a composite literal: built element by element in a temporary, then copied
						al, isAl := ld.X.(*ssa.Alloc)
						if !isAl {
							return nil
						}
						lit := make([]int64, arr.Len())
						for _, r := range *al.Referrers() {
							switch x := r.(type) {
							case *ssa.DebugRef:
							case *ssa.UnOp:
								if x != ld {
									return nil
								}
							case *ssa.IndexAddr:
								k, isC := x.Index.(*ssa.Const)
								if !isC || x.X != ssa.Value(al) {
									return nil
								}
								for _, r2 := range *x.Referrers() {
									st, isSt := r2.(*ssa.Store)
									if !isSt || st.Addr != ssa.Value(x) {
										return nil
									}
									c, isCV := st.Val.(*ssa.Const)
									if !isCV || c.Value == nil || k.Int64() < 0 || k.Int64() >= arr.Len() {
										return nil
									}
									lit[k.Int64()] = c.Int64()
								}
							default:
								return nil
							}
						}
						literal = lit
						continue
					}
					call, isCall := u.Val.(*ssa.Call)
					if !isCall || len(call.Call.Args) != 0 || call.Call.StaticCallee() == nil {
						return nil
					}
					wholeFrom = call.Call.StaticCallee()
				default:
					return nil // sliced, its address handed on: not followed here
				}
			}
		}
	}
	out := make([]int64, arr.Len())
	if literal != nil {
		if len(writers) != 0 {
			return nil
		}
		return literal
	}
	if wholeFrom != nil {
		if len(writers) != 0 {
			return nil
		}
		return p.evalArrayResult(wholeFrom, arr.Len())
	}
	if len(writers) == 0 {
		return out
	}
	if len(writers) > 1 {
		return nil
	}
	var w *ssa.Function
	for fn := range writers {
		w = fn
	}
	if w.Name() == "init" {
		// the package initialiser itself: only straight-line element stores of constants are read off
		for _, b := range w.Blocks {
			for _, in := range b.Instrs {
				ia, ok := in.(*ssa.IndexAddr)
				if !ok || ia.X != ssa.Value(g) {
					continue
				}
				k, isC := ia.Index.(*ssa.Const)
				if !isC {
					return nil
				}
				for _, r := range *ia.Referrers() {
					if s, isS := r.(*ssa.Store); isS {
						c, isCV := s.Val.(*ssa.Const)
						if !isCV || c.Value == nil {
							return nil
						}
						out[k.Int64()] = c.Int64()
					}
				}
			}
		}
		return out
	}
	e := NewEngine(p)
	e.UnrollMax = 4096
	e.MaxPaths = 64
	paths, err := e.AnalyzeRoot(w, nil)
	if err != nil || len(paths) != 1 || paths[0].Trunc != "" || paths[0].Panic {
		return nil
	}
	type st struct {
		pos int
		k   int64
		v   int64
	}
	bad := false
	var stores []st
	n := 0
	walkEvents(paths[0].Events, func(ev *Event, depth int) {
		n++
		if ev.Kind != EvStore || ev.Dst == nil {
			return
		}
		r := addrRoot(ev.Dst)
		if r == nil || r.Op != "global" || r.Aux != any(g) {
			return
		}
		d := ev.Dst
		if depth != 0 || d.Op != "index" || len(d.Args) != 2 || d.Args[0].Op != "global" || ev.Src == nil {
			bad = true
			return
		}
		k, okK := d.Args[1].Int64()
		v, okV := stripCT(ev.Src).Int64()
		if !okK || !okV || k < 0 || k >= arr.Len() {
			bad = true
			return
		}
		stores = append(stores, st{n, k, v})
	})
	if bad {
		return nil
	}
	sort.SliceStable(stores, func(i, j int) bool { return stores[i].pos < stores[j].pos })
	for _, s := range stores {
		out[s.k] = s.v
	}
	return out
}

// evalArrayResult: the array a parameterless function returns, when it is a local array the function fills element
// by element with constants (after unrolling) and returns whole.
func (p *Program) evalArrayResult(fn *ssa.Function, n int64) []int64 {
	if fn.Blocks == nil || len(fn.Params) != 0 || len(fn.FreeVars) != 0 {
		return nil
	}
	// the returned value must be the load of one local array on every return
	var res *ssa.Alloc
	for _, b := range fn.Blocks {
		ret, ok := b.Instrs[len(b.Instrs)-1].(*ssa.Return)
		if !ok {
			continue
		}
		if len(ret.Results) != 1 {
			return nil
		}
		ld, ok := ret.Results[0].(*ssa.UnOp)
		if !ok || ld.Op != token.MUL {
			return nil
		}
		al, ok := ld.X.(*ssa.Alloc)
		if !ok || (res != nil && res != al) {
			return nil
		}
		res = al
	}
	if res == nil {
		return nil
	}
	e := NewEngine(p)
	e.UnrollMax = 4096
	e.MaxPaths = 64
	paths, err := e.AnalyzeRoot(fn, nil)
	if os.Getenv("FPDEBUG") == "crc" {
		fmt.Fprintln(os.Stderr, "evalArrayResult", fn, "paths", len(paths), "err", err)
		for _, pp := range paths {
			fmt.Fprintln(os.Stderr, "  trunc", pp.Trunc, "panic", pp.Panic, "mem", len(pp.Mem), "conds", len(pp.Conds), "events", len(pp.Events))
			for i, ev := range pp.Events {
				if i < 6 {
					fmt.Fprintln(os.Stderr, "    ", ev.String())
				}
			}
			for k, me := range pp.Mem {
				fmt.Fprintln(os.Stderr, "    mem", k, "=", me.V.Pretty())
			}
		}
	}
	if err != nil || len(paths) != 1 || paths[0].Trunc != "" || paths[0].Panic {
		return nil
	}
	out := make([]int64, n)
	whole := map[int64]int64{}
	defer func() {
		for k, v := range whole {
			out[k] = v
		}
	}()
	for _, me := range paths[0].Mem {
		a := me.Addr
		if a == nil || a.Op != "index" || len(a.Args) != 2 || a.Args[0].Op != "alloc" || a.Args[0].Aux != any(res) {
			if a != nil && a.Op == "alloc" && a.Aux == any(res) {
				// assigned whole (`return t` with a named result stores the result back): the aggregate of its elements
				v := stripCT(me.V)
				if v == nil || v.Op != "array" || int64(len(v.Args)) != n {
					if v != nil && v.Op == "zero" {
						continue
					}
					return nil
				}
				for k, x := range v.Args {
					c, okV := stripCT(x).Int64()
					if !okV {
						return nil
					}
					whole[int64(k)] = c
				}
			}
			continue
		}
		k, okK := a.Args[1].Int64()
		v, okV := stripCT(me.V).Int64()
		if !okK || !okV || k < 0 || k >= n {
			return nil
		}
		out[k] = v
	}
	return out
}
