package main

import (
	"golang.org/x/tools/go/callgraph"
	"os"
	"go/constant"
	"sync/atomic"
	"go/token"
	"fmt"
	"go/types"
	"sort"
	"strings"
	"sync"

	"golang.org/x/tools/go/ssa"
)

type PathLayout struct {
	Path    *Path
	Layout  *Layout
	Conds   string
	BodyNil bool // frame encode path on which the dynamic body was nil and skipped
}

type TypeResult struct {
	CT       *CodecType
	EncPaths []*Path
	DecPaths []*Path
	EncErr   error
	DecErr   error
	Enc      []*PathLayout // success paths
	Dec      []*PathLayout
	Pruned   int // success paths dropped under the registry start-up assumption
	EncUnregistered []*PathLayout // … their layouts (the computed length is judged on them as well)
}

// Analysis holds everything the rules share.
type Analysis struct {
	P       *Program
	U       *Universe
	Results map[string]*TypeResult
	// registry facts
	RegistryStartup bool     // no non-init function of the module (outside tests) mutates the checksum registry
	RegistryMutCall []string // offending call sites otherwise
	fixedSizes      map[string][2]int64
	mu              sync.Mutex
	gfOnce          sync.Once
	gf              *globalFactsT
	pinnedOnce      sync.Once
	pinned          map[string]string // table of the tree -> table of the pinned schema it stands for
	errGlobals      map[*ssa.Global]bool
	dynCalleeOnce   sync.Once
	vta             *callgraph.Graph
	ptrGlobalsOnce  sync.Once
	ptrGlobals      map[*ssa.Global]bool
}

func pathKind(p *Path) string {
	if p.Trunc != "" {
		return "trunc"
	}
	if p.Panic {
		return "panic"
	}
	if len(p.Ret) == 0 {
		return "ok"
	}
	last := p.Ret[len(p.Ret)-1]
	if !isErrorType(last.Type) && !(last.Op == "nonnil") {
		return "ok"
	}
	switch nilness(last) {
	case -1:
		return "ok"
	case +1:
		return "err"
	}
	return "maybe"
}

func isErrorType(t types.Type) bool {
	if t == nil {
		return false
	}
	return types.Identical(t, types.Universe.Lookup("error").Type())
}

func condString(cs []Cond) string {
	var s []string
	for _, c := range cs {
		s = append(s, c.String())
	}
	return strings.Join(s, " && ")
}

func (a *Analysis) engineFor(root *ssa.Function) *Engine {
	e := NewEngine(a.P)
	e.IsCodecMethod = func(f *ssa.Function) bool { return f != root && a.U.IsCodecMethod(f) }
	e.NonNilGlobals = a.nonNilErrGlobals()
	e.NonNilPtrGlobals = a.nonNilPtrGlobals()
	e.ObjSize = func(ev *Event) (int64, bool) {
		if ev.Callee == nil || ev.ObjType == nil {
			return 0, false // a dynamic part: its type, and so its size, is not fixed
		}
		ct := a.U.TypeOf(ev.ObjType)
		if ct == nil || ct.Encode == root || ct.Decode == root {
			return 0, false
		}
		return a.fixedWireSize(ct, 0)
	}
	return e
}

// fixedWireSize: the number of bytes every value of the codec type occupies on the wire, when its layout consists of
// numbers, fixed-width texts and nested parts of fixed size only – and Encode and Decode agree on it.
func (a *Analysis) fixedWireSize(ct *CodecType, depth int) (int64, bool) {
	if depth > 4 {
		return 0, false
	}
	a.mu.Lock()
	if a.fixedSizes == nil {
		a.fixedSizes = map[string][2]int64{}
	}
	if v, ok := a.fixedSizes[ct.Name]; ok {
		a.mu.Unlock()
		return v[0], v[1] == 1
	}
	a.fixedSizes[ct.Name] = [2]int64{0, 0} // (cycles: unknown)
	a.mu.Unlock()
	size := func(l *Layout) (int64, bool) {
		var n int64
		for _, f := range l.Fields {
			switch f.Kind {
			case "int":
				b := typeBytes(f.Type)
				if b == 0 {
					return 0, false
				}
				n += b
			case "fixed":
				if f.Width <= 0 {
					return 0, false
				}
				n += f.Width
			case "obj":
				sub := a.U.TypeByName[f.Obj]
				if sub == nil {
					return 0, false
				}
				k, ok := a.fixedWireSize(sub, depth+1)
				if !ok {
					return 0, false
				}
				n += k
			default:
				return 0, false
			}
		}
		return n, true
	}
	tl := a.Layouts(ct)
	res := [2]int64{0, 0}
	if tl.EncMain != nil && tl.DecMain != nil && len(tl.Problems) == 0 && len(tl.EncAll) == 1 {
		ne, ok1 := size(tl.EncMain.Layout)
		nd, ok2 := size(tl.DecMain.Layout)
		if ok1 && ok2 && ne == nd {
			res = [2]int64{ne, 1}
		}
	}
	a.mu.Lock()
	a.fixedSizes[ct.Name] = res
	a.mu.Unlock()
	return res[0], res[1] == 1
}

// registryMiss: path took the not-found arm of a registry lookup with a constant name.
func (a *Analysis) registryMiss(p *Path) (string, bool) {
	if n, ok := a.registryMissConds(p.Conds); ok {
		return n, true
	}
	// the alternatives of an inlined accessor that all amount to "not found" (absent, or present but nil)
	for _, e := range p.Events {
		if e.Kind != EvAlt || len(e.Iter) == 0 {
			continue
		}
		name, all := "", true
		for _, arm := range e.Iter {
			n, ok := a.registryMissConds(arm.Conds)
			if !ok || (name != "" && n != name) {
				all = false
				break
			}
			name = n
		}
		if all {
			return name, true
		}
	}
	return "", false
}

func (a *Analysis) registryMissConds(conds []Cond) (string, bool) {
	for _, c := range conds {
		v := c.V
		if v.Op == "lookupok" && !c.Taken {
			if k := v.Args[1]; k.IsConst() && k.C != nil && a.isRegistryMap(v.Args[0]) {
				return strings.Trim(k.C.ExactString(), "\""), true
			}
		}
		// "the service found under a constant name is nil": the start-up registrations store fresh objects
		if v.Op == "binop" && len(v.Args) == 2 && ((v.Name == "==" && c.Taken) || (v.Name == "!=" && !c.Taken)) {
			for side := 0; side < 2; side++ {
				x := stripIface(stripCT(v.Args[side]))
				if v.Args[1-side].IsNilConst() && x.Op == "lookup" && len(x.Args) == 2 && x.Args[1].IsConst() && x.Args[1].C != nil && a.isRegistryMap(x.Args[0]) {
					return strings.Trim(x.Args[1].C.ExactString(), "\""), true
				}
			}
		}
		// a checked assertion on the service found under a constant name fails: like a miss, infeasible under the
		// start-up assumption when the service registered under that name implements the asserted interface
		if v.Op == "tassert" && v.Name == "ok" && !c.Taken && len(v.Args) == 1 {
			x := stripCT(v.Args[0])
			if x.Op == "lookup" && len(x.Args) == 2 && x.Args[1].IsConst() && x.Args[1].C != nil && a.isRegistryMap(x.Args[0]) {
				name := strings.Trim(x.Args[1].C.ExactString(), "\"")
				if svc := a.U.ServiceByName(name); svc != nil {
					if at, ok := v.Aux.(types.Type); ok {
						if it, isI := at.Underlying().(*types.Interface); isI && types.Implements(types.NewPointer(svc.Type), it) {
							return name, true
						}
					}
				}
			}
		}
	}
	return "", false
}

func (a *Analysis) isRegistryMap(m *Val) bool {
	r := addrRoot(stripCT(m))
	for r != nil && (r.Op == "init" || (r.Op == "call" && len(r.Args) > 0) || (r.Op == "atomicload" && len(r.Args) > 0) || r.Op == "tassert" || r.Op == "conv") {
		// follow loads, accessor calls (e.g. an atomic pointer's Load) and conversions back to the variable they start from
		r = addrRoot(stripCT(r.Args[0]))
	}
	if r == nil || r.Op != "global" {
		return false
	}
	g, ok := r.Aux.(*ssa.Global)
	if !ok || !a.inCodecTree(g.Pkg) {
		return false
	}
	_, isTable := a.U.TableByVar[g]
	return !isTable
}

func NewAnalysis(p *Program, u *Universe) *Analysis {
	a := &Analysis{P: p, U: u, Results: map[string]*TypeResult{}}
	a.computeRegistryAssumption()
	return a
}

// computeRegistryAssumption: which module functions mutate the registry map, and who calls them.
func (a *Analysis) computeRegistryAssumption() {
	p := a.P
	mut := map[*ssa.Function]bool{}
	for fn := range p.AllFuncs {
		if !a.inCodecTree(fn.Pkg) || fn.Blocks == nil || p.IsTestFile(fn.Pos()) {
			continue
		}
		for _, b := range fn.Blocks {
			for _, in := range b.Instrs {
				switch in := in.(type) {
				case *ssa.MapUpdate:
					if _, isTbl := isFactoryMap(in.Map.Type(), a.U.BinaryCodecIface); !isTbl {
						mut[fn] = true
					}
				case *ssa.Call:
					if b, ok := in.Call.Value.(*ssa.Builtin); ok && (b.Name() == "delete" || b.Name() == "clear") {
						mut[fn] = true
					}
					// replacing a table published through an atomic pointer
					if callee := in.Call.StaticCallee(); callee != nil && strings.HasPrefix(fullName(callee), "(*sync/atomic.Pointer[") && !strings.HasSuffix(fullName(callee), ".Load") {
						mut[fn] = true
					}
				case *ssa.Store:
					if fa, ok := in.Addr.(*ssa.FieldAddr); ok {
						if _, isMap := fa.Type().(*types.Pointer).Elem().Underlying().(*types.Map); isMap {
							mut[fn] = true
						}
					}
				}
			}
		}
	}
	// wrappers: a function that calls a mutator is itself part of the mutating API (Registry -> ctx.register …)
	for changed := true; changed; {
		changed = false
		for fn := range p.AllFuncs {
			if !p.InModule(fn) || fn.Blocks == nil || p.IsTestFile(fn.Pos()) || isInitFunc(fn) || mut[fn] {
				continue
			}
			if !a.inCodecTree(fn.Pkg) {
				continue
			}
			for _, b := range fn.Blocks {
				for _, in := range b.Instrs {
					if c, ok := in.(ssa.CallInstruction); ok {
						if callee := c.Common().StaticCallee(); callee != nil && mut[callee] && !mut[fn] {
							mut[fn] = true
							changed = true
						}
					}
				}
			}
		}
	}
	// the assumption fails only if module code outside that API (and outside init) calls into it
	a.RegistryStartup = true
	for fn := range p.AllFuncs {
		if !p.InModule(fn) || fn.Blocks == nil || p.IsTestFile(fn.Pos()) || isInitFunc(fn) || mut[fn] {
			continue
		}
		for _, b := range fn.Blocks {
			for _, in := range b.Instrs {
				if c, ok := in.(ssa.CallInstruction); ok {
					if callee := c.Common().StaticCallee(); callee != nil && mut[callee] {
						a.RegistryStartup = false
						a.RegistryMutCall = append(a.RegistryMutCall, fmt.Sprintf("%s calls %s at %s", FuncName(fn), FuncName(callee), p.Pos(in.Pos())))
					}
				}
			}
		}
	}
	sort.Strings(a.RegistryMutCall)
}

func (a *Analysis) Result(ct *CodecType) *TypeResult {
	a.mu.Lock()
	if r, ok := a.Results[ct.Name]; ok {
		a.mu.Unlock()
		return r
	}
	a.mu.Unlock()
	r := &TypeResult{CT: ct}
	r.EncPaths, r.EncErr = a.engineFor(ct.Encode).AnalyzeRoot(ct.Encode, nil)
	r.EncPaths = expandFrameAlts(r.EncPaths)
	r.EncPaths = splitPatchedZeroBlocks(r.EncPaths)
	r.DecPaths, r.DecErr = a.engineFor(ct.Decode).AnalyzeRoot(ct.Decode, nil)
	for _, p := range r.EncPaths {
		if pathKind(p) != "ok" {
			continue
		}
		if name, miss := a.registryMiss(p); miss && a.RegistryStartup && a.U.ServiceByName(name) != nil {
			r.Pruned++
			// (kept aside: what a frame does with its computed length must not depend on what the registry holds)
			r.EncUnregistered = append(r.EncUnregistered, a.encLayout(ct, p))
			continue
		}
		r.Enc = append(r.Enc, a.encLayout(ct, p))
	}
	for _, p := range r.DecPaths {
		if pathKind(p) != "ok" {
			continue
		}
		r.Dec = append(r.Dec, a.decLayout(ct, p))
	}
	a.mu.Lock()
	a.Results[ct.Name] = r
	a.mu.Unlock()
	return r
}

// AllResults analyses every codec type (in parallel).
func (a *Analysis) AllResults() []*TypeResult {
	var wg sync.WaitGroup
	sem := make(chan struct{}, 16)
	out := make([]*TypeResult, len(a.U.Types))
	for i, ct := range a.U.Types {
		wg.Add(1)
		sem <- struct{}{}
		go func(i int, ct *CodecType) {
			defer wg.Done()
			out[i] = a.Result(ct)
			<-sem
		}(i, ct)
	}
	wg.Wait()
	return out
}

func (a *Analysis) encLayout(ct *CodecType, p *Path) *PathLayout {
	c := &layoutCtx{u: a.U, ct: ct, path: p}
	fs := c.extractEnc(p.Events)
	fs = a.collapseNestedRuns(ct, c, fs, true)
	pl := &PathLayout{Path: p, Layout: &Layout{Fields: fs}, Conds: condString(p.Conds)}
	stores := storeTargets(p.Events)
	// objects materialised on this path: which field received them
	for _, f := range fs {
		if (f.Kind == "dyn" || f.Kind == "obj") && f.GoField < 0 && f.RecvVal != nil {
			for idx, st := range stores {
				if stripCT(st.Src).Key() == stripCT(f.RecvVal).Key() || stripIface(st.Src).Key() == stripCT(f.RecvVal).Key() {
					f.GoField, f.Name = idx, c.fieldName(idx)
				}
			}
		}
	}
	// computed length: PATCH over the bytes of a constant placeholder
	for _, e := range p.Events {
		if e.Kind != EvPatch {
			continue
		}
		dst := flattenSlice(e.Dst)
		if dst.Op != "slice" || dst.Args[1] == nil {
			continue
		}
		if f := fieldAtCut(p, fs, dst.Args[1]); f != nil && f.Kind == "const" && f.Order == "zero" && !e.Src.Contains(func(x *Val) bool { return x.Op == "buflen" || x.Op == "bufbytes" }) {
			// a placeholder filled in afterwards with a value that is not computed from the buffer (a header written
			// last): the field is that value's field, rendered as the in-place write renders it
			tmp := *e
			tmp.Kind, tmp.Size = EvWriteInt, mkInt(typeBytes(typeStr(e.IntType)))
			if sub := c.extractEnc([]*Event{&tmp}); len(sub) == 1 && sub[0].Kind == "int" {
				pos, evs, wids := f.Pos, f.Ev, f.WireIDs
				*f = *sub[0]
				f.Pos, f.Ev, f.WireIDs = pos, append(evs, e), wids
				f.Patched = true
				continue
			}
		}
		if f := fieldAtCut(p, fs, dst.Args[1]); f != nil && f.Kind == "const" {
			f.Kind = "len"
			f.Note = ""
			if f.Order == "zero" {
				// a placeholder of zero bytes has no byte order of its own: the patch decides how the field is rendered
				f.Order, f.Type = e.Order, typeStr(e.IntType)
			}
			for idx, st := range stores {
				if st.Src.Key() == e.Src.Key() {
					f.GoField, f.Name = idx, c.fieldName(idx)
				}
			}
		}
	}
	// checksum: value comes from a service Calc; name the field it is stored in
	for _, f := range fs {
		if f.Kind != "checksum" {
			continue
		}
		src := stripSameWidth(f.Ev[0].Src)
		f.Algo = calcAlgo(src)
		for idx, st := range stores {
			if st.Src.Key() == src.Key() || stripSameWidth(st.Src).Key() == src.Key() { // (the field may have a named number type)
				f.GoField, f.Name = idx, c.fieldName(idx)
			}
		}
	}
	// body nil & skipped?
	for _, cd := range p.Conds {
		v := cd.V
		if v.Op == "binop" && (v.Name == "!=" || v.Name == "==") && v.Args[1].IsNilConst() {
			if idx, ok := recvField(v.Args[0]); ok {
				isNil := (v.Name == "==") == cd.Taken
				if isNil && !layoutHasField(fs, idx) {
					pl.BodyNil = true
				}
			}
		}
	}
	return pl
}

func layoutHasField(fs []*FieldLayout, idx int) bool {
	for _, f := range fs {
		if f.GoField == idx {
			return true
		}
	}
	return false
}

// calcAlgo: the constant registry name a calc value's service was looked up under.
func calcAlgo(v *Val) string {
	name := ""
	v.Walk(func(x *Val) bool {
		if x.Op == "lookup" && len(x.Args) == 2 && x.Args[1].IsConst() && x.Args[1].C != nil {
			name = strings.Trim(x.Args[1].C.ExactString(), "\"")
			return false
		}
		return true
	})
	return name
}

// fieldAtCut: the layout field whose first event is the top-level wire event that starts at buffer position v
// (a buf.Len() observation plus a constant).
func fieldAtCut(p *Path, fs []*FieldLayout, v *Val) *FieldLayout {
	ix := indexPath(p)
	pos, _, ok := ix.cutOf(v)
	if !ok {
		return nil
	}
	for _, e := range p.Events {
		if countsAsWire(e) && ix.wirePos[e] == pos {
			for _, f := range fs {
				if len(f.Ev) > 0 && f.Ev[0] == e {
					return f
				}
			}
			return nil
		}
	}
	return nil
}

// fieldAfterMarker: the layout field whose first event is the first wire event after LEN marker id.
func fieldAfterMarker(evs []*Event, fs []*FieldLayout, marker int) *FieldLayout {
	seen := false
	for _, e := range evs {
		if e.Kind == EvLen && e.ID == marker {
			seen = true
			continue
		}
		if seen && countsAsWire(e) {
			for _, f := range fs {
				if len(f.Ev) > 0 && f.Ev[0] == e {
					return f
				}
			}
			return nil
		}
	}
	return nil
}

func (a *Analysis) decLayout(ct *CodecType, p *Path) *PathLayout {
	c := &layoutCtx{u: a.U, ct: ct, path: p}
	var stores, nestedStores []*Event
	for _, e := range p.Events {
		if e.Kind == EvStore {
			if _, ok := recvFieldAddr(e.Dst); ok {
				stores = append(stores, e)
			} else if _, _, ok := nestedFieldAddr(e.Dst); ok {
				nestedStores = append(nestedStores, e)
			}
		}
	}
	c.nested = map[string][2]int{}
	sink := func(ids []int, loop int) (string, int, *Val, bool) {
		for _, st := range stores {
			idx, _ := recvFieldAddr(st.Dst)
			src := st.Src
			if len(st.Args) == 1 && st.Args[0] != nil {
				src = st.Args[0]
			}
			for _, id := range ids {
				if containsWire(src, id) {
					return c.fieldName(idx), idx, src, true
				}
			}
			if loop != 0 && containsCollect(src, loop) {
				return c.fieldName(idx), idx, src, true
			}
		}
		// a field of a nested part read inline (named X.#i until the run is recognised as the part's own layout)
		for _, st := range nestedStores {
			o, in, _ := nestedFieldAddr(st.Dst)
			src := st.Src
			if len(st.Args) == 1 && st.Args[0] != nil {
				src = st.Args[0]
			}
			hit := loop != 0 && containsCollect(src, loop)
			for _, id := range ids {
				if containsWire(src, id) {
					hit = true
				}
			}
			if hit {
				if tag, okE := c.promotedName(o, in); okE {
					return tag, o, src, true
				}
				name := fmt.Sprintf("%s.#%d", c.fieldName(o), in)
				c.nested[name] = [2]int{o, in}
				return name, o, src, true
			}
		}
		return "", -1, nil, false
	}
	c.zeroList = func(ev *Event) (string, int, bool) {
		if !zeroCountArm(&Arm{Conds: p.Conds}, ev) {
			return "", -1, false
		}
		after := false
		var hit *Event
		walkEvents(p.Events, func(e *Event, d int) {
			if e == ev {
				after = true
			}
			if !after || hit != nil || d != 0 || e.Kind != EvStore {
				return
			}
			if _, ok := recvFieldAddr(e.Dst); ok && freshEmptySlice(e.Src) {
				hit = e
			}
		})
		if hit == nil {
			return "", -1, false
		}
		idx, _ := recvFieldAddr(hit.Dst)
		return c.fieldName(idx), idx, true
	}
	c.tiles = func(ev *Event, n int64) []*FieldLayout {
		type tile struct {
			lo, sz int64
			f      *FieldLayout
		}
		var ts []tile
		for _, st := range stores {
			idx, _ := recvFieldAddr(st.Dst)
			if !containsWire(st.Src, ev.ID) {
				continue
			}
			lo, it, ord, ok := manualIntAt(st.Src, ev.ID)
			if !ok {
				// a single byte of the block: rec[k]
				if el := stripCT(st.Src); el.Op == "elem" && len(el.Args) == 2 {
					base, bhi, okW := wireOffset(el.Args[0], ev.ID)
					if k, isC := el.Args[1].Int64(); isC && okW && k >= 0 && (bhi < 0 || base+k < bhi) {
						k += base
						ts = append(ts, tile{k, 1, &FieldLayout{Kind: "int", Type: "uint8", Name: c.fieldName(idx), GoField: idx, Pos: rootPos(ev), Ev: []*Event{ev}, WireIDs: []int{ev.ID}}})
						continue
					}
				}
				// a text cut out of the block: f(rec[a:b]) with constant bounds, judged as a fixed-width text of b-a bytes
				if a0, b0, sub, okT := textTileOf(st.Src, ev.ID); okT {
					tl := map[int]*Event{}
					for k, l := range c.loops() {
						tl[k] = l
					}
					tl[tileBaseKey] = &Event{Recv: sub}
					ops, trim, pad, isByte := valuePath(st.Src, ev.ID, true, tl)
					f := &FieldLayout{Kind: "fixed", Width: b0 - a0, Name: c.fieldName(idx), GoField: idx, Pos: rootPos(ev), Ev: []*Event{ev}, WireIDs: []int{ev.ID}, ValueOps: ops, Side: trim}
					if pad != nil {
						if isByte {
							f.Pad = padString(pad)
						} else {
							f.Pad = cutsetByte(pad)
						}
					}
					ts = append(ts, tile{a0, b0 - a0, f})
				}
				continue // some other use of a number taken from these bytes (a look-up key …); the tiling below must still be complete
			}
			sz, _ := fixedSize(it)
			if sz == 1 {
				ord = ""
			}
			ts = append(ts, tile{lo, sz, &FieldLayout{Kind: "int", Type: wireTypeStr(it), Order: ord, Name: c.fieldName(idx), GoField: idx, Pos: rootPos(ev), Ev: []*Event{ev}, WireIDs: []int{ev.ID}}})
		}
		if os.Getenv("FPDEBUG") == "tiles" {
			for _, t := range ts {
				fmt.Fprintln(os.Stderr, "tile", ev.ID, t.lo, t.sz, t.f.Canon())
			}
			for _, st := range stores {
				if containsWire(st.Src, ev.ID) {
					fmt.Fprintln(os.Stderr, "  store", st.Src.Key())
				}
			}
		}
		if len(ts) < 2 {
			return nil
		}
		sort.Slice(ts, func(i, j int) bool { return ts[i].lo < ts[j].lo })
		off := int64(0)
		var out []*FieldLayout
		for _, t := range ts {
			if t.lo != off {
				return nil
			}
			if t.sz <= 0 {
				return nil
			}
			off += t.sz
			out = append(out, t.f)
		}
		if off != n {
			return nil
		}
		return out
	}
	fs := c.extractDec(p.Events, sink)
	fs = a.collapseNestedRuns(ct, c, fs, false)
	for _, f := range fs {
		if (f.Kind == "dyn" || f.Kind == "obj") && f.GoField < 0 && f.RecvVal != nil {
			for _, st := range stores {
				idx, _ := recvFieldAddr(st.Dst)
				if stripCT(st.Src).Key() == stripCT(f.RecvVal).Key() || stripIface(st.Src).Key() == stripCT(f.RecvVal).Key() {
					f.GoField, f.Name = idx, c.fieldName(idx)
				}
				// decoded into a part of a scratch record whose content is then published in this field
				if src := stripCT(st.Src); src != nil && src.Op == "decodedobj" && src.Name == "" && len(f.Ev) > 0 && src.ID == f.Ev[0].ID {
					f.GoField, f.Name = idx, c.fieldName(idx)
				}
			}
		}
	}
	for _, f := range fs {
		if f.Kind == "dyn" && f.Table == "" {
			f.Kind = "irregular"
			f.Note = "Decode is invoked on the dynamic part the receiver already held (" + f.Name + "), not on one built from the discriminator just read"
		}
	}
	return &PathLayout{Path: p, Layout: &Layout{Fields: fs}, Conds: condString(p.Conds)}
}

// nonNilErrGlobals: module-level error variables assigned exactly once, in a package initialiser, from errors.New or fmt.Errorf.
func (a *Analysis) nonNilErrGlobals() map[*ssa.Global]bool {
	a.mu.Lock()
	defer a.mu.Unlock()
	if a.errGlobals != nil {
		return a.errGlobals
	}
	m := map[*ssa.Global]bool{}
	count := map[*ssa.Global]int{}
	for fn := range a.P.AllFuncs {
		if !a.P.InModule(fn) || fn.Blocks == nil {
			continue
		}
		for _, b := range fn.Blocks {
			for _, in := range b.Instrs {
				st, ok := in.(*ssa.Store)
				if !ok {
					continue
				}
				g, ok := st.Addr.(*ssa.Global)
				if !ok || !isErrorType(g.Type().(*types.Pointer).Elem()) {
					continue
				}
				count[g]++
				good := false
				if call, ok := st.Val.(*ssa.Call); ok && isInitFunc(fn) {
					if c := call.Call.StaticCallee(); c != nil {
						n := fullName(c)
						good = n == "errors.New" || n == "fmt.Errorf"
					}
				}
				// an alias of a standard-library sentinel (var ErrTruncated = io.ErrUnexpectedEOF)
				if ld, ok := st.Val.(*ssa.UnOp); ok && isInitFunc(fn) && ld.Op == token.MUL {
					if sg, ok := ld.X.(*ssa.Global); ok && sg.Pkg != nil && !strings.HasPrefix(sg.Pkg.Pkg.Path(), modulePath) && isErrorType(sg.Type().(*types.Pointer).Elem()) {
						good = true
					}
				}
				if good && count[g] == 1 {
					m[g] = true
				} else {
					m[g] = false
				}
			}
		}
	}
	for g, c := range count {
		if c != 1 {
			m[g] = false
		}
	}
	a.errGlobals = m
	return m
}

// stripSameWidth removes integer conversions that keep the width (int32 <-> uint32 …): the bytes written are the same.
func stripSameWidth(v *Val) *Val {
	v = stripCT(v)
	for v != nil && v.Op == "conv" && len(v.Args) == 1 && isIntegerType(v.Type) {
		in := stripCT(v.Args[0])
		if in.Type == nil || !isIntegerType(in.Type) {
			break
		}
		s1, ok1 := fixedSize(v.Type)
		s2, ok2 := fixedSize(in.Type)
		if !ok1 || !ok2 || s1 != s2 {
			break
		}
		v = in
	}
	return v
}

// collapseNestedRuns: see collapseNested. The nested part's own layout is that of its Encode / Decode method.
func (a *Analysis) collapseNestedRuns(ct *CodecType, c *layoutCtx, fs []*FieldLayout, enc bool) []*FieldLayout {
	if len(c.nested) == 0 {
		return fs
	}
	nestedOf := func(f *FieldLayout) (int, int, bool) {
		oi, ok := c.nested[f.Name]
		return oi[0], oi[1], ok
	}
	layoutOf := func(outer int) (string, string, []*FieldLayout) {
		if outer < 0 || outer >= ct.Struct.NumFields() {
			return "", "", nil
		}
		nct := a.U.TypeOf(ct.Struct.Field(outer).Type())
		if nct == nil || nct == ct {
			return "", "", nil
		}
		tl := a.Layouts(nct)
		var pl *PathLayout
		if enc {
			pl = tl.EncMain
			if len(tl.EncAll) != 1 {
				pl = nil // only parts with a single rendering are recognised inline
			}
		} else {
			pl = tl.DecMain
			if len(tl.R.Dec) != 1 {
				pl = nil
			}
		}
		if pl == nil {
			return "", "", nil
		}
		return nct.Name, c.fieldName(outer), pl.Layout.Fields
	}
	return collapseNested(fs, nestedOf, layoutOf)
}

// expandFrameAlts: the frame rules (C04, C05, C06-A1) reason about positions in the top-level sequence of a path. When
// a frame writes its header and body through a helper with alternatives (body present / absent), those writes sit
// inside one ALT event; such a path is split into one path per alternative, the alternative's conditions inserted
// where the helper was called. Only paths that patch or checksum are split (at most a few alternatives each).
func expandFrameAlts(paths []*Path) []*Path {
	var out []*Path
	for _, p := range paths {
		out = append(out, expandFrameAlt(p, 0)...)
	}
	return out
}

func expandFrameAlt(p *Path, depth int) []*Path {
	isFrame := false
	for _, e := range p.Events {
		if e.Kind == EvPatch || e.Kind == EvCalc {
			isFrame = true
		}
	}
	if !isFrame || depth > 3 {
		return []*Path{p}
	}
	for i, e := range p.Events {
		if e.Kind != EvAlt || !countsAsWire(e) || len(e.Iter) < 2 || len(e.Iter) > 4 {
			continue
		}
		var res []*Path
		for _, arm := range e.Iter {
			np := *p
			k := len(arm.Conds)
			cut := min(e.NCond, len(p.Conds))
			np.Conds = append(append(append([]Cond(nil), p.Conds[:cut]...), arm.Conds...), p.Conds[cut:]...)
			np.Events = append([]*Event(nil), p.Events[:i]...)
			np.Events = append(np.Events, arm.Events...)
			for _, later := range p.Events[i+1:] {
				c := *later
				c.NCond += k
				np.Events = append(np.Events, &c)
			}
			res = append(res, expandFrameAlt(&np, depth+1)...)
		}
		return res
	}
	return []*Path{p}
}

// freshEmptySlice: a newly made, non-nil slice of length zero ([]T{} or make([]T, 0, …)).
func freshEmptySlice(v *Val) bool {
	v = stripCT(v)
	if v == nil {
		return false
	}
	if v.Op == "makeslice" && len(v.Args) > 0 {
		n, ok := v.Args[0].Int64()
		return ok && n == 0
	}
	if v.Op == "slice" && len(v.Args) > 0 {
		b := stripCT(v.Args[0])
		if b.Op == "new" || b.Op == "alloc" {
			if pt, ok := b.Type.Underlying().(*types.Pointer); ok {
				if at, ok := pt.Elem().Underlying().(*types.Array); ok {
					return at.Len() == 0
				}
			}
		}
	}
	return false
}

// textTileOf: v is a string-valued term derived from exactly one sub-slice wire#id[a:b] with constant bounds (and from
// no other part of those bytes); returns the bounds and the sub-slice term.
func textTileOf(v *Val, id int) (a, b int64, sub *Val, ok bool) {
	if v == nil || v.Type == nil || !isStringOrBytes(v.Type) {
		return 0, 0, nil, false
	}
	n, bad := 0, false
	var walk func(x *Val)
	walk = func(x *Val) {
		if x == nil || bad {
			return
		}
		if x.Op == "slice" && len(x.Args) >= 3 {
			if w := stripCT(x.Args[0]); w.Op == "wire" && w.ID == id {
				lo, okL := int64(0), true
				if x.Args[1] != nil {
					lo, okL = x.Args[1].Int64()
				}
				hi, okH := int64(0), false
				if x.Args[2] != nil {
					hi, okH = x.Args[2].Int64()
				}
				if !okL || !okH || hi <= lo {
					bad = true
					return
				}
				if sub == nil || sub.Key() == x.Key() {
					a, b, sub = lo, hi, x
					n++
				} else {
					bad = true
				}
				return
			}
		}
		if x.Op == "wire" && x.ID == id {
			bad = true // the bytes used other than through that one sub-slice
			return
		}
		for _, y := range x.Args {
			walk(y)
		}
	}
	walk(v)
	return a, b, sub, !bad && n > 0
}

// replaceVal returns v with every occurrence of the term old (by key) replaced by new.
func replaceVal(v, old, new *Val) *Val {
	if v == nil {
		return nil
	}
	if v.Key() == old.Key() {
		return new
	}
	changed := false
	args := make([]*Val, len(v.Args))
	for i, x := range v.Args {
		args[i] = replaceVal(x, old, new)
		if args[i] != x {
			changed = true
		}
	}
	if !changed {
		return v
	}
	c := *v
	c.Args = args
	return &c
}

var synthID int64 = 1 << 30

// splitPatchedZeroBlocks: a header reserved as one run of zero bytes and filled in afterwards, field by field, through
// the buffer's bytes (`buf.Write(hdr[:])` … `PutUint32(frame[0:4], p.MsgType)`): when the in-place writes of the path
// tile the run exactly, the run is the sequence of number-sized zero placeholders they fill – the form the frame rules
// know (a placeholder and the PATCH that overwrites it).
func splitPatchedZeroBlocks(paths []*Path) []*Path {
	var out []*Path
	for _, p := range paths {
		out = append(out, splitPatchedZeroBlock(p))
	}
	return out
}

func splitPatchedZeroBlock(p *Path) *Path {
	for i, e := range p.Events {
		if e.Kind != EvWriteBytes || e.Src == nil {
			continue
		}
		lit := stripCT(e.Src)
		if lit.Op != "arraylit" || len(lit.Args) < 3 || len(lit.Args) > 64 {
			continue
		}
		allZero := true
		for _, a := range lit.Args {
			if !isZero(a) {
				allZero = false
			}
		}
		if !allZero {
			continue
		}
		n := int64(len(lit.Args))
		// the position of the run: a Len() observation of the same buffer right in front of it
		var marker *Event
		for j := i - 1; j >= 0; j-- {
			x := p.Events[j]
			if countsAsWire(x) {
				break
			}
			if x.Kind == EvLen && sameBuf(x.Buf, e.Buf) {
				marker = x
				break
			}
		}
		if marker == nil {
			continue
		}
		mv := &Val{Op: "buflen", ID: marker.ID, Args: []*Val{marker.Buf}, Type: types.Typ[types.Int]}
		type tile struct {
			off, w int64
			ev     *Event
		}
		var tiles []tile
		for _, x := range p.Events[i+1:] {
			if x.Kind != EvPatch || x.Dst == nil || x.IntType == nil {
				continue
			}
			fl := flattenSlice(x.Dst)
			if fl.Op != "slice" || stripCT(fl.Args[0]).Op != "bufbytes" {
				continue
			}
			lo := affConst(0)
			if fl.Args[1] != nil {
				lo = affOf(fl.Args[1])
			}
			d, isC := lo.Add(affOf(mv), -1).IsConst()
			w, okW := fixedSize(x.IntType)
			if !isC || !okW || d < 0 || d+w > n {
				continue
			}
			tiles = append(tiles, tile{d, w, x})
		}
		sort.Slice(tiles, func(a, b int) bool { return tiles[a].off < tiles[b].off })
		off := int64(0)
		ok := len(tiles) >= 2
		for _, t := range tiles {
			if t.off != off {
				ok = false
			}
			off = t.off + t.w
		}
		if !ok || off != n {
			continue
		}
		np := *p
		np.Events = append([]*Event(nil), p.Events[:i]...)
		for _, t := range tiles {
			it := map[int64]types.Type{1: types.Typ[types.Uint8], 2: types.Typ[types.Uint16], 4: types.Typ[types.Uint32], 8: types.Typ[types.Uint64]}[t.w]
			if it == nil {
				return p
			}
			c := *e
			c.ID = int(atomic.AddInt64(&synthID, 1))
			c.Kind, c.IntType, c.Order, c.Src, c.Size = EvWriteInt, it, "zero", mkConst(constant.MakeInt64(0), it), mkInt(t.w)
			np.Events = append(np.Events, &c)
		}
		np.Events = append(np.Events, p.Events[i+1:]...)
		return splitPatchedZeroBlock(&np)
	}
	return p
}

// inCodecTree: the codec package or a package below it (codec/internal/checksum: the registry moved behind aliases and
// forwarding functions is still the registry).
func (a *Analysis) inCodecTree(pk *ssa.Package) bool {
	if pk == nil || pk.Pkg == nil || a.U.Codec == nil {
		return false
	}
	return pk == a.U.Codec || strings.HasPrefix(pk.Pkg.Path(), a.U.Codec.Pkg.Path()+"/")
}
