package main

import (
	"fmt"
	"go/ast"
	"go/constant"
	"go/token"
	"go/types"
	"strings"

	"golang.org/x/tools/go/packages"
)

// Second extractor (thorough tier): an independent, deliberately simple reader of the *generated idiom* at the
// syntax level – `if err := codec.F[T](buf, p.X, literals…)` / `if val, err := codec.G[T](buf, literals…) … p.X = val`.
// It maps primitive names to renderings by a fixed table and never looks at the primitives' bodies, so it shares no
// code path with the SSA effect engine. It exists to catch bugs in the engine: a type it recognises must get the same
// layout from both; types it does not recognise are counted, never reported.

type astField struct {
	canon string
	name  string
}

var astScalar = map[string]string{"WriteBasicType": "BE", "WriteBasicTypeLE": "LE", "ReadBasicType": "BE", "ReadBasicTypeLE": "LE"}

func litInt(info *types.Info, e ast.Expr) (int64, bool) {
	tv, ok := info.Types[e]
	if !ok || tv.Value == nil {
		return 0, false
	}
	c := constant.ToInt(tv.Value)
	if c.Kind() != constant.Int {
		return 0, false
	}
	return constant.Int64Val(c)
}

func litBool(info *types.Info, e ast.Expr) (bool, bool) {
	tv, ok := info.Types[e]
	if !ok || tv.Value == nil || tv.Value.Kind() != constant.Bool {
		return false, false
	}
	return constant.BoolVal(tv.Value), true
}

// codecCall: e is codec.Name[...](args) – returns name, type arguments (as written, resolved by go/types) and args.
func codecCall(info *types.Info, e ast.Expr) (string, []types.Type, []ast.Expr, bool) {
	call, ok := e.(*ast.CallExpr)
	if !ok {
		return "", nil, nil, false
	}
	fun := call.Fun
	var targs []types.Type
	switch f := fun.(type) {
	case *ast.IndexExpr:
		if tv, ok := info.Types[f.Index]; ok {
			targs = append(targs, tv.Type)
		}
		fun = f.X
	case *ast.IndexListExpr:
		for _, ix := range f.Indices {
			if tv, ok := info.Types[ix]; ok {
				targs = append(targs, tv.Type)
			}
		}
		fun = f.X
	}
	sel, ok := fun.(*ast.SelectorExpr)
	if !ok {
		return "", nil, nil, false
	}
	pk, ok := sel.X.(*ast.Ident)
	if !ok {
		return "", nil, nil, false
	}
	if pn, ok := info.Uses[pk].(*types.PkgName); !ok || pn.Imported().Path() != modulePath+"/codec" {
		return "", nil, nil, false
	}
	// instantiated type arguments (covers inferred ones)
	if id, ok := info.Instances[sel.Sel]; ok && id.TypeArgs != nil {
		targs = nil
		for i := 0; i < id.TypeArgs.Len(); i++ {
			targs = append(targs, id.TypeArgs.At(i))
		}
	}
	return sel.Sel.Name, targs, call.Args, true
}

func recvFieldName(e ast.Expr, recv string) (string, bool) {
	sel, ok := e.(*ast.SelectorExpr)
	if !ok {
		return "", false
	}
	id, ok := sel.X.(*ast.Ident)
	if !ok || id.Name != recv {
		return "", false
	}
	return sel.Sel.Name, true
}

func elemTypeName(t types.Type) string {
	if s, ok := t.Underlying().(*types.Slice); ok {
		return typeStr(s.Elem())
	}
	return typeStr(t)
}

// astRender maps one primitive call to a canonical field rendering (without the field name).
func (a *Analysis) astRender(info *types.Info, name string, targs []types.Type, args []ast.Expr, valueType types.Type, write bool) (string, bool) {
	// args exclude the value for readers; for writers args[1] is the value
	lits := args[1:]
	if write && len(args) >= 2 {
		lits = args[2:]
	}
	order := "BE"
	if strings.HasSuffix(name, "LE") {
		order = "LE"
	}
	base := strings.TrimSuffix(name, "LE")
	one := func(t types.Type) string {
		if sz, ok := fixedSize(t); ok && sz == 1 {
			return ""
		}
		return order
	}
	fixed := func(ls []ast.Expr) (string, bool) {
		n, ok := litInt(info, ls[0])
		if !ok {
			return "", false
		}
		pad, side := int64(' '), "right"
		if len(ls) == 3 {
			p, ok1 := litInt(info, ls[1])
			l, ok2 := litBool(info, ls[2])
			if !ok1 || !ok2 {
				return "", false
			}
			pad = p
			if l {
				side = "left"
			}
		} else if len(ls) != 1 {
			return "", false
		}
		return fmt.Sprintf("fixed(%d,pad=%d,%s)", n, pad&0xFF, side), true
	}
	switch base {
	case "WriteBasicType", "ReadBasicType":
		t := valueType
		if !write && len(targs) == 1 {
			t = targs[0]
		}
		if t == nil {
			return "", false
		}
		return fmt.Sprintf("int(%s,%s)", typeStr(t), one(t)), true
	case "WriteFixedString", "ReadFixedString", "WriteFixedStringWithPadding", "ReadFixedStringTrimPadding":
		return fixed(lits)
	case "WriteString", "ReadString":
		if len(targs) < 1 {
			return "", false
		}
		return fmt.Sprintf("ptext(%s,%s)", typeStr(targs[0]), one(targs[0])), true
	case "WriteBasicTypeList", "ReadBasicTypeList":
		if len(targs) < 1 {
			return "", false
		}
		var et types.Type
		if len(targs) >= 2 {
			et = targs[1]
		} else if valueType != nil {
			if s, ok := valueType.Underlying().(*types.Slice); ok {
				et = s.Elem()
			}
		}
		if et == nil {
			return "", false
		}
		return fmt.Sprintf("list(%s,%s)[:int(%s,%s)]", typeStr(targs[0]), one(targs[0]), typeStr(et), one(et)), true
	case "WriteStringList", "ReadStringList":
		if len(targs) < 2 {
			return "", false
		}
		return fmt.Sprintf("list(%s,%s)[:ptext(%s,%s)]", typeStr(targs[0]), one(targs[0]), typeStr(targs[1]), one(targs[1])), true
	case "WriteFixedStringList", "ReadFixedStringList", "WriteFixedStringListWithPadding", "ReadFixedStringListTrimPadding":
		if len(targs) < 1 {
			return "", false
		}
		f, ok := fixed(lits)
		if !ok {
			return "", false
		}
		return fmt.Sprintf("list(%s,%s)[:%s]", typeStr(targs[0]), one(targs[0]), f), true
	case "WriteObjectList", "ReadObjectList":
		if len(targs) < 1 {
			return "", false
		}
		var et types.Type
		if len(targs) >= 2 {
			et = targs[1]
		}
		if et == nil {
			return "", false
		}
		ct := a.U.TypeOf(et)
		if ct == nil {
			return "", false
		}
		return fmt.Sprintf("list(%s,%s)[:obj(%s)]", typeStr(targs[0]), one(targs[0]), ct.Name), true
	}
	return "", false
}

// astLayout reads the generated idiom of one method; ok=false when any statement falls outside it.
func (a *Analysis) astLayout(pk *packages.Package, ct *CodecType, fd *ast.FuncDecl, write bool) ([]astField, bool) {
	info := pk.TypesInfo
	if fd.Recv == nil || len(fd.Recv.List) != 1 || len(fd.Recv.List[0].Names) != 1 {
		return nil, false
	}
	recv := fd.Recv.List[0].Names[0].Name
	wire := func(goName string) (string, types.Type) {
		for i := 0; i < ct.Struct.NumFields(); i++ {
			if ct.Struct.Field(i).Name() == goName {
				return ct.WireName[i], ct.Struct.Field(i).Type()
			}
		}
		return goName, nil
	}
	var out []astField
	for _, st := range fd.Body.List {
		switch s := st.(type) {
		case *ast.ReturnStmt:
			continue
		case *ast.IfStmt:
			as, ok := s.Init.(*ast.AssignStmt)
			if !ok || len(as.Rhs) != 1 {
				return nil, false
			}
			name, targs, args, ok := codecCall(info, as.Rhs[0])
			if !ok {
				return nil, false // nested Encode/Decode, lookups, frames: outside the simple idiom
			}
			if write {
				if len(args) < 2 {
					return nil, false
				}
				fn, ok := recvFieldName(args[1], recv)
				if !ok {
					return nil, false
				}
				wn, ft := wire(fn)
				c, ok := a.astRender(info, name, targs, args, ft, true)
				if !ok {
					return nil, false
				}
				out = append(out, astField{canon: wn + ":" + c, name: wn})
			} else {
				// else-branch: p.X = val
				eb, ok := s.Else.(*ast.BlockStmt)
				if !ok || len(eb.List) != 1 {
					return nil, false
				}
				asg, ok := eb.List[0].(*ast.AssignStmt)
				if !ok || len(asg.Lhs) != 1 || asg.Tok != token.ASSIGN {
					return nil, false
				}
				fn, ok := recvFieldName(asg.Lhs[0], recv)
				if !ok {
					return nil, false
				}
				if id, ok := asg.Rhs[0].(*ast.Ident); !ok || id.Name != "val" {
					return nil, false
				}
				wn, ft := wire(fn)
				c, ok := a.astRender(info, name, targs, args, ft, false)
				if !ok {
					return nil, false
				}
				out = append(out, astField{canon: wn + ":" + c, name: wn})
			}
		default:
			return nil, false
		}
	}
	return out, true
}

// CrossCheckAST compares the two extractors on every type the simple one recognises.
func (a *Analysis) CrossCheckAST(rep *Report) {
	recognised, skipped := 0, 0
	for _, pk := range a.P.Pkgs {
		for _, f := range pk.Syntax {
			if strings.HasSuffix(a.P.Fset.Position(f.Pos()).Filename, "_test.go") {
				continue
			}
			for _, d := range f.Decls {
				fd, ok := d.(*ast.FuncDecl)
				if !ok || fd.Recv == nil || fd.Body == nil || (fd.Name.Name != "Encode" && fd.Name.Name != "Decode") {
					continue
				}
				obj, _ := pk.TypesInfo.Defs[fd.Name].(*types.Func)
				if obj == nil {
					continue
				}
				ct := a.U.TypeOf(obj.Type().(*types.Signature).Recv().Type())
				if ct == nil {
					continue
				}
				write := fd.Name.Name == "Encode"
				fs, ok := a.astLayout(pk, ct, fd, write)
				if !ok {
					skipped++
					continue
				}
				recognised++
				tl := a.Layouts(ct)
				var l *Layout
				if write && tl.EncMain != nil {
					l = tl.EncMain.Layout
				} else if !write && tl.DecMain != nil {
					l = tl.DecMain.Layout
				}
				if l == nil {
					rep.Ob("XC-second-extractor-agrees", ct.Name+"."+fd.Name.Name, false, a.P.Pos(fd.Pos()), "the SSA engine produced no layout where the syntactic reader did")
					continue
				}
				var got []string
				for _, x := range l.Fields {
					got = append(got, x.WireCanon())
				}
				var want []string
				for _, x := range fs {
					want = append(want, x.canon)
				}
				rep.Ob("XC-second-extractor-agrees", ct.Name+"."+fd.Name.Name, strings.Join(got, " · ") == strings.Join(want, " · "), a.P.Pos(fd.Pos()),
					"the SSA effect engine and the independent syntactic reader disagree on the layout (a bug in one of them):\n    engine: "+strings.Join(got, " · ")+"\n    syntax: "+strings.Join(want, " · "))
			}
		}
	}
	rep.Counts["ast_cross_checked_methods"] = recognised
	rep.Counts["ast_not_cross_checked_methods"] = skipped
	rep.Notes = append(rep.Notes, fmt.Sprintf("second extractor: %d Encode/Decode methods cross-checked, %d outside its simple idiom (frames, extended messages, nested parts, hand-written codecs) – counted, never reported", recognised, skipped))
	rep.Floor("ast_cross_checked_methods", recognised, 250)
}
