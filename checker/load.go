package main

import (
	"fmt"
	"go/token"
	"go/types"
	"os"
	"sort"
	"strings"

	"golang.org/x/tools/go/packages"
	"golang.org/x/tools/go/ssa"
	"golang.org/x/tools/go/ssa/ssautil"
)

const modulePath = "github.com/xinchentechnote/fin-proto-go"

// Program is the loaded, type-checked and SSA-built module.
type Program struct {
	Fset     *token.FileSet
	Pkgs     []*packages.Package // module packages only (sorted by path)
	Prog     *ssa.Program
	SSAPkgs  map[string]*ssa.Package // by import path (module packages)
	RepoDir  string
	AllFuncs map[*ssa.Function]bool // ssautil.AllFunctions
	Config   string                 // description of the build configuration
	startup  map[*ssa.Global]*startupEntry
	tables   map[*ssa.Global][]int64
}

type LoadOptions struct {
	Dir   string
	Tags  string
	Arch  string
	Tests bool
}

// Load type-checks the whole module from its current working tree and builds SSA.
// Any load or type error is fatal: a tree that cannot be analysed gives no verdict.
func Load(opt LoadOptions) (*Program, error) {
	// go/packages shells out to `go list`; the repository needs go >= 1.24.2 and
	// the only such toolchain usable offline is the pre-installed go1.26.8.
	const goroot = "/opt/veriftools/go1.26.8"
	if _, err := os.Stat(goroot + "/bin/go"); err == nil {
		os.Setenv("PATH", goroot+"/bin:"+os.Getenv("PATH"))
	}
	os.Unsetenv("GOWORK")
	env := append(os.Environ(), "GOFLAGS=-mod=mod", "GOWORK=off", "GOPROXY=off", "GOTOOLCHAIN=local", "CGO_ENABLED=0")
	if opt.Arch != "" {
		env = append(env, "GOARCH="+opt.Arch)
	}
	cfg := &packages.Config{
		Mode:  packages.LoadAllSyntax,
		Dir:   opt.Dir,
		Env:   env,
		Tests: opt.Tests,
	}
	if opt.Tags != "" {
		cfg.BuildFlags = []string{"-tags=" + opt.Tags}
	}
	pkgs, err := packages.Load(cfg, "./...")
	if err != nil {
		return nil, fmt.Errorf("packages.Load: %w", err)
	}
	if len(pkgs) == 0 {
		return nil, fmt.Errorf("no packages loaded from %s", opt.Dir)
	}
	var errs []string
	packages.Visit(pkgs, nil, func(p *packages.Package) {
		for _, e := range p.Errors {
			errs = append(errs, e.Error())
		}
	})
	if len(errs) > 0 {
		sort.Strings(errs)
		if len(errs) > 10 {
			errs = errs[:10]
		}
		return nil, fmt.Errorf("load/type errors:\n  %s", strings.Join(errs, "\n  "))
	}
	prog, ssapkgs := ssautil.AllPackages(pkgs, ssa.InstantiateGenerics)
	prog.Build()
	p := &Program{
		Fset:    pkgs[0].Fset,
		Prog:    prog,
		SSAPkgs: map[string]*ssa.Package{},
		RepoDir: opt.Dir,
		Config:  fmt.Sprintf("GOOS=linux GOARCH=%s tags=%q tests=%v", archOr(opt.Arch), opt.Tags, opt.Tests),
	}
	isVariant := func(pk *packages.Package) bool {
		return strings.HasSuffix(pk.ID, ".test") || strings.Contains(pk.ID, " [") || strings.HasSuffix(pk.PkgPath, "_test") || strings.HasSuffix(pk.PkgPath, ".test")
	}
	// plain packages first; a test variant stands in only when there is no plain package of that path
	for pass := 0; pass < 2; pass++ {
		for i, pk := range pkgs {
			if !strings.HasPrefix(pk.PkgPath, modulePath) || ssapkgs[i] == nil {
				continue
			}
			if (pass == 0) == isVariant(pk) {
				continue
			}
			if strings.HasSuffix(pk.PkgPath, ".test") || strings.HasSuffix(pk.PkgPath, "_test") {
				continue // synthesised test mains and external test packages are not part of the library
			}
			if _, ok := p.SSAPkgs[pk.PkgPath]; ok {
				continue
			}
			p.Pkgs = append(p.Pkgs, pk)
			p.SSAPkgs[pk.PkgPath] = ssapkgs[i]
		}
	}
	if len(p.Pkgs) == 0 {
		return nil, fmt.Errorf("no packages of module %s under %s", modulePath, opt.Dir)
	}
	sort.Slice(p.Pkgs, func(i, j int) bool { return p.Pkgs[i].PkgPath < p.Pkgs[j].PkgPath })
	p.AllFuncs = ssautil.AllFunctions(prog)
	return p, nil
}

func archOr(a string) string {
	if a == "" {
		return "amd64"
	}
	return a
}

// InModule reports whether fn belongs to the analysed module (including
// instantiations of its generic functions and its anonymous functions).
func (p *Program) InModule(fn *ssa.Function) bool {
	if fn == nil {
		return false
	}
	for fn.Parent() != nil {
		fn = fn.Parent()
	}
	if o := fn.Origin(); o != nil {
		fn = o
	}
	if fn.Pkg != nil {
		return strings.HasPrefix(fn.Pkg.Pkg.Path(), modulePath)
	}
	if obj := fn.Object(); obj != nil && obj.Pkg() != nil {
		return strings.HasPrefix(obj.Pkg().Path(), modulePath)
	}
	return false
}

func (p *Program) IsTestFile(pos token.Pos) bool {
	if !pos.IsValid() {
		return false
	}
	return strings.HasSuffix(p.Fset.Position(pos).Filename, "_test.go")
}

// Pos renders a position relative to the repository root.
func (p *Program) Pos(pos token.Pos) string {
	if !pos.IsValid() {
		return "-"
	}
	ps := p.Fset.Position(pos)
	f := strings.TrimPrefix(ps.Filename, p.RepoDir+"/")
	return fmt.Sprintf("%s:%d:%d", f, ps.Line, ps.Column)
}

// FuncName is a stable, human-readable name for a function.
func FuncName(fn *ssa.Function) string {
	if fn == nil {
		return "<nil>"
	}
	s := fn.String()
	s = strings.ReplaceAll(s, modulePath+"/", "")
	return s
}

func pkgOfFunc(fn *ssa.Function) *types.Package {
	for fn.Parent() != nil {
		fn = fn.Parent()
	}
	if o := fn.Origin(); o != nil {
		fn = o
	}
	if fn.Pkg != nil {
		return fn.Pkg.Pkg
	}
	if obj := fn.Object(); obj != nil {
		return obj.Pkg()
	}
	return nil
}

// shortPkg maps an import path of the module to its short protocol name.
func shortPkg(path string) string {
	path = strings.TrimPrefix(path, modulePath+"/")
	path = strings.TrimSuffix(path, "/messages")
	switch path {
	case "sse-bin":
		return "sse"
	case "szse-bin":
		return "szse"
	case "bjse-trade-bin":
		return "bjse"
	case "risk-bin":
		return "risk"
	case "sample-bin":
		return "sample"
	}
	return path
}
