package main

import (
	"go/types"
	"golang.org/x/tools/go/ssa"
	"fmt"
	"go/constant"
	"sort"
	"strings"
)

// ---------------------------------------------------------------------------
// C12 – discriminator tables

func (a *Analysis) CheckC12(rep *Report) {
	rep.Explanation = "T1: the registrations of each discriminator table (constant key -> type allocated by the registered closure), extracted from the init functions, equal the frozen table of the pinned schema exactly – no missing, extra, duplicated or swapped key – and every closure returns a fresh &T{}. T2: each lookup function reads the table its registrar writes, returns (factory(), nil) on a hit and (nil, non-nil error) on a miss on every path – never (nil, nil), never a default type. T3: in Decode the key field is decoded before the lookup, the lookup argument is that field, the result is stored in the dynamic field and is the receiver of the following Decode, and a miss is an error. T4: in Encode every use of the dynamic field is guarded by a non-nil test or by a materialisation through the same table with the same key field, and a miss is an error. T5: text keys fit their key field and do not end (start) with the pad byte, otherwise they are unreachable after stripping. T6: the tables are touched only by their registrar and lookup, and registrars are called only from init."
	rep.Trusted = append(trustedBase(), "golden/golden.json tables are the pinned discriminator assignments")
	rep.Exhaustive = true
	g, err := loadGolden()
	if err != nil {
		rep.Fatal = append(rep.Fatal, "golden table: "+err.Error())
		return
	}
	nreg := 0
	seenT := map[string]bool{}
	for _, t := range a.U.Tables {
		seenT[a.pinnedTable(g, t.Name)] = true
		pos := a.P.Pos(t.Global.Pos())
		gold, ok := g.Tables[a.pinnedTable(g, t.Name)]
		if !rep.Ob("T1-table-in-schema", t.Name, ok, pos, "discriminator table is not in the pinned schema rendering") {
			continue
		}
		got := map[string]*Registration{}
		for _, r := range t.Regs {
			nreg++
			k := t.Name + "[" + r.Key + "]"
			rpos := a.P.Pos(r.Pos())
			if prev, dup := got[r.Key]; dup {
				rep.Ob("T1-no-duplicate-key", k, false, rpos, fmt.Sprintf("key %s is registered twice (%s and %s); the later one silently wins", r.Key, prev.Type, r.Type))
			}
			got[r.Key] = r
			want, inGold := gold[r.Key]
			if r.KeyVal == nil && !inGold {
				// a registration whose key is not a constant of the program (computed at start-up from other tables,
				// say): which entries it makes – and which pinned ones it replaces – is not known
				rep.Ob("T1-key-constant", k, false, rpos, fmt.Sprintf("key %s -> %s is not a discriminator of the pinned schema", r.Key, r.Type))
				continue
			}
			if !rep.Ob("T1-key-in-schema", k, inGold, rpos, fmt.Sprintf("key %s -> %s is not a discriminator of the pinned schema", r.Key, r.Type)) {
				// a key the pinned schema does not have (a message type added to the protocol): against the pinned schema it
				// is an unregistered value that should be refused, so C12 (and C02) report it; the registration itself is
				// still held to the rules every registration obeys
				rep.Ob("T1-factory-fresh", k, r.Fresh, rpos, fmt.Sprintf("factory for key %s does not return a fresh non-nil allocation", r.Key))
				rep.Ob("T6-registered-from-init", k, r.InInit, rpos, "registration outside a package init function")
				continue
			}
			rep.Ob("T1-key-maps-to-pinned-type", k, r.Type == want, rpos, fmt.Sprintf("key %s builds %s, the pinned schema says %s", r.Key, r.Type, want))
			rep.Ob("T1-factory-fresh", k, r.Fresh, rpos, fmt.Sprintf("factory for key %s does not return a fresh non-nil allocation", r.Key))
			rep.Ob("T6-registered-from-init", k, r.InInit, rpos, "registration outside a package init function")
		}
		var keys []string
		for k := range gold {
			keys = append(keys, k)
		}
		sort.Strings(keys)
		for _, k := range keys {
			_, ok := got[k]
			rep.Ob("T1-pinned-key-registered", t.Name+"["+k+"]", ok, pos, fmt.Sprintf("pinned discriminator %s -> %s is not registered", k, gold[k]))
		}
		rep.Ob("T6-table-private", t.Name, len(t.OtherRefs) == 0, pos, fmt.Sprintf("table is referenced by %d instructions outside its registrar's update and lookup's read", len(t.OtherRefs)))
		rep.Ob("T6-one-registrar-one-lookup", t.Name, len(t.Registrar) <= 1 && len(t.Lookups) >= 1, pos, fmt.Sprintf("%d functions update the table, %d read it", len(t.Registrar), len(t.Lookups)))
		// T2
		// a function that hands out the registered factory itself with a comma-ok (`LookupXFactory(key) (func() Codec, bool)`)
		// is a getter: faithful when it returns exactly the table's entry and presence for its parameter; the look-ups
		// proper are then the module functions that call it (analysed with the getter inlined)
		lookups := append([]*ssa.Function(nil), t.Lookups...)
		seenLf := map[*ssa.Function]bool{}
		for i := 0; i < len(lookups); i++ {
			lf := lookups[i]
			if seenLf[lf] {
				lookups = append(lookups[:i], lookups[i+1:]...)
				i--
				continue
			}
			seenLf[lf] = true
			res := lf.Signature.Results()
			if res.Len() != 2 || !isBoolType(res.At(1).Type()) {
				continue
			}
			if _, isFn := res.At(0).Type().Underlying().(*types.Signature); !isFn {
				continue
			}
			paths, err := a.engineFor(lf).AnalyzeRoot(lf, nil)
			faithful := err == nil && len(paths) > 0
			for _, p := range paths {
				if len(p.Ret) != 2 {
					faithful = false
					continue
				}
				r0, r1 := stripCT(p.Ret[0]), stripCT(p.Ret[1])
				okEntry := r0.Op == "lookup" && len(r0.Args) == 2 && tableName(r0.Args[0]) == t.Name && stripCT(r0.Args[1]).Op == "param"
				okMiss := r0.IsNilConst() || okEntry
				switch {
				case r1.Op == "lookupok" && len(r1.Args) == 2 && tableName(r1.Args[0]) == t.Name && stripCT(r1.Args[1]).Op == "param" && okEntry:
				default:
					if b, known := r1.Bool(); known {
						hit := false
						for _, c := range p.Conds {
							if c.V.Op == "lookupok" && c.Taken {
								hit = true
							}
						}
						if (b && hit && okEntry) || (!b && !hit && okMiss) {
							continue
						}
					}
					faithful = false
				}
			}
			rep.Ob("T2-getter-faithful", FuncName(lf), faithful, a.P.Pos(lf.Pos()), "a function that hands out registered factories does not return exactly the table's entry and its presence for the key it is given")
			// its callers take its place
			lookups = append(lookups[:i], lookups[i+1:]...)
			i--
			for fn := range a.P.AllFuncs {
				if !a.P.InModule(fn) || fn.Blocks == nil || a.P.IsTestFile(fn.Pos()) || fn == lf {
					continue
				}
				calls := false
				for _, b := range fn.Blocks {
					for _, in := range b.Instrs {
						if c, ok := in.(ssa.CallInstruction); ok && c.Common().StaticCallee() == lf {
							calls = true
						}
					}
				}
				if calls && !seenLf[fn] {
					lookups = append(lookups, fn)
				}
			}
		}
		sort.Slice(lookups, func(i, j int) bool { return lookups[i].String() < lookups[j].String() })
		for _, lf := range lookups {
			if a.U.IsCodecMethod(lf) {
				// an Encode/Decode that hands the table to a shared helper (`decodeDynamic(buf, key, table, &field)`): what
				// it does with a hit and a miss is judged by T3/T4 on its own paths
				continue
			}
			paths, err := a.engineFor(lf).AnalyzeRoot(lf, nil)
			name := FuncName(lf)
			if !rep.Ob("T2-analysable", name, err == nil, a.P.Pos(lf.Pos()), fmt.Sprint(err)) {
				continue
			}
			hit, miss := 0, 0
			for _, p := range paths {
				isHit := false
				for _, c := range p.Conds {
					if c.V.Op == "lookupok" && c.Taken {
						isHit = true
					}
				}
				if len(p.Ret) != 2 {
					rep.Ob("T2-lookup-shape", name, false, a.P.Pos(lf.Pos()), "lookup does not return (codec, error)")
					continue
				}
				r0, r1 := stripIface(p.Ret[0]), p.Ret[1]
				if isHit && defensiveNilArm(p) {
					// "registered factory is nil" / "factory returned nil": cannot happen when every registration is a
					// constructor of a fresh value (T1-factory-fresh); such an arm must still report an error
					allFresh := true
					for _, r := range t.Regs {
						if !r.Fresh {
							allFresh = false
						}
					}
					rep.Ob("T2-defensive-arm-is-error", name, allFresh && r0.IsNilConst() && nilness(r1) == +1, a.P.Pos(lf.Pos()), "the lookup tests the registered factory or its result for nil and does not return (nil, error) there")
					continue
				}
				// the comma-ok shape (codec, bool) is as good as (codec, error): true with the factory's result, false with nil
				commaOk := r1 != nil && r1.Type != nil && isBoolType(r1.Type)
				okSignal, failSignal := nilness(r1) == -1, nilness(r1) == +1
				if commaOk {
					b, known := r1.Bool()
					okSignal, failSignal = known && b, known && !b
				}
				if isHit {
					hit++
					okv := r0.Op == "dyncall" && len(r0.Args) > 0 && r0.Args[0].Op == "lookup" && tableName(r0.Args[0].Args[0]) == t.Name && stripCT(r0.Args[0].Args[1]).Op == "param"
					rep.Ob("T2-hit-returns-registered-factory", name, okv && okSignal, a.P.Pos(lf.Pos()), fmt.Sprintf("on a hit the lookup returns (%s, %s) instead of (the registered factory's result for the key, nil)", r0.Pretty(), r1.Pretty()))
				} else {
					miss++
					rep.Ob("T2-miss-returns-error", name, r0.IsNilConst() && failSignal, a.P.Pos(lf.Pos()), fmt.Sprintf("on a miss the lookup returns (%s, %s) instead of (nil, non-nil error)", r0.Pretty(), r1.Pretty()))
				}
			}
			rep.Ob("T2-lookup-shape", name, hit >= 1 && miss >= 1, a.P.Pos(lf.Pos()), fmt.Sprintf("lookup has %d hit paths and %d miss paths", hit, miss))
		}
	}
	for name := range g.Tables {
		rep.Ob("T1-pinned-table-present", name, seenT[name], "-", "discriminator table of the pinned schema has no counterpart in the tree")
	}
	// T3/T4/T5 per type with a dynamic part
	ndyn := 0
	for _, ct := range a.U.Types {
		tl := a.Layouts(ct)
		if tl.DecMain == nil || tl.EncMain == nil {
			continue
		}
		gold := g.Types[ct.Name]
		for i, fd := range tl.DecMain.Layout.Fields {
			if fd.Kind != "dyn" {
				continue
			}
			ndyn++
			key := ct.Name + "." + fd.Name
			dpos := a.P.Pos(fd.Pos)
			wantTable, wantKey := "", ""
			if i < len(gold) {
				wantTable, wantKey = gold[i].Table, gold[i].Key
			}
			rep.Ob("T3-decode-uses-pinned-table", key, a.pinnedTable(g, fd.Table) == wantTable && fd.Key == wantKey && wantTable != "", dpos,
				fmt.Sprintf("Decode builds the dynamic part from %s by %s; the pinned schema says %s by %s", fd.Table, fd.Key, wantTable, wantKey))
			// key decoded before the lookup: the key is the value of an earlier field
			keyIdx := -1
			for j, f := range tl.DecMain.Layout.Fields {
				if f.Name == fd.Key {
					keyIdx = j
				}
			}
			rep.Ob("T3-key-decoded-before-lookup", key, keyIdx >= 0 && keyIdx < i, dpos, "the lookup key is not a field decoded earlier in the same call")
			rep.Ob("T3-result-stored-and-decoded", key, fd.GoField >= 0, dpos, "the object decoded into is not the one stored in the message's dynamic field")
			for _, pl := range tl.R.Dec {
				okp := i < len(pl.Layout.Fields) && pl.Layout.Fields[i].Kind == "dyn" && pl.Layout.Fields[i].Table == fd.Table && pl.Layout.Fields[i].Key == fd.Key
				note := ""
				if i < len(pl.Layout.Fields) {
					note = pl.Layout.Fields[i].Note
				}
				rep.Ob("T3-every-decode-path-uses-the-table", key+"["+pl.Conds+"]", okp, dpos, "on this decode path the body/extension is not built from the table by the key just read: "+note)
			}
			// T4 encode arms
			for _, pl := range tl.R.Enc {
				if pl.BodyNil {
					continue
				}
				for _, fe := range pl.Layout.Fields {
					if fe.Kind != "dyn" || fe.GoField != fd.GoField {
						continue
					}
					if fe.Table != "" {
						rep.Ob("T4-encode-materialises-from-same-table", key+"["+pl.Conds+"]", fe.Table == fd.Table && fe.Key == fd.Key, a.P.Pos(fe.Pos),
							fmt.Sprintf("Encode fills the absent part from %s by %s, Decode uses %s by %s", fe.Table, fe.Key, fd.Table, fd.Key))
					} else {
						// the part the caller supplied – which must be there on this path: an arm taken when the field is nil
						// has to encode the part it built from the table, not the (absent) one the message came with
						absent := false
						for _, c := range pl.Path.Conds {
							v := c.V
							if v.Op != "binop" || len(v.Args) != 2 || !((v.Name == "==" && c.Taken) || (v.Name == "!=" && !c.Taken)) {
								continue
							}
							for side := 0; side < 2; side++ {
								if idx, isF := recvField(stripIface(stripCT(v.Args[side]))); isF && idx == fd.GoField && v.Args[1-side].IsNilConst() {
									absent = true
								}
							}
						}
						rep.Ob("T4-encode-uses-supplied-part", key+"["+pl.Conds+"]", !absent, a.P.Pos(fe.Pos),
							"on the arm taken when the dynamic part is absent, Encode is invoked on the message's own (nil) part instead of the one built from the table")
					}
				}
			}
			// misses are errors on both sides
			for dir, paths := range map[string][]*Path{"Decode": tl.R.DecPaths, "Encode": tl.R.EncPaths} {
				for _, p := range paths {
					if a.tableMiss(p) {
						rep.Ob("T3-miss-is-error", key+"."+dir, pathKind(p) == "err", dpos, dir+" continues after the discriminator was not found in its table")
					}
				}
			}
			// T5
			if t := a.tableByName(fd.Table); t != nil && keyIdx >= 0 {
				kf := tl.DecMain.Layout.Fields[keyIdx]
				if kf.Kind == "fixed" {
					for _, r := range t.Regs {
						if r.KeyVal == nil || r.KeyVal.Kind() != constant.String {
							continue
						}
						s := constant.StringVal(r.KeyVal)
						ok := int64(len(s)) <= kf.Width && s != ""
						if ok && kf.Pad != "" {
							pad := byte(0)
							fmt.Sscanf(kf.Pad, "%d", &pad)
							if kf.Side == "right" && s[len(s)-1] == pad || kf.Side == "left" && s[0] == pad {
								ok = false
							}
						}
						rep.Ob("T5-key-reachable", t.Name+"["+r.Key+"]", ok, a.P.Pos(r.Pos()),
							fmt.Sprintf("key %s can never equal a decoded %d-byte key field (too long, empty, or ends with the pad byte that is stripped)", r.Key, kf.Width))
					}
				}
			}
		}
	}
	rep.Counts["dynamic_parts"] = ndyn
	rep.Floor("tables", len(a.U.Tables), len(g.Tables))
	rep.Floor("registrations", nreg, goldenFloor("registrations", 226))
	rep.Floor("dynamic_parts", ndyn, 18)
	if len(a.U.Tables) > 0 && len(a.U.Tables[0].Regs) > 0 {
		rep.Sample(map[string]interface{}{"table": a.U.Tables[0].Name, "registrations": len(a.U.Tables[0].Regs), "first": a.U.Tables[0].Regs[0].Key + " -> " + a.U.Tables[0].Regs[0].Type})
	}
	var names []string
	for _, t := range a.U.Tables {
		names = append(names, fmt.Sprintf("%s:%d", t.Name, len(t.Regs)))
	}
	rep.Notes = append(rep.Notes, "tables: "+strings.Join(names, " "))
}

func (a *Analysis) tableByName(n string) *Table {
	for _, t := range a.U.Tables {
		if t.Name == n {
			return t
		}
	}
	return nil
}

// defensiveNilArm: the path is taken because the looked-up factory, or what it returned, compared equal to nil.
func defensiveNilArm(p *Path) bool {
	for _, c := range p.Conds {
		v := c.V
		if v.Op != "binop" || (v.Name != "==" && v.Name != "!=") || len(v.Args) != 2 || (v.Name == "==") != c.Taken {
			continue
		}
		for side := 0; side < 2; side++ {
			if !v.Args[1-side].IsNilConst() {
				continue
			}
			x := stripIface(stripCT(v.Args[side]))
			if x.Op == "dyncall" && len(x.Args) > 0 {
				x = stripCT(x.Args[0])
			}
			if x.Op == "lookup" {
				return true
			}
		}
	}
	return false
}

// pinnedTable: the table of the pinned schema that a table of the tree stands for. A table is the pinned one of the
// same name; a table whose name the pinned rendering does not know stands for the pinned table of the same package
// that no table of the tree is named after and that holds exactly the same assignments (the variable's name is not
// behaviour – which discriminators build which types is). Anything else has no pinned counterpart.
func (a *Analysis) pinnedTable(g *Golden, name string) string {
	a.pinnedOnce.Do(func() {
		a.pinned = map[string]string{}
		claimed := map[string]bool{}
		for _, t := range a.U.Tables {
			if _, ok := g.Tables[t.Name]; ok {
				a.pinned[t.Name] = t.Name
				claimed[t.Name] = true
			}
		}
		var free []string
		for n := range g.Tables {
			if !claimed[n] {
				free = append(free, n)
			}
		}
		sort.Strings(free)
		pkgOf := func(n string) string { return n[:strings.IndexByte(n+".", '.')] }
		for _, t := range a.U.Tables {
			if a.pinned[t.Name] != "" {
				continue
			}
			got := map[string]string{}
			dup := false
			for _, r := range t.Regs {
				if _, d := got[r.Key]; d {
					dup = true
				}
				got[r.Key] = r.Type
			}
			if dup {
				continue
			}
			for _, n := range free {
				if claimed[n] || pkgOf(n) != pkgOf(t.Name) || len(g.Tables[n]) != len(got) {
					continue
				}
				same := true
				for k, ty := range g.Tables[n] {
					if got[k] != ty {
						same = false
					}
				}
				if same {
					a.pinned[t.Name] = n
					claimed[n] = true
					break
				}
			}
		}
	})
	if n, ok := a.pinned[name]; ok {
		return n
	}
	return name
}

// discriminatorPremise: several properties argue from "the discriminator selects the pinned body type" (which type a
// key builds, on both sides, and that every other key is refused): C12 decides that; its violations are violations of
// the property that rests on it.
func (a *Analysis) discriminatorPremise(rep *Report, rule, why string) {
	scratch := NewReport("C12", "other", "quick", 0)
	a.CheckC12(scratch)
	n := 0
	for _, v := range scratch.Violations {
		// a key that the pinned schema does not have at all is a matter for C02 and C12 (the protocol was extended); the
		// properties that import this premise – round trip, consumption, re-encoding, truncation – need the two sides to
		// agree on the type a key builds, which the other table rules (T1 duplicate keys, T2, T3, T4) decide for it too
		if v.Rule == "T1-key-in-schema" {
			continue
		}
		n++
		rep.Ob(rule, v.Key, false, v.Pos, why+": "+v.Msg)
	}
	if n == 0 {
		rep.Ob(rule, "all-tables", true, "", "")
	}
}
