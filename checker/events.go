package main

import (
	"fmt"
	"go/token"
	"go/types"
	"strings"

	"golang.org/x/tools/go/ssa"
)

type EvKind int

const (
	EvWriteInt   EvKind = iota // binary.Write of a fixed-size number
	EvWriteBytes               // buf.Write / WriteString / WriteByte
	EvReadInt                  // binary.Read of a fixed-size number
	EvReadBytes                // io.ReadFull / buf.Read into a slice
	EvLen                      // buf.Len()
	EvBytes                    // buf.Bytes()
	EvPatch                    // ByteOrder.PutUintN into a slice of the buffer's bytes
	EvObj                      // x.Encode(buf) / x.Decode(buf) (not inlined)
	EvCalc                     // checksum service Calc(arg)
	EvRep                      // a loop, summarised
	EvAlt                      // alternatives inside an inlined callee with the same outcome
	EvBufOther                 // any other use of a buffer (Reset, Truncate, Next, escape, unmodelled callee)
	EvLock                     // mutex operation
	EvMapRead                  // m[k] / len(m) / range m
	EvMapWrite                 // m[k] = v / delete(m,k) / clear
	EvStore                    // store to non-local memory (receiver field, global, ...)
	EvLoadGlobal               // load from package-level memory
	EvAlloc                    // make([]T, n, c) / make(map) / bytes.Repeat / Grow
	EvPanicSite                // an instruction that may panic, with its operands
	EvCall                     // call that is neither inlined nor modelled as an effect above
	EvGo                       // go statement / channel operation / select
	EvLookup                   // discriminator-table (or other map) lookup result used as factory
	EvAtomic                   // method of sync/atomic.Pointer: Load / Store / Swap / CompareAndSwap (Recv: the variable, Src: value stored)
)

var evKindName = map[EvKind]string{
	EvWriteInt: "WRITE_INT", EvWriteBytes: "WRITE_BYTES", EvReadInt: "READ_INT", EvReadBytes: "READ_BYTES",
	EvLen: "LEN", EvBytes: "BYTES", EvPatch: "PATCH", EvObj: "OBJ", EvCalc: "CALC", EvRep: "REP", EvAlt: "ALT",
	EvBufOther: "BUF_OTHER", EvLock: "LOCK", EvMapRead: "MAP_READ", EvMapWrite: "MAP_WRITE", EvStore: "STORE",
	EvLoadGlobal: "LOAD_GLOBAL", EvAlloc: "ALLOC", EvPanicSite: "PANIC_SITE", EvCall: "CALL", EvGo: "GO", EvLookup: "LOOKUP", EvAtomic: "ATOMIC",
}

func (k EvKind) String() string { return evKindName[k] }

// CallSite is a link in the inlining chain of an event.
type CallSite struct {
	Instr  ssa.CallInstruction
	Callee *ssa.Function
	Parent *CallSite
}

type Cond struct {
	V     *Val
	Taken bool
	Pos   token.Pos
	Fn    *ssa.Function
	At    ssa.Instruction // the branch instruction the condition was decided at (nil when synthesised)
}

func (c Cond) String() string {
	if c.Taken {
		return c.V.Pretty()
	}
	return "!(" + c.V.Pretty() + ")"
}

type Arm struct {
	Conds  []Cond
	Events []*Event
	Next   map[string]*Val // loop iterations: value of each header phi on the back edge
	Local  []*Event        // loop iterations: element stores into memory made on this path (no STORE event is emitted for those)
}

type Event struct {
	ID    int
	Kind  EvKind
	Pos   token.Pos
	Fn    *ssa.Function
	Site  *CallSite
	Instr ssa.Instruction
	NCond int // number of path conditions in force when the event happened (index into the path's Conds)
	Own   []Cond // further conditions in force for this event only: those of the way through a callee it lies on, when ways that differ in nothing but pure computation were joined into one outcome

	Buf     *Val       // buffer operated on
	IntType types.Type // INT atoms
	Order   string     // "BE" | "LE" | "" (single byte / n.a.) | "?" (not a syntactic constant)
	Src     *Val       // value written / patched / stored / allocated size
	Dst     *Val       // address written (read destination, store address, patch target slice)
	Size    *Val       // byte length for BYTES atoms
	Failed  bool       // the failing outcome of a consuming atom / OBJ / lookup
	Short   bool       // READ_BYTES through (*Buffer).Read that came back short
	Mode    string     // READ_BYTES: "ReadFull" | "Read"; LOCK: Lock/Unlock/RLock/RUnlock; PANIC_SITE kind; BUF_OTHER what; ALLOC what

	Recv    *Val         // OBJ receiver / CALC service / LOCK mutex address / MAP holder
	ObjType types.Type   // static receiver type of OBJ when statically dispatched (pointer type), else interface type
	Callee  *ssa.Function // OBJ static callee / EvCall callee
	Dir     string       // OBJ: "Encode" | "Decode" | other method name
	Args    []*Val       // EvCall / CALC arg / PANIC_SITE operands / MAP key

	Count    *Val   // REP
	Iter     []*Arm // REP: alternative iteration bodies ; ALT: arms
	Partial  bool   // REP: loop left early in the iteration that follows
	LoopID   int
	Bounded  string // REP: how the trip count is bounded ("counted", "range", "" = unrecognised)
	Inv      *Val   // REP: a relation that holds at the start of every iteration (counter within its bound), or nil
	Invs     []*Val // REP: further relations that hold at the start of every iteration (a slice as long as its lock-step counter)
	Deferred bool
	Once     bool // the event belongs to the body of a sync.Once.Do (it happened here or in whichever goroutine came first)
}

func (e *Event) String() string {
	var b strings.Builder
	fmt.Fprintf(&b, "%s", e.Kind)
	switch e.Kind {
	case EvWriteInt:
		fmt.Fprintf(&b, "(%s,%s) <- %s", typeStr(e.IntType), e.Order, e.Src.Pretty())
	case EvReadInt:
		fmt.Fprintf(&b, "(%s,%s) -> wire#%d", typeStr(e.IntType), e.Order, e.ID)
		if e.Failed {
			b.WriteString(" FAILED")
		}
	case EvWriteBytes:
		fmt.Fprintf(&b, "(%s) <- %s", e.Size.Pretty(), e.Src.Pretty())
	case EvReadBytes:
		fmt.Fprintf(&b, "[%s](%s) -> wire#%d", e.Mode, e.Size.Pretty(), e.ID)
		if e.Failed {
			b.WriteString(" FAILED")
		}
		if e.Short {
			b.WriteString(" SHORT")
		}
	case EvLen, EvBytes:
		fmt.Fprintf(&b, "@%d", e.ID)
	case EvPatch:
		fmt.Fprintf(&b, "(%s,%s) %s <- %s", typeStr(e.IntType), e.Order, e.Dst.Pretty(), e.Src.Pretty())
	case EvObj:
		fmt.Fprintf(&b, " %s.%s", e.Recv.Pretty(), e.Dir)
		if e.ObjType != nil {
			fmt.Fprintf(&b, " [%s]", typeStr(e.ObjType))
		}
		if e.Failed {
			b.WriteString(" FAILED")
		}
	case EvCalc:
		fmt.Fprintf(&b, " %s.Calc(%s)", e.Recv.Pretty(), prettyVals(e.Args))
	case EvRep:
		fmt.Fprintf(&b, "#%d(count=%s, %s, partial=%v){", e.LoopID, e.Count.Pretty(), e.Bounded, e.Partial)
		for i, a := range e.Iter {
			if i > 0 {
				b.WriteString(" | ")
			}
			b.WriteString(eventsString(a.Events))
		}
		b.WriteString("}")
	case EvAlt:
		b.WriteString("{")
		for i, a := range e.Iter {
			if i > 0 {
				b.WriteString(" | ")
			}
			var cs []string
			for _, c := range a.Conds {
				cs = append(cs, c.String())
			}
			b.WriteString("[" + strings.Join(cs, " && ") + "] " + eventsString(a.Events))
		}
		b.WriteString("}")
	case EvBufOther, EvLock, EvPanicSite, EvAlloc, EvAtomic:
		fmt.Fprintf(&b, " %s", e.Mode)
		if e.Recv != nil {
			fmt.Fprintf(&b, " %s", e.Recv.Pretty())
		}
		if len(e.Args) > 0 {
			fmt.Fprintf(&b, " (%s)", prettyVals(e.Args))
		}
		if e.Src != nil {
			fmt.Fprintf(&b, " %s", e.Src.Pretty())
		}
	case EvStore:
		fmt.Fprintf(&b, " %s <- %s", e.Dst.Pretty(), e.Src.Pretty())
	case EvMapRead, EvMapWrite:
		fmt.Fprintf(&b, " %s %s", e.Mode, e.Recv.Pretty())
	case EvCall:
		fmt.Fprintf(&b, " %s(%s)", e.Mode, prettyVals(e.Args))
	case EvLookup, EvLoadGlobal:
		if e.Recv != nil {
			fmt.Fprintf(&b, " %s", e.Recv.Pretty())
		}
	}
	return b.String()
}

func prettyVals(vs []*Val) string {
	var s []string
	for _, v := range vs {
		s = append(s, v.Pretty())
	}
	return strings.Join(s, ", ")
}

func eventsString(evs []*Event) string {
	var s []string
	for _, e := range evs {
		s = append(s, e.String())
	}
	return strings.Join(s, " · ")
}

// Path is one analysed path through a root function.
type Path struct {
	Events []*Event
	Conds  []Cond
	Ret    []*Val
	RetContent []*Val    // what each returned slice holds when the function returns (nil where that is the value itself)
	Panic  bool          // path ends in an explicit panic
	Mem    map[string]memEntry
	Trunc  string // non-empty: analysis gave up on this path (reason)
}

type memEntry struct {
	Addr *Val
	V    *Val
}

// Iter0Events: the events of all arms of a REP/ALT, one after the other.
func (e *Event) Iter0Events() []*Event {
	var out []*Event
	for _, a := range e.Iter {
		out = append(out, a.Events...)
	}
	return out
}

// walkEvents visits every event including those nested in REP/ALT arms.
func walkEvents(evs []*Event, f func(e *Event, depth int)) {
	var rec func(evs []*Event, d int)
	rec = func(evs []*Event, d int) {
		for _, e := range evs {
			f(e, d)
			for _, a := range e.Iter {
				rec(a.Events, d+1)
			}
		}
	}
	rec(evs, 0)
}
