package main

import (
	"go/types"
	"encoding/json"
	"fmt"
	"os"
	"path/filepath"
	"sort"
	"strings"

	"golang.org/x/tools/go/ssa"
)

// declared byte order per protocol unit – this is the statement of C03.
var declaredOrder = map[string]string{"sse": "BE", "szse": "BE", "risk": "BE", "bjse": "LE", "sample": "LE"}

// ---------------------------------------------------------------------------
// shared: the primary layouts of a type

type TypeLayouts struct {
	R        *TypeResult
	EncMain  *PathLayout   // encode success path with the dynamic part present (materialised or supplied)
	EncAll   []*PathLayout // all encode success paths with a body
	EncNil   []*PathLayout // body-nil arms (outside C01's domain)
	DecMain  *PathLayout
	decMainZero bool
	Problems []string
}

func dynFill(dst, src *FieldLayout) {
	if dst.Kind == "dyn" && src.Kind == "dyn" && dst.Table == "" {
		dst.Table, dst.Key = src.Table, src.Key
	}
	if dst.Kind == "list" && dst.ZeroList && dst.Elem == nil && src.Kind == "list" {
		dst.Elem = src.Elem // zero elements read: any element layout
	}
}

// sameShape compares two layouts field by field, tolerating an unfilled dyn table.
func sameShape(a, b *Layout, wire bool) (int, string) {
	if len(a.Fields) != len(b.Fields) {
		return min(len(a.Fields), len(b.Fields)), fmt.Sprintf("%d fields vs %d fields", len(a.Fields), len(b.Fields))
	}
	for i := range a.Fields {
		fa, fb := *a.Fields[i], *b.Fields[i]
		if fa.Kind == "dyn" && fb.Kind == "dyn" {
			if fa.Table == "" {
				fa.Table, fa.Key = fb.Table, fb.Key
			}
			if fb.Table == "" {
				fb.Table, fb.Key = fa.Table, fa.Key
			}
		}
		dynFill(&fa, &fb)
		dynFill(&fb, &fa)
		ca, cb := fa.Canon(), fb.Canon()
		if wire {
			ca, cb = fa.WireCanon(), fb.WireCanon()
		}
		if ca != cb {
			return i, ca + "  vs  " + cb
		}
	}
	return -1, ""
}

func (a *Analysis) Layouts(ct *CodecType) *TypeLayouts {
	r := a.Result(ct)
	tl := &TypeLayouts{R: r}
	if r.EncErr != nil {
		tl.Problems = append(tl.Problems, "Encode: "+r.EncErr.Error())
	}
	if r.DecErr != nil {
		tl.Problems = append(tl.Problems, "Decode: "+r.DecErr.Error())
	}
	for _, pl := range r.Enc {
		if pl.BodyNil {
			tl.EncNil = append(tl.EncNil, pl)
		} else {
			tl.EncAll = append(tl.EncAll, pl)
		}
	}
	// prefer the arm that materialises the dynamic part (it names the table)
	for _, pl := range tl.EncAll {
		if tl.EncMain == nil {
			tl.EncMain = pl
		}
		for _, f := range pl.Layout.Fields {
			if f.Kind == "dyn" && f.Table != "" {
				tl.EncMain = pl
			}
		}
	}
	// the reference decode path reads elements of every list
	for _, pl := range r.Dec {
		zero := false
		for _, f := range pl.Layout.Fields {
			if f.ZeroList {
				zero = true
			}
		}
		if tl.DecMain == nil || (!zero && tl.decMainZero) {
			tl.DecMain, tl.decMainZero = pl, zero
		}
	}
	return tl
}

func layoutJSON(l *Layout) []map[string]interface{} {
	b, _ := json.Marshal(l.Fields)
	var out []map[string]interface{}
	json.Unmarshal(b, &out)
	return out
}

// ---------------------------------------------------------------------------
// C01 – Encode and Decode are mirror images

func (a *Analysis) CheckC01(rep *Report) {
	rep.Explanation = "Structural inverse-ness: for each of the codec types the flattened wire term of Encode and of Decode (all module callees inlined down to encoding/binary, bytes.Buffer and io atoms; loops summarised) are compared position by position: same atom kind, number type, byte order, byte-length expression, repetition structure bound to the same prefix, same nested type, same receiver field as source and destination, same discriminator table and key for dynamic parts, and no value transformation outside the lossless allow-list on either side. This decides the round trip for every value of the canonical domain under the axioms about encoding/binary, bytes.Buffer and io.ReadFull; it does not execute anything. M3: the fields a frame computes itself (length, checksum) are judged by C04 and C05, whose violations are violations here too – a frame whose patch may miss its placeholder or whose checksum covers the wrong bytes does not round-trip."
	rep.Trusted = trustedBase()
	rep.Exhaustive = true
	nfields := 0
	for _, ct := range a.U.Types {
		tl := a.Layouts(ct)
		pos := a.P.Pos(ct.Encode.Pos())
		if !rep.Ob("M0-analysable", ct.Name, len(tl.Problems) == 0, pos, strings.Join(tl.Problems, "; ")) {
			continue
		}
		if !rep.Ob("M0-success-path", ct.Name+".Encode", tl.EncMain != nil, pos, "Encode has no success path the analysis could follow") ||
			!rep.Ob("M0-success-path", ct.Name+".Decode", tl.DecMain != nil, a.P.Pos(ct.Decode.Pos()), "Decode has no success path the analysis could follow") {
			continue
		}
		// all encode arms with a body agree; all decode success paths agree
		for _, pl := range tl.EncAll {
			i, d := sameShape(tl.EncMain.Layout, pl.Layout, false)
			rep.Ob("M1-encode-arms-agree", ct.Name+"["+pl.Conds+"]", i < 0, pos, fmt.Sprintf("encode paths disagree at field %d: %s", i, d))
		}
		for _, pl := range tl.R.Dec {
			i, d := sameShape(tl.DecMain.Layout, pl.Layout, false)
			rep.Ob("M1-decode-paths-agree", ct.Name+"["+pl.Conds+"]", i < 0, a.P.Pos(ct.Decode.Pos()), fmt.Sprintf("decode paths disagree at field %d: %s", i, d))
		}
		rej := a.spuriousRejections(tl.R.DecPaths, false)
		rep.Ob("M6-decoder-rejects-only-truncation", ct.Name, len(rej) == 0, a.P.Pos(ct.Decode.Pos()),
			"Decode can return an error although every read succeeded and the discriminator is known – it refuses bytes the encoder may produce: "+strings.Join(rej, "; "))
		enc, dec := tl.EncMain.Layout, tl.DecMain.Layout
		rep.Ob("M1-same-length", ct.Name, len(enc.Fields) == len(dec.Fields), pos,
			fmt.Sprintf("Encode writes %d fields, Decode reads %d: enc=[%s] dec=[%s]", len(enc.Fields), len(dec.Fields), enc.WireCanon(), dec.WireCanon()))
		n := min(len(enc.Fields), len(dec.Fields))
		for i := 0; i < n; i++ {
			fe, fd := enc.Fields[i], dec.Fields[i]
			nfields++
			key := fmt.Sprintf("%s#%d(%s)", ct.Name, i, fe.Name)
			fpos := a.P.Pos(fe.Pos)
			if fe.Kind == "irregular" || fd.Kind == "irregular" {
				note := fe.Note
				p := fpos
				if fd.Kind == "irregular" {
					note, p = fd.Note, a.P.Pos(fd.Pos)
				}
				rep.Ob("M1-recognised", key, false, p, "wire atom not recognised as a field: "+note)
				continue
			}
			e2, d2 := *fe, *fd
			dynFill(&e2, &d2)
			dynFill(&d2, &e2)
			rep.Ob("M1-mirror", key, e2.WireCanon() == d2.WireCanon(), fpos,
				fmt.Sprintf("Encode writes %s but Decode (%s) reads %s", e2.WireCanon(), a.P.Pos(fd.Pos), d2.WireCanon()))
			rep.Ob("M1-same-field", key, fe.GoField == fd.GoField && fe.GoField >= 0, fpos,
				fmt.Sprintf("bytes written from field %q are read into field %q (%s)", fe.Name, fd.Name, a.P.Pos(fd.Pos)))
			if fd.Kind == "dyn" {
				dup := a.duplicateKeys(fd.Table)
				rep.Ob("M2-table-unambiguous", key, dup == "", fpos, "discriminator table "+fd.Table+" registers "+dup+" more than once: which body type decodes depends on init order")
			}
			if fe.Kind == "dyn" || fd.Kind == "dyn" {
				rep.Ob("M2-dynamic-part", key, fe.Kind == fd.Kind && (fe.Table == "" || (fe.Table == fd.Table && fe.Key == fd.Key)), fpos,
					fmt.Sprintf("encoder materialises from %s by %s, decoder from %s by %s", fe.Table, fe.Key, fd.Table, fd.Key))
			}
			eops, dops := opsOnAllPaths(tl.EncAll, i), opsOnAllPaths(tl.R.Dec, i)
			rep.Ob("M5-lossless-encode", key, len(eops) == 0, fpos, "value transformed while encoding: "+strings.Join(eops, "; "))
			rep.Ob("M5-lossless-decode", key, len(dops) == 0, a.P.Pos(fd.Pos), "value transformed while decoding: "+strings.Join(dops, "; "))
		}
		if len(rep.Samples) < 4 {
			rep.Sample(map[string]interface{}{"type": ct.Name, "encode": enc.WireCanon(), "decode": dec.WireCanon(), "body_nil_arms_not_compared": len(tl.EncNil)})
		}
	}
	// M3: the statement compares computed length and checksum fields "against their correct values": the frames' own
	// computations are judged by C04 and C05 (which includes C14); a frame that fails there does not round-trip
	for _, sub := range []struct {
		id  string
		run func(*Report)
	}{{"C04", a.CheckC04}, {"C05", a.CheckC05}} {
		scratch := NewReport(sub.id, "other", "quick", 0)
		sub.run(scratch)
		for _, v := range scratch.Violations {
			rep.Ob("M3-computed-fields-verified-by-"+sub.id, v.Key, false, v.Pos, "a field the frame computes itself does not pass "+sub.id+": "+v.Msg)
		}
		if len(scratch.Violations) == 0 {
			rep.Ob("M3-computed-fields-verified-by-"+sub.id, "all-frames", true, "", "")
		}
	}
	// M7: "body/extension type matching its discriminator": a message whose extension is the one the schema pairs with
	// its discriminator value comes back as that type only if the table builds it for that value (C12)
	a.discriminatorPremise(rep, "M7-discriminators-verified-by-C12", "the discriminator does not build the pinned type, so a message carrying that type does not come back as it went")
	rep.Floor("codec_types", len(a.U.Types), goldenFloor("types", 170))
	rep.Counts["field_pairs"] = nfields
	rep.Floor("field_pairs", nfields, goldenFloor("fields", 1000))
}

func allValueOps(f *FieldLayout) []string {
	ops := append([]string(nil), f.ValueOps...)
	if f.Elem != nil {
		ops = append(ops, allValueOps(f.Elem)...)
	}
	return ops
}

func trustedBase() []string {
	return []string{
		"Go type checker and go/ssa construction (x/tools v0.50.0)",
		"encoding/binary.Write/Read move exactly Size(v) bytes in the given ByteOrder, are mutually inverse on fixed-size numbers, Read fails on a short buffer",
		"bytes.Buffer: Write/WriteString append copies; Len/Bytes describe the unread region; Read consumes min(len(p),Len()); io.ReadFull consumes len(p) or fails",
		"bytes.TrimLeft/TrimRight with an ASCII cutset, bytes.Repeat, fmt.Errorf/errors.New non-nil",
		"stdlib model in checker/calls.go (one entry per modelled function)",
	}
}

// ---------------------------------------------------------------------------
// golden tables

type Golden struct {
	Note    string                       `json:"note"`
	Schemas map[string]string            `json:"schemas"` // informational: PROTO_DSL per module
	Types   map[string][]*FieldLayout    `json:"types"`
	Tables  map[string]map[string]string `json:"tables"` // table -> key -> body type
	TableKeyField map[string]string      `json:"table_key_field"`
}

var goldenCache *Golden
var goldenDir = "/verif/golden"

func loadGolden() (*Golden, error) {
	if goldenCache != nil {
		return goldenCache, nil
	}
	b, err := os.ReadFile(filepath.Join(goldenDir, "golden.json"))
	if err != nil {
		return nil, err
	}
	g := &Golden{}
	if err := json.Unmarshal(b, g); err != nil {
		return nil, err
	}
	goldenCache = g
	return g, nil
}

// goldenFloor: instance floors come from the golden tables, not from separate constants.
func goldenFloor(what string, fallback int) int {
	g, err := loadGolden()
	if err != nil {
		return fallback
	}
	switch what {
	case "types":
		return len(g.Types)
	case "tables":
		return len(g.Tables)
	case "registrations":
		n := 0
		for _, t := range g.Tables {
			n += len(t)
		}
		return n
	case "fields":
		n := 0
		for _, fs := range g.Types {
			n += len(fs)
		}
		return n
	}
	return fallback
}

func (a *Analysis) EmitGolden(path string) error {
	g := &Golden{
		Note: "Frozen rendering of the wire layouts and discriminator tables of the pinned fin-proto-go tree (generator output for sse_bin_v0.57, szse_bin_v1.29, bse_trade_bin_v0.9, risk_v0.1.0, sample). The .pdsl schema files are not in the repository; this table is the oracle for C02/C12. Generated once by `fpcheck -emit-golden`; never rewritten by a check.",
		Schemas: map[string]string{}, Types: map[string][]*FieldLayout{}, Tables: map[string]map[string]string{}, TableKeyField: map[string]string{},
	}
	for _, ct := range a.U.Types {
		tl := a.Layouts(ct)
		if tl.EncMain == nil || tl.DecMain == nil {
			return fmt.Errorf("%s: no layout", ct.Name)
		}
		var fs []*FieldLayout
		for i, f := range tl.EncMain.Layout.Fields {
			c := *f
			if i < len(tl.DecMain.Layout.Fields) {
				dynFill(&c, tl.DecMain.Layout.Fields[i])
			}
			if c.Kind == "irregular" {
				return fmt.Errorf("%s: irregular field %s: %s", ct.Name, c.Name, c.Note)
			}
			fs = append(fs, &c)
		}
		if i, d := sameShape(&Layout{Fields: fs}, tl.DecMain.Layout, true); i >= 0 {
			return fmt.Errorf("%s: encode/decode differ at %d: %s", ct.Name, i, d)
		}
		g.Types[ct.Name] = fs
	}
	for _, t := range a.U.Tables {
		m := map[string]string{}
		for _, r := range t.Regs {
			if _, dup := m[r.Key]; dup {
				return fmt.Errorf("%s: duplicate key %s", t.Name, r.Key)
			}
			m[r.Key] = r.Type
		}
		g.Tables[t.Name] = m
	}
	for _, ct := range a.U.Types {
		for _, f := range g.Types[ct.Name] {
			if f.Kind == "dyn" {
				g.TableKeyField[f.Table] = ct.Name + "." + f.Key
			}
		}
	}
	for _, mod := range []string{"sse-bin", "szse-bin", "bjse-trade-bin", "risk-bin", "sample-bin"} {
		b, err := os.ReadFile(filepath.Join(a.P.RepoDir, mod, "Makefile"))
		if err == nil {
			for _, line := range strings.Split(string(b), "\n") {
				if strings.HasPrefix(line, "PROTO_DSL") {
					g.Schemas[mod] = strings.TrimSpace(line[strings.Index(line, "=")+1:])
				}
			}
		}
	}
	b, err := json.MarshalIndent(g, "", " ")
	if err != nil {
		return err
	}
	return os.WriteFile(path, append(b, '\n'), 0o644)
}

// ---------------------------------------------------------------------------
// C02 – layouts equal the frozen schema rendering

func (a *Analysis) CheckC02(rep *Report) {
	rep.Explanation = "For every codec type, the wire layout extracted from Encode and, independently, the layout extracted from Decode (field order, wire name, kind, number type, width, byte order, pad byte and side, prefix type, element layout, nested type, discriminator table and key field, computed-length and checksum annotations) are compared with the frozen rendering of the pinned generator output in golden/golden.json (G1, G2). G3: on every encode arm and decode path each field is rendered from the value's bytes as they are (an over-long text cut to exactly its first N bytes, a short one padded, numbers bit for bit) – the value transformations C01 M5 looks for are deviations from the schema's rendering too. The .pdsl schema files are not in the repository (empty submodule), so this frozen table is the only available oracle; it is keyed by type and wire field name, not by source text."
	rep.Trusted = append(trustedBase(), "golden/golden.json is a faithful rendering of the pinned schema (audited: generated test literals agree with every text width; session messages spot-checked against the public interface documents)")
	rep.Exhaustive = true
	g, err := loadGolden()
	if err != nil {
		rep.Fatal = append(rep.Fatal, "golden table: "+err.Error())
		return
	}
	seen := map[string]bool{}
	for _, ct := range a.U.Types {
		seen[ct.Name] = true
		gold, ok := g.Types[ct.Name]
		pos := a.P.Pos(ct.Encode.Pos())
		if !rep.Ob("G2-type-in-schema", ct.Name, ok, pos, "codec type is not in the pinned schema rendering") {
			continue
		}
		tl := a.Layouts(ct)
		if !rep.Ob("G0-analysable", ct.Name, len(tl.Problems) == 0 && tl.EncMain != nil && tl.DecMain != nil, pos, "layout could not be extracted: "+strings.Join(tl.Problems, "; ")) {
			continue
		}
		check := func(dir string, l *Layout, wire bool) {
			rep.Ob("G1-field-count", ct.Name+"."+dir, len(l.Fields) == len(gold), pos,
				fmt.Sprintf("%s has %d wire fields, the schema has %d: [%s]", dir, len(l.Fields), len(gold), l.WireCanon()))
			for i := 0; i < min(len(l.Fields), len(gold)); i++ {
				f := *l.Fields[i]
				dynFill(&f, gold[i])
				if f.Kind == "dyn" {
					f.Table = a.pinnedTable(g, f.Table) // a table is identified by what it assigns, not by its variable's name
				}
				got, want := f.Canon(), gold[i].Canon()
				if wire {
					got, want = f.WireCanon(), gold[i].WireCanon()
				}
				rep.Ob("G1-field", fmt.Sprintf("%s.%s#%d(%s)", ct.Name, dir, i, gold[i].Name), got == want, a.P.Pos(l.Fields[i].Pos),
					fmt.Sprintf("%s renders field %d as %s; the pinned schema says %s", dir, i, got, want))
				// the schema's rendering of a value is its bytes as they are – the first N of an over-long text, padded when
				// short, numbers bit for bit: any other treatment of the value differs from the schema's interpreter on some value
				if ops := allValueOps(l.Fields[i]); len(ops) > 0 {
					rep.Ob("G3-value-rendered-verbatim", fmt.Sprintf("%s.%s#%d(%s)", ct.Name, dir, i, gold[i].Name), false, a.P.Pos(l.Fields[i].Pos),
						fmt.Sprintf("%s does not render field %d from the value's bytes as they are: %s", dir, i, strings.Join(ops, "; ")))
				}
			}
			rep.Ob("G3-value-rendered-verbatim", ct.Name+"."+dir, true, "", "")
		}
		for _, pl := range tl.EncAll {
			check("Encode", pl.Layout, false)
		}
		for _, pl := range tl.R.Dec {
			check("Decode", pl.Layout, true)
		}
		if len(rep.Samples) < 3 {
			rep.Sample(map[string]interface{}{"type": ct.Name, "schema": (&Layout{Fields: gold}).Canon(), "encode": tl.EncMain.Layout.Canon(), "decode": tl.DecMain.Layout.WireCanon()})
		}
	}
	var missing []string
	for name := range g.Types {
		if !seen[name] {
			missing = append(missing, name)
		}
	}
	sort.Strings(missing)
	for _, m := range missing {
		rep.Ob("G2-schema-type-present", m, false, "-", "type of the pinned schema has no Encode/Decode pair in the tree")
	}
	// G4: the schema's interpreter writes the computed fields with their correct values (the body's length, the
	// checksum of the frame): whether the frames compute and place them correctly is what C04 and C05 decide – a frame
	// that fails there differs from the interpreter byte for byte on some value or buffer state
	for _, sub := range []struct {
		id  string
		run func(*Report)
	}{{"C04", a.CheckC04}, {"C05", a.CheckC05}} {
		scratch := NewReport(sub.id, "other", "quick", 0)
		sub.run(scratch)
		for _, v := range scratch.Violations {
			rep.Ob("G4-computed-fields-verified-by-"+sub.id, v.Key, false, v.Pos, "a field the schema computes does not pass "+sub.id+": "+v.Msg)
		}
		if len(scratch.Violations) == 0 {
			rep.Ob("G4-computed-fields-verified-by-"+sub.id, "all-frames", true, "", "")
		}
	}
	// G5: "discriminators selecting the pinned body type": which body or extension a discriminator value selects – on
	// both sides, for every value, registered or not – is what C12 decides against the pinned tables
	{
		scratch := NewReport("C12", "other", "quick", 0)
		a.CheckC12(scratch)
		for _, v := range scratch.Violations {
			rep.Ob("G5-discriminators-verified-by-C12", v.Key, false, v.Pos, "a discriminator does not select the pinned body type: "+v.Msg)
		}
		if len(scratch.Violations) == 0 {
			rep.Ob("G5-discriminators-verified-by-C12", "all-tables", true, "", "")
		}
	}
	rep.Floor("codec_types", len(a.U.Types), len(g.Types))
	rep.Notes = append(rep.Notes, "PROTO_DSL names recorded when the table was frozen (informational only): "+fmt.Sprint(g.Schemas))
}

// ---------------------------------------------------------------------------
// C03 – one byte order per protocol

// numberAtom: layout kinds that are one number on the wire.
var numberAtom = map[string]bool{"int": true, "len": true, "checksum": true, "const": true}

func orderAtoms(f *FieldLayout, visit func(what, order string, f *FieldLayout)) {
	switch f.Kind {
	case "int", "len", "checksum", "const":
		visit(f.Kind+" "+f.Type, f.Order, f)
	case "ptext":
		visit("length prefix "+f.Prefix, f.POrder, f)
	case "list":
		visit("count prefix "+f.Prefix, f.POrder, f)
		if f.Elem != nil {
			orderAtoms(f.Elem, func(w, o string, _ *FieldLayout) { visit("element "+w, o, f) })
		}
	}
}

// frameReachable: types reachable from the frames (types with an integer-keyed table) of their package.
func (a *Analysis) frameReachable() map[string]bool {
	reach := map[string]bool{}
	var work []string
	add := func(n string) {
		if n != "" && !reach[n] && a.U.TypeByName[n] != nil {
			reach[n] = true
			work = append(work, n)
		}
	}
	tbl := map[string]*Table{}
	for _, t := range a.U.Tables {
		tbl[t.Name] = t
	}
	for _, ct := range a.U.Types {
		tl := a.Layouts(ct)
		if tl.DecMain == nil {
			continue
		}
		for _, f := range tl.DecMain.Layout.Fields {
			if f.Kind == "dyn" {
				if t := tbl[f.Table]; t != nil && isIntegerType(t.KeyType) {
					add(ct.Name)
				}
			}
		}
	}
	for len(work) > 0 {
		n := work[len(work)-1]
		work = work[:len(work)-1]
		tl := a.Layouts(a.U.TypeByName[n])
		if tl.DecMain == nil {
			continue
		}
		var visit func(f *FieldLayout)
		visit = func(f *FieldLayout) {
			switch f.Kind {
			case "obj":
				add(f.Obj)
			case "dyn":
				if t := tbl[f.Table]; t != nil {
					for _, r := range t.Regs {
						add(r.Type)
					}
				}
			case "list":
				if f.Elem != nil {
					visit(f.Elem)
				}
			}
		}
		for _, f := range tl.DecMain.Layout.Fields {
			visit(f)
		}
		if tl.EncMain != nil {
			for _, f := range tl.EncMain.Layout.Fields {
				visit(f)
			}
		}
	}
	return reach
}

func (a *Analysis) CheckC03(rep *Report, tier string) {
	rep.Explanation = "Every multi-byte number a message puts on or takes off the wire passes through an encoding/binary atom whose ByteOrder argument is a syntactic constant (the type binary.bigEndian or binary.littleEndian). B1: in the flattened term of every Encode and Decode of a protocol unit, each such atom (scalar, list count, list element, text length prefix, length placeholder, in-place patch, checksum trailer) has the unit's declared order. B2: every codec primitive, generic body and every instantiation, is order-pure. B3: each F/FLE twin pair has identical path structure with every order flipped and nothing else changed."
	rep.Trusted = append(trustedBase(), "declared order per unit (the property statement): sse, szse, risk = BE; bjse, sample = LE")
	rep.Exhaustive = true
	reach := a.frameReachable()
	if os.Getenv("FPCHECK_DEBUG") != "" {
		var rs []string
		for k := range reach {
			rs = append(rs, k)
		}
		sort.Strings(rs)
		fmt.Println("reachable:", len(rs), rs)
	}
	natoms := 0
	for _, ct := range a.U.Types {
		tl := a.Layouts(ct)
		pos := a.P.Pos(ct.Encode.Pos())
		if !rep.Ob("B0-analysable", ct.Name, len(tl.Problems) == 0 && tl.EncMain != nil && tl.DecMain != nil, pos, "not analysable: "+strings.Join(tl.Problems, "; ")) {
			continue
		}
		want := declaredOrder[ct.Pkg]
		uniform := ""
		if !reach[ct.Name] && !a.generatedFile(ct) {
			// hand-written codec outside every frame and table of its package: a unit of its own, which must be internally uniform
			want = ""
		}
		checkLayout := func(dir string, l *Layout) {
			for _, f := range l.Fields {
				orderAtoms(f, func(what, order string, ff *FieldLayout) {
					if order == "" { // single byte
						return
					}
					natoms++
					key := fmt.Sprintf("%s.%s.%s[%s]", ct.Name, dir, ff.Name, what)
					if order == "?" {
						rep.Ob("B1-order-constant", key, false, a.P.Pos(ff.Pos), "byte order is not a syntactic constant")
						return
					}
					w := want
					if w == "" {
						if uniform == "" {
							uniform = order
						}
						w = uniform
					}
					rep.Ob("B1-unit-order", key, order == w, a.P.Pos(ff.Pos),
						fmt.Sprintf("%s of %s is %s-endian in a %s-endian protocol unit (chosen at %s)", what, ff.Name, order, w, a.primSite(ff)))
				})
			}
		}
		// every success path must render every atom recognisably: bytes that reach the wire outside a number atom where
		// the main rendering has a multi-byte number (e.g. a digest's Sum(nil) appended as raw bytes) have no established order
		established := func(dir string, pl *PathLayout, main *Layout) {
			for i, f := range pl.Layout.Fields {
				bad := ""
				switch {
				case f.Kind == "irregular":
					bad = f.Note
				case main != nil && len(main.Fields) == len(pl.Layout.Fields) && f.Kind != main.Fields[i].Kind && !(numberAtom[f.Kind] && numberAtom[main.Fields[i].Kind]):
					multi := false
					orderAtoms(main.Fields[i], func(_, order string, _ *FieldLayout) {
						if order != "" {
							multi = true
						}
					})
					if multi {
						bad = "rendered as " + f.Canon() + " where the other paths render " + main.Fields[i].Canon()
					}
				}
				if bad != "" {
					rep.Ob("B1-order-established", fmt.Sprintf("%s.%s#%d[%s]", ct.Name, dir, i, pl.Conds), false, a.P.Pos(f.Pos),
						"on this path the bytes of field "+f.Name+" do not pass through a recognised number atom, so their byte order cannot be established: "+bad)
				}
			}
		}
		for _, pl := range tl.R.Enc {
			if !pl.BodyNil {
				established("Encode", pl, tl.EncMain.Layout)
			}
		}
		// byte order must not depend on what the checksum registry holds: the success paths on which a service is
		// missing or of another type (pruned elsewhere under the start-up assumption) are judged here as well
		inEnc := map[*Path]bool{}
		for _, pl := range tl.R.Enc {
			inEnc[pl.Path] = true
		}
		for _, p := range tl.R.EncPaths {
			if pathKind(p) != "ok" || inEnc[p] {
				continue
			}
			pl := a.encLayout(ct, p)
			if !pl.BodyNil {
				established("Encode", pl, tl.EncMain.Layout)
			}
			checkLayout("Encode", pl.Layout)
		}
		for _, pl := range tl.R.Dec {
			established("Decode", pl, tl.DecMain.Layout)
		}
		rep.Ob("B1-order-established", ct.Name, true, "", "")
		for _, pl := range tl.R.Enc {
			checkLayout("Encode", pl.Layout)
			// in-place patches
			for _, e := range pl.Path.Events {
				if e.Kind == EvPatch {
					natoms++
					w := want
					if w == "" {
						w = uniform
					}
					rep.Ob("B1-unit-order", ct.Name+".Encode.patch", e.Order == w || w == "", a.P.Pos(e.Pos), fmt.Sprintf("in-place length patch is %s-endian in a %s-endian unit", e.Order, w))
				}
			}
		}
		for _, pl := range tl.R.Dec {
			checkLayout("Decode", pl.Layout)
		}
	}
	rep.Counts["multi_byte_atoms"] = natoms
	rep.Floor("codec_types", len(a.U.Types), goldenFloor("types", 170))

	// B2 / B3 on the primitives
	prims := map[string]*ssa.Function{}
	for _, f := range a.U.Prims {
		prims[f.Name()] = f
	}
	insts := a.instancesOf()
	nInst := 0
	for _, f := range a.U.Prims {
		fns := []*ssa.Function{f}
		fns = append(fns, insts[f]...)
		for _, fn := range fns {
			if fn.Blocks == nil {
				continue
			}
			if fn != f {
				nInst++
			}
			paths, err := a.engineFor(fn).AnalyzeRoot(fn, nil)
			name := FuncName(fn)
			if !rep.Ob("B2-analysable", name, err == nil, a.P.Pos(fn.Pos()), fmt.Sprint(err)) {
				continue
			}
			orders := map[string]string{}
			for _, p := range paths {
				walkEvents(p.Events, func(e *Event, _ int) {
					switch e.Kind {
					case EvWriteInt, EvReadInt, EvPatch:
						if e.Order != "" && e.Order != "param" { // an order passed in by the caller is judged where it is passed (B1)
							orders[e.Order] = a.P.Pos(e.Pos)
						}
					}
				})
			}
			var os []string
			for o, p := range orders {
				os = append(os, o+" at "+p)
			}
			sort.Strings(os)
			_, unk := orders["?"]
			if unk && len(orders) == 1 && hasOpenTypeArgs(fn) {
				// a generic body whose order comes through a type parameter (`var o O; o.byteOrder()`, O a byte-order
				// strategy type): it has no order of its own – every full instantiation (each analysed here as well) has
				full := 0
				for _, inst := range insts[f] {
					if inst.Blocks != nil && !hasOpenTypeArgs(inst) {
						full++
					}
				}
				if full > 0 {
					unk = false
					delete(orders, "?")
				}
			}
			rep.Ob("B2-order-pure", name, len(orders) <= 1 && !unk, a.P.Pos(fn.Pos()), "primitive mixes byte orders: "+strings.Join(os, ", "))
		}
	}
	rep.Counts["primitive_instantiations"] = nInst
	npairs := 0
	var names []string
	for n := range prims {
		names = append(names, n)
	}
	sort.Strings(names)
	for _, n := range names {
		le := prims[n+"LE"]
		if le == nil {
			continue
		}
		npairs++
		be := prims[n]
		sb, errB := a.primRendering(be, false)
		sl, errL := a.primRendering(le, true)
		if !rep.Ob("B3-analysable", n, errB == nil && errL == nil, a.P.Pos(le.Pos()), fmt.Sprint(errB, errL)) {
			continue
		}
		ok := len(sb) == len(sl)
		diff := ""
		if ok {
			for i := range sb {
				if sb[i] != sl[i] {
					ok = false
					diff = "\n    " + n + ":   " + sb[i] + "\n    " + n + "LE: " + flipOrder(sl[i])
					break
				}
			}
		} else {
			diff = fmt.Sprintf("%d renderings vs %d renderings:\n    %s\n    %s", len(sb), len(sl), strings.Join(sb, "\n    "), strings.Join(sl, "\n    "))
		}
		rep.Ob("B3-twin", n+"/"+n+"LE", ok, a.P.Pos(le.Pos()), "the LE variant is not the BE variant with each integer's byte order flipped:"+diff)
		if len(rep.Samples) < 3 && ok {
			rep.Sample(map[string]interface{}{"twin": n + "/" + n + "LE", "paths": len(sb), "first_path": sb[0]})
		}
	}
	rep.Floor("twin_pairs", npairs, 14)
	rep.Floor("primitives", len(a.U.Prims), 33)
	_ = tier
}

// primSite: the innermost instruction that chose the byte order of the field's first multi-byte atom.
func (a *Analysis) primSite(f *FieldLayout) string {
	var pos string
	walkEvents(f.Ev, func(e *Event, _ int) {
		if pos == "" && (e.Kind == EvWriteInt || e.Kind == EvReadInt) && e.Order != "" {
			pos = a.P.Pos(e.Pos)
		}
	})
	// element order: prefer the first atom whose order differs from the prefix
	if f.Kind == "list" && f.Elem != nil && f.Elem.Order != "" && f.Elem.Order != f.POrder {
		walkEvents(f.Ev, func(e *Event, d int) {
			if d > 0 && (e.Kind == EvWriteInt || e.Kind == EvReadInt) && e.Order == f.Elem.Order {
				pos = a.P.Pos(e.Pos)
			}
		})
	}
	return pos
}

// instancesOf: concrete instantiations of each generic primitive present in the program.
func (a *Analysis) instancesOf() map[*ssa.Function][]*ssa.Function {
	m := map[*ssa.Function][]*ssa.Function{}
	for fn := range a.P.AllFuncs {
		if o := fn.Origin(); o != nil && o != fn && fn.Blocks != nil && len(fn.TypeArgs()) > 0 && fn.Synthetic == "" || (fn.Origin() != nil && fn.Origin() != fn && fn.Blocks != nil) {
			m[fn.Origin()] = append(m[fn.Origin()], fn)
		}
	}
	for _, l := range m {
		sort.Slice(l, func(i, j int) bool { return l[i].String() < l[j].String() })
	}
	return m
}

// primShape renders every path of a primitive's generic body canonically
// (event ids renumbered); for the LE twin every order is flipped.
func (a *Analysis) primShape(fn *ssa.Function, flip bool) ([]string, error) {
	paths, err := a.engineFor(fn).AnalyzeRoot(fn, nil)
	if err != nil {
		return nil, err
	}
	var out []string
	for _, p := range paths {
		s := wireShape(p)
		if flip {
			s = flipOrder(s)
		}
		out = append(out, s)
	}
	sort.Strings(out)
	return out, nil
}

func flipOrder(s string) string {
	s = strings.ReplaceAll(s, ",BE)", ",@@)")
	s = strings.ReplaceAll(s, ",LE)", ",BE)")
	s = strings.ReplaceAll(s, ",@@)", ",LE)")
	return s
}

// pathShape: canonical rendering of a path: wire/memory effects, conditions and results with ids renumbered.
func pathShape(p *Path) string {
	ren := newRenumber()
	var parts []string
	var rec func(evs []*Event) string
	rec = func(evs []*Event) string {
		var s []string
		for _, e := range evs {
			switch e.Kind {
			case EvLoadGlobal, EvPanicSite:
				continue
			}
			t := e.String()
			if e.Kind == EvRep || e.Kind == EvAlt {
				var arms []string
				for _, arm := range e.Iter {
					arms = append(arms, "["+condString(arm.Conds)+"] "+rec(arm.Events))
				}
				sort.Strings(arms)
				if e.Kind == EvRep {
					t = fmt.Sprintf("REP(count=%s,%s,partial=%v){%s}", e.Count.Pretty(), e.Bounded, e.Partial, strings.Join(arms, " | "))
				} else {
					t = "ALT{" + strings.Join(arms, " | ") + "}"
				}
			}
			s = append(s, t)
		}
		return strings.Join(s, " · ")
	}
	parts = append(parts, "conds["+condString(p.Conds)+"]")
	parts = append(parts, rec(p.Events))
	parts = append(parts, "ret["+prettyVals(p.Ret)+"]")
	if p.Panic {
		parts = append(parts, "PANIC")
	}
	return ren.apply(strings.Join(parts, " ; "))
}

type renumber struct{ m map[string]string }

func newRenumber() *renumber { return &renumber{m: map[string]string{}} }

// apply renumbers every "#<digits>" / "@<digits>" occurrence in order of first appearance.
func (r *renumber) apply(s string) string {
	var b strings.Builder
	for i := 0; i < len(s); i++ {
		c := s[i]
		if (c == '#' || c == '@') && i+1 < len(s) && s[i+1] >= '0' && s[i+1] <= '9' {
			j := i + 1
			for j < len(s) && s[j] >= '0' && s[j] <= '9' {
				j++
			}
			id := s[i+1 : j]
			n, ok := r.m[id]
			if !ok {
				n = fmt.Sprint(len(r.m) + 1)
				r.m[id] = n
			}
			b.WriteByte(c)
			b.WriteString(n)
			i = j - 1
			continue
		}
		b.WriteByte(c)
	}
	return b.String()
}

// wireShape renders what a path does to the wire and how it ends – the atoms with their number types, byte orders,
// length expressions, repetition structure and failure points, the results' provenance – without branch conditions,
// loop-variable names or event numbering, so that two spellings of the same behaviour render alike.
func wireShape(p *Path) string {
	ren := newRenumber()
	var rec func(evs []*Event) string
	rec = func(evs []*Event) string {
		var s []string
		for _, e := range evs {
			if !countsAsWire(e) && e.Kind != EvPatch && e.Kind != EvCalc {
				continue
			}
			t := e.String()
			if e.Kind == EvRep || e.Kind == EvAlt {
				var arms []string
				for _, arm := range e.Iter {
					arms = append(arms, rec(arm.Events))
				}
				sort.Strings(arms)
				arms = dedupe(arms)
				if e.Kind == EvRep {
					t = fmt.Sprintf("REP(count=%s,partial=%v){%s}", e.Count.Pretty(), e.Partial, strings.Join(arms, " | "))
				} else {
					t = "ALT{" + strings.Join(arms, " | ") + "}"
				}
			}
			s = append(s, t)
		}
		return strings.Join(s, " · ")
	}
	var rets []string
	for _, r := range p.Ret {
		switch {
		case r.Op == "nonnil" || (isErrorType(r.Type) && nilness(r) == +1):
			rets = append(rets, "err")
		case pathKind(p) == "err":
			rets = append(rets, "_") // what accompanies an error is not part of the wire behaviour
		default:
			rets = append(rets, r.Pretty())
		}
	}
	out := pathKind(p) + " ; " + rec(p.Events) + " ; ret[" + strings.Join(rets, ", ") + "]"
	return ren.apply(normLoopVars(out))
}

// coarseShapes renders the wire atoms of a path without their sources: one string per way through its alternatives.
func coarseShapes(p *Path) []string {
	atom := func(e *Event) string {
		t := ""
		switch e.Kind {
		case EvReadInt:
			t = "READ_INT(" + typeStr(e.IntType) + "," + e.Order + ")"
		case EvWriteInt:
			t = "WRITE_INT(" + typeStr(e.IntType) + "," + e.Order + ")"
		case EvPatch:
			t = "PATCH(" + typeStr(e.IntType) + "," + e.Order + ")"
		case EvReadBytes:
			t = "READ_BYTES"
		case EvWriteBytes:
			t = "WRITE_BYTES"
		case EvObj:
			t = "OBJ." + e.Dir
		case EvCalc:
			t = "CALC"
		default:
			t = e.Kind.String()
		}
		if e.Failed {
			t += " FAILED"
		}
		return t
	}
	var rec func(evs []*Event) []string
	rec = func(evs []*Event) []string {
		outs := []string{""}
		add := func(alts []string) {
			var n []string
			for _, o := range outs {
				for _, a := range alts {
					if len(n) > 64 {
						break
					}
					if o == "" {
						n = append(n, a)
					} else if a == "" {
						n = append(n, o)
					} else {
						n = append(n, o+" · "+a)
					}
				}
			}
			outs = n
		}
		for _, e := range evs {
			if !countsAsWire(e) && e.Kind != EvPatch && e.Kind != EvCalc {
				continue
			}
			switch e.Kind {
			case EvAlt:
				var alts []string
				for _, arm := range e.Iter {
					alts = append(alts, rec(arm.Events)...)
				}
				alts = dedupe(alts)
				if len(alts) > 0 {
					add(alts)
				}
			case EvRep:
				var arms []string
				for _, arm := range e.Iter {
					arms = append(arms, rec(arm.Events)...)
				}
				sort.Strings(arms)
				arms = dedupe(arms)
				add([]string{"REP{" + strings.Join(arms, " | ") + "}"})
			default:
				add([]string{atom(e)})
			}
		}
		return outs
	}
	var out []string
	for _, r := range rec(p.Events) {
		out = append(out, pathKind(p)+" ; "+r)
	}
	return out
}

// normLoopVars replaces "loopvar#N:name" / "loopout" spellings by a neutral token.
func normLoopVars(s string) string {
	var b strings.Builder
	for i := 0; i < len(s); {
		if strings.HasPrefix(s[i:], "loopvar#") {
			j := i + len("loopvar#")
			for j < len(s) && s[j] >= '0' && s[j] <= '9' {
				j++
			}
			if j < len(s) && s[j] == ':' {
				j++
				for j < len(s) && (s[j] == '.' || s[j] == '_' || s[j] >= 'a' && s[j] <= 'z' || s[j] >= 'A' && s[j] <= 'Z' || s[j] >= '0' && s[j] <= '9') {
					j++
				}
			}
			b.WriteString("lv")
			i = j
			continue
		}
		b.WriteByte(s[i])
		i++
	}
	return b.String()
}

// opsOnAllPaths: value transformations of field i on any of the given success paths (not only the primary one).
func opsOnAllPaths(pls []*PathLayout, i int) []string {
	seen := map[string]bool{}
	var out []string
	for _, pl := range pls {
		if i < len(pl.Layout.Fields) {
			for _, op := range allValueOps(pl.Layout.Fields[i]) {
				if !seen[op] {
					seen[op] = true
					out = append(out, op)
				}
			}
		}
	}
	return out
}

// generatedFile: the type's Encode method lives in a file produced by the protocol generator (header comment
// "Code generated … DO NOT EDIT."), i.e. it is a message of its package's protocol.
func (a *Analysis) generatedFile(ct *CodecType) bool {
	pos := a.P.Fset.Position(ct.Encode.Pos())
	for _, pk := range a.P.Pkgs {
		for _, f := range pk.Syntax {
			if a.P.Fset.Position(f.Pos()).Filename != pos.Filename {
				continue
			}
			for _, cg := range f.Comments {
				if cg.Pos() > f.Package {
					break
				}
				if strings.Contains(cg.Text(), "Code generated") && strings.Contains(cg.Text(), "DO NOT EDIT") {
					return true
				}
			}
		}
	}
	return false
}

// primRendering: the set of distinct wire renderings of a primitive's success paths (layout canon with symbolic
// parameters) plus the set of distinct shapes of its failing paths. Two spellings of the same behaviour (a bulk
// path for long lists next to a loop for short ones) render alike. Falls back to path shapes when a success path
// is not a recognisable field sequence.
// primitiveMirror: the wire renderings (type parameters by position, field names dropped) of the reader primitives and
// of the writer primitives must be the same set – a reader whose rendering no writer produces (or the reverse) cannot
// be the inverse of anything in the library, whatever instantiation a message uses.
func (a *Analysis) primitiveMirror() (problems []string, pos []string, n int) {
	type rend struct {
		fn  *ssa.Function
		key string
	}
	var readers, writers []rend
	nameless := func(f *FieldLayout) string {
		var strip func(f *FieldLayout) *FieldLayout
		strip = func(f *FieldLayout) *FieldLayout {
			if f == nil {
				return nil
			}
			g := *f
			g.Name = ""
			g.Elem = strip(f.Elem)
			if (g.Kind == "obj" || g.Kind == "dyn") && g.Table == "" {
				g.Kind, g.Obj, g.Key = "obj", "", "" // a nested part of the caller's choosing
			}
			return &g
		}
		return strip(f).WireCanon()
	}
	for _, fn := range a.U.Prims {
		if fn.Blocks == nil {
			continue
		}
		paths, err := a.engineFor(fn).AnalyzeRoot(fn, nil)
		if err != nil {
			continue
		}
		isReader := hasEvent(paths, isRead)
		isWriter := hasEvent(paths, isWrite)
		if isReader == isWriter {
			continue
		}
		for _, p := range paths {
			if pathKind(p) != "ok" {
				continue
			}
			c := &layoutCtx{u: a.U, path: p}
			var fs []*FieldLayout
			if isReader {
				fs = c.extractDec(p.Events, func(ids []int, loop int) (string, int, *Val, bool) {
					for ri, rv := range p.Ret {
						if ri < len(p.RetContent) && p.RetContent[ri] != nil {
							rv = p.RetContent[ri]
						}
						for _, id := range ids {
							if containsWire(rv, id) {
								return "ret", 0, rv, true
							}
						}
						if loop != 0 && containsCollect(rv, loop) {
							return "ret", 0, rv, true
						}
					}
					return "", -1, nil, false
				})
			} else {
				fs = c.extractEnc(p.Events)
			}
			if len(fs) == 0 {
				continue
			}
			var parts []string
			irregularAny := false
			for _, f := range fs {
				if f.Kind == "irregular" || (f.Elem != nil && f.Elem.Kind == "irregular") {
					irregularAny = true
				}
				parts = append(parts, nameless(f))
			}
			if os.Getenv("FPDEBUG") == "prim" {
				fmt.Fprintln(os.Stderr, "prim", FuncName(fn), "reader", isReader, strings.Join(parts, " · "), "ret", prettyVals(p.Ret), "content", prettyVals(p.RetContent))
			}
			if irregularAny {
				continue // helpers that are not a rendering of their own (pad-only, prefix-only); judged where they are inlined
			}
			fixedText := false
			for _, f := range fs {
				if f.Kind == "fixed" || (f.Elem != nil && f.Elem.Kind == "fixed") {
					fixedText = true
				}
			}
			if fixedText {
				continue // fixed-width text: writer/reader agreement under every valuation is C13's X5/X6
			}
			// only the atom codecs are compared: one number, one prefixed text or one list; helpers that write a
			// placeholder and a body, frames and the like are judged where they are inlined (C01, C04)
			if len(fs) != 1 || !(fs[0].Kind == "int" || fs[0].Kind == "ptext" || fs[0].Kind == "list") {
				continue
			}
			r := rend{fn: fn, key: strings.Join(parts, " · ")}
			if isReader {
				readers = append(readers, r)
			} else {
				writers = append(writers, r)
			}
		}
	}
	has := func(set []rend, key string) bool {
		for _, r := range set {
			if r.key == key {
				return true
			}
		}
		return false
	}
	seen := map[string]bool{}
	for _, r := range readers {
		n++
		if !has(writers, r.key) && !seen["r"+FuncName(r.fn)+r.key] {
			seen["r"+FuncName(r.fn)+r.key] = true
			problems = append(problems, fmt.Sprintf("reader primitive %s consumes %s, which no writer primitive of the library produces", FuncName(r.fn), r.key))
			pos = append(pos, a.P.Pos(r.fn.Pos()))
		}
	}
	for _, w := range writers {
		n++
		if !has(readers, w.key) && !seen["w"+FuncName(w.fn)+w.key] {
			seen["w"+FuncName(w.fn)+w.key] = true
			problems = append(problems, fmt.Sprintf("writer primitive %s produces %s, which no reader primitive of the library consumes", FuncName(w.fn), w.key))
			pos = append(pos, a.P.Pos(w.fn.Pos()))
		}
	}
	return
}

func (a *Analysis) primRendering(fn *ssa.Function, flip bool) ([]string, error) {
	args, _, _, _ := roleArgs(fn, 0)
	// bool parameters stay symbolic here: both arms are rendered
	args = nil
	paths, err := a.engineFor(fn).AnalyzeRoot(fn, args)
	if err != nil {
		return nil, err
	}
	set := map[string]bool{}
	for _, p := range paths {
		var r string
		if pathKind(p) == "ok" {
			c := &layoutCtx{u: a.U, path: p}
			var fs []*FieldLayout
			if hasEvent([]*Path{p}, isRead) {
				fs = c.extractDec(p.Events, func(ids []int, loop int) (string, int, *Val, bool) {
					for ri, rv := range p.Ret {
						if ri < len(p.RetContent) && p.RetContent[ri] != nil {
							rv = p.RetContent[ri]
						}
						for _, id := range ids {
							if containsWire(rv, id) {
								return "ret", 0, rv, true
							}
						}
						if loop != 0 && containsCollect(rv, loop) {
							return "ret", 0, rv, true
						}
					}
					return "", -1, nil, false
				})
			} else {
				fs = c.extractEnc(p.Events)
			}
			irregularAny := false
			for _, f := range fs {
				if f.Kind == "irregular" || (f.Elem != nil && f.Elem.Kind == "irregular") {
					irregularAny = true
				}
			}
			if irregularAny {
				r = wireShape(p)
			} else {
				r = "ok: " + (&Layout{Fields: fs}).Canon()
				for _, f := range fs {
					if ops := allValueOps(f); len(ops) > 0 {
						r += " {value path: " + strings.Join(ops, "; ") + "}"
					}
				}
			}
		} else {
			// a path that ends in an error: which atoms were read/written, in which type and byte order, and which of
			// them failed – not how the function's control flow spells it (a twin may be a loop with early returns where
			// the other keeps a sticky error, test `length > Len()` in an if where the other has an else …). One rendering
			// per way through the alternatives.
			for _, alt := range coarseShapes(p) {
				if flip {
					alt = flipOrder(alt)
				}
				set[alt] = true
			}
			continue
		}
		if flip {
			r = flipOrder(r)
		}
		set[r] = true
	}
	var out []string
	for r := range set {
		out = append(out, r)
	}
	sort.Strings(out)
	return out, nil
}

// hasOpenTypeArgs: fn is a generic body or a partial instantiation – some type parameter is still open in it.
func hasOpenTypeArgs(fn *ssa.Function) bool {
	if len(fn.TypeArgs()) == 0 {
		return fn.TypeParams() != nil && fn.TypeParams().Len() > 0
	}
	open := false
	var walk func(t types.Type, d int)
	walk = func(t types.Type, d int) {
		if t == nil || d > 6 || open {
			return
		}
		switch u := t.(type) {
		case *types.TypeParam:
			open = true
		case *types.Named:
			if ta := u.TypeArgs(); ta != nil {
				for i := 0; i < ta.Len(); i++ {
					walk(ta.At(i), d+1)
				}
			}
		case *types.Pointer:
			walk(u.Elem(), d+1)
		case *types.Slice:
			walk(u.Elem(), d+1)
		case *types.Array:
			walk(u.Elem(), d+1)
		case *types.Map:
			walk(u.Key(), d+1)
			walk(u.Elem(), d+1)
		}
	}
	for _, t := range fn.TypeArgs() {
		walk(t, 0)
	}
	return open
}
