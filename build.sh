#!/bin/sh
# builds /verif/bin/fpcheck from /verif/checker, offline, with the pre-installed go1.26.8 and the vendored x/tools
set -e
cd "$(dirname "$0")/checker"
export PATH=/opt/veriftools/go1.26.8/bin:$PATH GOTOOLCHAIN=local GOPROXY=off GOFLAGS=-mod=vendor GOSUMDB=off GOWORK=off CGO_ENABLED=0
mkdir -p ../bin
go build -o ../bin/fpcheck .
